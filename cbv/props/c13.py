"""C13 — optimisation never worsens quality; only clamped vertices move, on their constraints.

Tie: trace validation.  The real optimiser runs on a small perturbed assembly / mapped sketch with
clamps of every type and optional links while the harness records, from outside (wrappers around
`scipy.optimize.minimize`, `scipy.optimize.approx_fprime`, the grid's `update` and the reporter class;
no hook in the repository), every parameter vector evaluated, every position a clamp function and a
link produced and every quality value.  These recorded graphs are the ORACLES of the Lean model
(`CBV.C13.optimize`), which recomputes the whole run by itself: states, rollback / skip decisions,
clamp order, iteration count, back-port.  Final positions by index, final clamp parameters, flags,
reporter and iteration qualities and the back-ported vertices must agree.

The direct oracle states the property on the implementation alone (geometry hard-coded here).
"""

from __future__ import annotations

import contextlib
import io
import json
import math
import random
import re
import zlib
import sys
from fractions import Fraction
from typing import Any, Dict, List, Optional, Tuple

from .. import core

METHODS = ["SLSQP", "L-BFGS-B", "Nelder-Mead", "Powell"]
FRAMES = {
    "id": [[1, 0, 0], [0, 1, 0], [0, 0, 1]],
    "p345": [[0.6, 0.8, 0], [-0.8, 0.6, 0], [0, 0, 1]],
    "p221": [[2 / 3, 2 / 3, 1 / 3], [-2 / 3, 1 / 3, 2 / 3], [1 / 3, -2 / 3, 2 / 3]],
}
ORIGINS = {"id": [0, 0, 0], "p345": [0.25, -0.5, 0.125], "p221": [-0.5, 0.25, 1.0]}

# tolerances of the direct oracle
EPS_GEO = 1e-6  # distance from a manifold / link relation (lengths are O(1))
EPS_BND = 1e-6  # parameter bounds
Q_REL = 1e-6  # relative slack of "quality not worse": clamped vertices are first moved onto their
Q_ABS = 1e-7  # manifold (closer than TOL = 1e-7 to where they were), see notes/C13.md


# --------------------------------------------------------------------------- geometry helpers
def _v(x):
    import numpy as np

    return np.array(x, dtype=float)


def _to_world(case: dict, lat) -> "Any":
    """lattice coordinates (+ jitter) -> position"""
    import numpy as np

    fr = _v(FRAMES[case["frame"]])
    # `scale`: the same geometry in other units (round 4: 0.1 mm cells in a model in metres)
    return case.get("scale", 1.0) * (_v(ORIGINS[case["frame"]]) + lat[0] * fr[0] + lat[1] * fr[1] + lat[2] * fr[2])


def _dir_world(case: dict, d) -> "Any":
    fr = _v(FRAMES[case["frame"]])
    return d[0] * fr[0] + d[1] * fr[1] + d[2] * fr[2]


def lattice_points(case: dict) -> List[Tuple[int, int, int]]:
    d = case["dims"]
    if case["kind"] == "mesh":
        return [(i, j, k) for k in range(d[2] + 1) for j in range(d[1] + 1) for i in range(d[0] + 1)]
    return [(i, j, 0) for j in range(d[1] + 1) for i in range(d[0] + 1)]


def initial_positions(case: dict) -> Dict[Tuple[int, int, int], Any]:
    pos = {}
    for lat, jit in zip(lattice_points(case), case["jitter"]):
        pos[lat] = _to_world(case, [lat[0] + jit[0], lat[1] + jit[1], lat[2] + jit[2]])
    return pos


class Scenario:
    """The real objects of one case."""

    def __init__(self, case: dict):
        import numpy as np

        import classy_blocks as cb
        from classy_blocks.construct.flat.sketches.mapped import MappedSketch
        from classy_blocks.optimize.optimizer import MeshOptimizer, SketchOptimizer

        np.random.seed(case.get("np_seed", 0))  # PlaneClamp draws a random direction
        self.case = case
        pos = initial_positions(case)
        self.lat = lattice_points(case)
        d = case["dims"]
        self.mesh = None
        self.sketch = None
        if case["kind"] == "mesh":
            mesh = cb.Mesh()
            for k in range(d[2]):
                for j in range(d[1]):
                    for i in range(d[0]):
                        c = [(i, j, k), (i + 1, j, k), (i + 1, j + 1, k), (i, j + 1, k)]
                        bottom = cb.Face([pos[x] for x in c])
                        top = cb.Face([pos[(x[0], x[1], x[2] + 1)] for x in c])
                        mesh.add(cb.Loft(bottom, top))
            mesh.assemble()
            self.mesh = mesh
            self.opt = MeshOptimizer(mesh, report=bool(case.get("report")))
            self.quads = None
        else:
            nx = d[0] + 1
            plist = [pos[x] for x in self.lat]
            quads = []
            for j in range(d[1]):
                for i in range(d[0]):
                    quads.append([j * nx + i, j * nx + i + 1, (j + 1) * nx + i + 1, (j + 1) * nx + i])
            self.quads = quads
            self.sketch = MappedSketch(plist, quads)
            self.opt = SketchOptimizer(self.sketch, report=bool(case.get("report")))
        grid = self.opt.grid
        # lattice point -> junction index (by position, exact construction values)
        self.index_of: Dict[Tuple[int, int, int], int] = {}
        for lat in self.lat:
            best = min(range(len(grid.points)), key=lambda n: float(np.linalg.norm(grid.points[n] - pos[lat])))
            if float(np.linalg.norm(grid.points[best] - pos[lat])) > 1e-12:
                raise RuntimeError("lattice point not found among the grid points")
            self.index_of[lat] = best
        self.initial = np.array(grid.points, dtype=float).copy()
        self.clamps = []  # (spec, clamp, junction index)
        self.links = []  # (spec, link, leader index, follower index)
        live = bool(case.get("live")) and self.mesh is not None
        for spec in case["clamps"]:
            idx = self.index_of[tuple(spec["at"])]
            # `live`: the clamp is built from the vertex' own position array (the idiom of the examples)
            clamp = self.make_clamp(spec, self.mesh.vertices[idx].position if live else self.initial[idx])
            self._setup("clamp", clamp, lambda c=clamp: self.opt.add_clamp(c))
            self.clamps.append((spec, clamp, idx))
        self.rejected = []  # outcome of add_link for links that must be refused (follower is no point of the grid)
        for spec in case["links"]:
            li = self.index_of[tuple(spec["leader"])]
            fi = self.index_of[tuple(spec["follower"])]
            if live:
                link = self.make_link(spec, self.mesh.vertices[li].position, self.mesh.vertices[fi].position)
            else:
                link = self.make_link(spec, self.initial[li], self.initial[fi])
            self._setup("link", link, lambda l=link: self.opt.add_link(l))
            self.links.append((spec, link, li, fi))
        from classy_blocks.optimize.grid import InvalidLinkError

        for spec in case.get("bad_links", []):
            # the caller tries a candidate that is not a vertex, catches the refusal and goes on
            li = self.index_of[tuple(spec["leader"])]
            link = self.make_link(spec, self.initial[li], _to_world(case, spec["phantom"]))
            try:
                self._setup("link", link, lambda l=link: self.opt.add_link(l))
                self.rejected.append("accepted")
            except InvalidLinkError:
                self.rejected.append("InvalidLinkError")

    def add_later(self, add: dict) -> None:
        """round 6c: clamps / links added between two optimize() calls, on vertices that have not moved so far
        (so their position is still the initial one; the generator guarantees it)"""
        for spec in add.get("clamps", []):
            idx = self.index_of[tuple(spec["at"])]
            clamp = self.make_clamp(spec, self.initial[idx])
            self._setup("clamp", clamp, lambda c=clamp: self.opt.add_clamp(c))
            self.clamps.append((spec, clamp, idx))
        for spec in add.get("links", []):
            li = self.index_of[tuple(spec["leader"])]
            fi = self.index_of[tuple(spec["follower"])]
            link = self.make_link(spec, self.initial[li], self.initial[fi])
            self._setup("link", link, lambda l=link: self.opt.add_link(l))
            self.links.append((spec, link, li, fi))

    def _setup(self, kind: str, obj, call) -> None:
        """performs one add_clamp / add_link call and logs arguments, outcome and what the grid has registered
        afterwards (round 5: the set-up path is part of the model, request `c13.setup`)"""
        if not hasattr(self, "setup_log"):
            self.setup_log: List[dict] = []
            self._setup_ids: Dict[int, int] = {}
            self._setup_keep: List[Any] = []
        ident = len(self.setup_log)
        self._setup_ids[id(obj)] = ident
        self._setup_keep.append(obj)
        entry: Dict[str, Any] = {"kind": kind, "id": ident}
        if kind == "clamp":
            entry["pos"] = [float(x) for x in obj.position]
        else:
            entry["leader"] = [float(x) for x in obj.leader]
            entry["follower"] = [float(x) for x in obj.follower]
        err = None
        try:
            call()
        except Exception as e:
            name = type(e).__name__
            if name not in ("NoJunctionError", "ClampExistsError", "InvalidLinkError"):
                raise
            if name == "InvalidLinkError":
                msg = str(e)
                name += ":leader" if msg.startswith("Leader not found") else (":follower" if msg.startswith("Follower not found") else ":same")
            err = (name, e)
        grid = self.opt.grid
        n = len(grid.points)
        entry["err"] = err[0] if err else None
        entry["C"] = [[jn.index, self._setup_ids.get(id(jn.clamp), -1)] for jn in grid.junctions if jn.clamp is not None]
        entry["L"] = [[jn.index, il.follower_index % n, self._setup_ids.get(id(il.link), -1)] for jn in grid.junctions for il in jn.links]
        self.setup_log.append(entry)
        if err:
            raise err[1]

    # local frame of a clamp spec, in world coordinates
    def _frame(self, spec):
        import numpy as np

        e1 = _dir_world(self.case, spec["e1"])
        e1 = e1 / np.linalg.norm(e1)
        e2 = _dir_world(self.case, spec["e2"])
        e2 = e2 - np.dot(e2, e1) * e1
        e2 = e2 / np.linalg.norm(e2)
        e3 = np.cross(e1, e2)
        return e1, e2, e3

    def make_clamp(self, spec: dict, p):
        import numpy as np

        import classy_blocks as cb

        t = spec["type"]
        if spec.get("as") == "lists":
            p = np.array([float(x) for x in p])  # the clamp classes get python lists below where they accept them
        if t == "free":
            return cb.FreeClamp([float(x) for x in p] if spec.get("as") == "lists" else p)
        if t == "line":
            d = _dir_world(self.case, spec["dir"])
            d = d / np.linalg.norm(d)
            p1 = p - spec["a"] * d
            p2 = p + spec["b"] * d
            if spec.get("exact_ends"):
                p1 = _to_world(self.case, spec["exact_ends"][0])
                p2 = _to_world(self.case, spec["exact_ends"][1])
            b = spec.get("bounds")
            if spec.get("from_vertex"):
                # LineClamp(v.position, v.position, v.position + dx, bounds): the first point IS the array passed in
                return cb.LineClamp(p, p, p + spec["b"] * d, tuple(b) if b else None)
            return cb.LineClamp(p, p1, p2, tuple(b) if b else None)
        if t == "plane":
            return cb.PlaneClamp(p, p, _dir_world(self.case, spec["normal"]))
        if t == "radial":
            c = _to_world(self.case, spec["center"])
            return cb.RadialClamp(p, c, _dir_world(self.case, spec["normal"]), spec.get("bounds"))
        if t == "curve":
            e1, e2, e3 = self._frame(spec)
            a = spec["a"]
            p0 = np.array(p)
            curve = cb.AnalyticCurve(lambda s: p0 + s * e1 + a * s * s * e2, tuple(spec["bounds"]))
            return cb.CurveClamp(p, curve)
        if t == "surface":
            e1, e2, e3 = self._frame(spec)
            c = spec["c"]
            p0 = np.array(p)

            def fn(uv):
                return p0 + uv[0] * e1 + uv[1] * e2 + c * uv[0] * uv[1] * e3

            return cb.ParametricSurfaceClamp(p, fn, spec.get("bounds"))
        raise RuntimeError("unknown clamp type " + t)

    def make_link(self, spec: dict, leader, follower):
        import classy_blocks as cb

        t = spec["type"]
        form = spec.get("as")
        if form == "lists":
            leader, follower = [float(x) for x in leader], [float(x) for x in follower]
        elif form in ("ints", "int_tuples"):
            # typed by hand: cb.TranslationLink([0.1, 1.2, 0.0], [0, 2, 0]); whole numbers only where exact
            def hand(p):
                return [int(x) if float(x) == int(x) else float(x) for x in p]

            leader, follower = hand(leader), hand(follower)
            if form == "int_tuples":
                leader, follower = tuple(leader), tuple(follower)
        if t == "translation":
            return cb.TranslationLink(leader, follower)
        if t == "rotation":
            return cb.RotationLink(leader, follower, _dir_world(self.case, spec["axis"]), _to_world(self.case, spec["origin"]))
        if t == "symmetry":
            return cb.SymmetryLink(leader, follower, _dir_world(self.case, spec["normal"]), _to_world(self.case, spec["origin"]))
        raise RuntimeError("unknown link type " + t)


# --------------------------------------------------------------------------- recording
class Recorder:
    """Wraps scipy.optimize.minimize / approx_fprime, grid.update and the reporter class from outside."""

    def __init__(self, sc: Scenario):
        import numpy as np

        self.np = np
        self.sc = sc
        self.grid = sc.opt.grid
        self.pt_ids: Dict[bytes, int] = {}
        self.pt_vals: List[List[float]] = [[]]
        self.prm_ids: Dict[bytes, int] = {}
        self.prm_vals: List[List[float]] = [[]]
        self.pos: Dict[Tuple[int, int], int] = {}
        self.lnk: Dict[Tuple[int, int], int] = {}
        self.G: Dict[Tuple[int, ...], Optional[float]] = {}
        self.J: Dict[Tuple[int, Tuple[int, ...]], Optional[float]] = {}
        self.conflicts: List[str] = []
        self.events: List[dict] = []
        self.cur: Optional[dict] = None
        self.reporters: List[Any] = []
        self.clamp_no: Optional[Dict[int, int]] = None
        self.clamp_by_idx: Dict[int, Any] = {}
        self.prm0: List[int] = []
        self.clamp_pos0: List[List[float]] = []
        self.link_no = {id(l): n for n, (_, l, _, _) in enumerate(sc.links)}
        self.last_update_raised = False

    def clamp_uid(self, clamp) -> int:
        if not hasattr(self, "_clamp_uids"):
            self._clamp_uids: Dict[int, int] = {}
            self._clamp_keep: List[Any] = []
        if id(clamp) not in self._clamp_uids:
            self._clamp_uids[id(clamp)] = len(self._clamp_uids)
            self._clamp_keep.append(clamp)
        return self._clamp_uids[id(clamp)]

    def link_id(self, link) -> int:
        if id(link) not in self.link_no:
            self.link_no[id(link)] = len(self.link_no)
            self._keep = getattr(self, "_keep", []) + [link]
        return self.link_no[id(link)]

    def grid_links(self) -> List[List[int]]:
        """the links as the GRID has them registered: [leader junction, follower index as python indexes it, id]"""
        n = len(self.grid.points)
        return [[jn.index, il.follower_index % n, self.link_id(il.link)] for jn in self.grid.junctions for il in jn.links]

    def ensure_clamps(self) -> None:
        """clamp number j = position in `grid.clamps` (junction order); read from the grid itself, at first use"""
        if self.clamp_no is not None:
            return
        js = [jn for jn in self.grid.junctions if jn.clamp is not None]
        self.clamp_no = {jn.index: j for j, jn in enumerate(js)}
        self.idx_of_clamp = {j: jn.index for j, jn in enumerate(js)}
        self.clamp_by_idx = {jn.index: jn.clamp for jn in js}
        self.prm0 = [self.prmid(jn.clamp.params) for jn in js]
        self.clamp_pos0 = [[float(x) for x in jn.clamp.position] for jn in js]

    # ---- interning
    def pid(self, p) -> int:
        k = self.np.asarray(p, dtype=float).tobytes()
        if k not in self.pt_ids:
            self.pt_ids[k] = len(self.pt_vals)
            self.pt_vals.append([float(x) for x in self.np.asarray(p, dtype=float)])
        return self.pt_ids[k]

    def prmid(self, x) -> int:
        k = self.np.asarray(x, dtype=float).tobytes()
        if k not in self.prm_ids:
            self.prm_ids[k] = len(self.prm_vals)
            self.prm_vals.append([float(v) for v in self.np.asarray(x, dtype=float).ravel()])
        return self.prm_ids[k]

    def state(self) -> Tuple[int, ...]:
        return tuple(self.pid(p) for p in self.grid.points)

    def _put(self, table: dict, key, val, name: str) -> None:
        if key in table and table[key] != val and not (
            isinstance(val, float) and isinstance(table[key], float) and math.isnan(val) and math.isnan(table[key])
        ):
            self.conflicts.append(f"{name}{key}: {table[key]} vs {val}")
        table[key] = val

    def _quality(self, fn) -> Optional[float]:
        try:
            return float(fn())
        except ValueError:
            return None

    def record_rest(self, idx: Optional[int] = None) -> Tuple[int, ...]:
        st = self.state()
        self._put(self.G, st, self._quality(lambda: self.grid.quality), "G")
        if idx is not None:
            self._put(self.J, (idx, st), self._quality(lambda: self.grid.junctions[idx].quality), "J")
        return st

    # ---- wrappers
    def update(self, index, position):
        self.ensure_clamps()
        grid = self.grid
        junction = grid.junctions[index]
        clamp = self.clamp_by_idx.get(index)
        j = self.clamp_no.get(index, -1)
        prm = self.prmid(clamp.params) if clamp is not None else 0
        posid = self.pid(position)
        if clamp is not None:
            # keyed by the clamp OBJECT (a stable number), not by its number in `grid.clamps`: a clamp added between
            # two calls on a junction with a lower index renumbers the others (round 6c)
            self._put(self.pos, (self.clamp_uid(clamp), prm), posid, "pos")
        res: Optional[float] = None
        self.last_update_raised = False
        try:
            r = self.orig_update(index, position)
            res = float(r)
            return r
        except ValueError:
            self.last_update_raised = True
            raise
        finally:
            st = self.state()
            for il in junction.links:
                self._put(self.lnk, (self.link_id(il.link), posid), self.pid(il.link.follower), "lnk")
            if len(junction.links) > 0:
                self._put(self.G, st, res, "G")
                self._put(self.J, (index, st), self._quality(lambda: junction.quality), "J")
            else:
                self._put(self.J, (index, st), res, "J")
            if self.cur is not None:
                self.cur["updates"].append({"idx": index, "prm": prm, "raised": res is None})

    def _clamp_of_x0(self, x0) -> int:
        """clamp number of the clamp whose parameter array is handed to scipy (-1: not a call of the optimiser,
        e.g. the minimisation inside a clamp constructor)"""
        for jn in self.grid.junctions:
            if jn.clamp is not None and jn.clamp.params is x0:
                self.ensure_clamps()
                return self.clamp_no[jn.index]
        return -1

    def minimize(self, fun, x0, *a, **kw):
        j = self._clamp_of_x0(x0)
        if j < 0:
            return self.orig_minimize(fun, x0, *a, **kw)
        idx = self.idx_of_clamp.get(j)
        ev = {"type": "solve", "clamp": j, "updates": [], "solver_raised": False, "pre": None, "post": None}
        ev["pre"] = list(self.record_rest(idx))
        self.events.append(ev)
        self.cur = ev
        try:
            res = self.orig_minimize(fun, x0, *a, **kw)
        except ValueError:
            # raised by the quality inside the last update, or by something else (solver, clamp function)?
            if not (ev["updates"] and ev["updates"][-1]["raised"] and self.last_update_raised):
                ev["solver_raised"] = True
            raise
        finally:
            self.cur = None
        ev["post"] = list(self.record_rest(idx))
        return res

    def approx_fprime(self, xk, f, *a, **kw):
        j = self._clamp_of_x0(xk)
        if j < 0:
            return self.orig_fprime(xk, f, *a, **kw)
        idx = self.idx_of_clamp.get(j)
        ev = {"type": "probe", "clamp": j, "updates": [], "pre": None, "grad": None, "raised": False}
        ev["pre"] = list(self.record_rest(idx))
        self.events.append(ev)
        self.cur = ev
        try:
            g = self.orig_fprime(xk, f, *a, **kw)
        except ValueError:
            ev["raised"] = True
            raise
        finally:
            self.cur = None
        ev["grad"] = float(self.np.linalg.norm(self.np.asarray(g)))
        return g

    @contextlib.contextmanager
    def patched(self):
        import scipy.optimize

        import classy_blocks.optimize.optimizer as om

        rec = self

        class Reporter(om.ClampOptimizationData):  # type: ignore[misc]
            def __init__(self, *a, **kw):
                super().__init__(*a, **kw)
                rec.reporters.append(self)

        self.orig_minimize = scipy.optimize.minimize
        self.orig_fprime = scipy.optimize.approx_fprime
        orig_reporter = om.ClampOptimizationData
        scipy.optimize.minimize = self.minimize
        scipy.optimize.approx_fprime = self.approx_fprime
        self.attach(self.grid)
        om.ClampOptimizationData = Reporter
        try:
            yield self
        finally:
            scipy.optimize.minimize = self.orig_minimize
            scipy.optimize.approx_fprime = self.orig_fprime
            self.detach()
            om.ClampOptimizationData = orig_reporter

    def attach(self, grid) -> None:
        """(re)binds the recorder to a grid: the instance attribute `update` shadows the method"""
        self.detach()
        if grid is not self.grid:
            # junction quality sums over a *set* of cells: its last bit depends on the grid instance, so the
            # junction table is per grid (grid quality, clamp functions and links stay shared across calls)
            self.J = {}
        self.grid = grid
        self.orig_update = grid.update
        grid.update = self.update
        self._attached = grid

    def detach(self) -> None:
        g = getattr(self, "_attached", None)
        if g is not None:
            del g.update
            self._attached = None

    def begin_call(self) -> None:
        """a new optimize() call: fresh event / reporter lists; the oracle tables keep accumulating, so a clamp
        function or link that answers differently in a later call shows up as a conflict"""
        self.events = []
        self.reporters = []
        self.clamp_no = None
        self.cur = None


def _dots(xs) -> str:
    return ".".join(str(x) for x in xs)


def _q(v: Optional[float]) -> str:
    if v is None:
        return "x"
    if math.isnan(v) or math.isinf(v):
        return "x"
    return core.rat(v)


class C13(core.Check):
    pid = "C13"
    props_module = "CBV.Props.C13"
    workers = 8
    rule = (
        "cases: lattices of 1..4 hexahedra (Loft assemblies) or 2..6 quads (MappedSketch), in one of three frames, "
        "every vertex jittered; 1..3 (thorough: ..4) clamps drawn from Free/Line/Plane/Radial/Curve/ParametricSurface "
        "with and without bounds, 0..2 links (Translation/Rotation/Symmetry) from clamped leaders to unclamped "
        "followers, all four minimisation methods, 1..3 iterations, tolerance 0.1 or 1e-3; streams: valid, symfree "
        "(free clamp leading a symmetry link about a plane off the origin), overlap "
        "(followers clamped / shared; correspondence and frame only), degenerate (a bound that collapses a quad), "
        "deglink (the same with translation links led by the clamp: skip must put the followers back), radial "
        "(bounded RadialClamp at radius 0.3..0.7 with the optimum beyond the bounds; admissible arc taken from the case), "
        "reuse (clamps / links built from the live vertex.position arrays, two or three optimize() calls with different "
        "methods, the last possibly from a new optimizer re-using the clamp objects; every call modelled and judged "
        "against the geometry given at the start), variants (positions typed by hand: lists / tuples, whole numbers as "
        "ints), micro (the lattice with 0.05..0.2 mm cells), rejected (link candidates whose follower is no grid point "
        "are refused, the error is caught, then optimize), "
        "grow (two or three optimize() calls on one optimizer, another clamp - sometimes leading a translation link - added before each later call; judged per call), "
        "foreign (the clamp function raises RuntimeError in a chosen evaluation of a chosen optimize_clamp call: propagates before backport), "
        "nearideal (millimetre-sized sketches with only the clamped vertices 1e-5..9e-5 of a cell off: negative summed quality), "
        "boundary (0 iterations, no clamps, auto_optimize; 0 iterations with the report on), defaults (optimize() without "
        "arguments), driver (no optimiser run: a real IterationDriver fed with begin / end_iteration calls - limits -1..20, "
        "tolerances incl. 0, negative, > 1, equal qualities, differences below VSMALL, worse iterations, start quality 0, "
        "end before begin - and a real ClampOptimizationData put through final values / rollback / skip / undo); every "
        "second case runs with report=True and its printed summary line is compared and judged. "
        "Non-trivial = at least one accepted (improved) step or a "
        "rollback / skip; distinct = different case description."
    )
    assumptions = [
        "scipy.optimize.minimize / approx_fprime are oracles: the model takes the parameter vectors they evaluate as an "
        "arbitrary list (recorded from the run); nothing about their quality as minimisers is assumed",
        "the quality measure is an oracle: any function of the point array into a linear order, `none` for a degenerate cell",
        "clamp position functions and links are oracles: deterministic functions of parameters / leader position "
        "(the harness checks the recorded graphs are functional)",
        "theorems assume a well-formed configuration where stated: at most one clamp per junction, followers of clamped "
        "leaders are unclamped and pairwise different; the generator's `overlap` stream violates this on purpose and "
        "only the model correspondence and the frame clause are checked there",
        "quality-not-worse is stated from the state in which clamped vertices sit on their clamp position (the first "
        "sensitivity probe puts them there, closer than TOL to where they were); the direct oracle therefore allows a "
        f"slack of {Q_REL:g} relative + {Q_ABS:g} absolute",
    ]
    partial_note = (
        "Theorems cover the control flow of optimize / optimize_iteration / optimize_clamp / _get_sensitivity / "
        "GridBase.update / both backports for every oracle. That a concrete clamp function maps into its manifold "
        "(line, plane, circle, curve, surface) and that scipy respects the bounds are hypotheses of T_C13_on_manifold "
        "/ T_C13_bounds (C17 proves the manifold part for the library's clamps); the harness checks manifold "
        "membership, bounds and link relations numerically on the implementation. Quality-not-worse on the "
        "implementation is compared with a slack (see assumptions); the exact statement for a not yet consistent "
        "initial state is T_C13_noworse_general. Round 6: the driver / reporter model (IterationDriver, ClampOptimizationData, "
        "summary block) is over Q, the implementation computes in floats (compared to 1e-9 relative, the printed summary to 4 "
        "digits); T_C13_tie_statements is a textual snapshot of the control methods (trip-wire), the other T_C13_tie_* are "
        "semantic; additions between two optimize() calls: T_C13_noworse_add_clamp for a clamp on an unmoved vertex, "
        "T_C13_noworse_add_translation_link for a translation link built from the current positions, "
        "T_C13_noworse_add_rotation_link / _symmetry_link under the condition their constructors need, T_C13_noworse_phases "
        "with 'every phase is entered in a rest state' as hypothesis otherwise; an exception other than ValueError is modelled "
        "when raised in an evaluation of optimize_clamp (T_C13_abort_*), not inside a sensitivity probe or a restoring update."
    )

    # ------------------------------------------------------------------ generators
    def _rand_dir(self, rng: random.Random) -> List[float]:
        while True:
            d = [rng.randint(-4, 4) / 4 for _ in range(3)]
            if sum(abs(x) for x in d) >= 0.5:
                return d

    def _rand_dir_indep(self, rng: random.Random, e1: List[float]) -> List[float]:
        """a second frame direction that is not (nearly) parallel to the first: e1, e2 span the local frame of a
        curve / surface clamp (round 6: two parallel draws gave a frame of NaNs in the judge and a false alarm)"""
        while True:
            e2 = self._rand_dir(rng)
            cr = [e1[1] * e2[2] - e1[2] * e2[1], e1[2] * e2[0] - e1[0] * e2[2], e1[0] * e2[1] - e1[1] * e2[0]]
            if sum(x * x for x in cr) >= 1 / 16:
                return e2

    def _gen_valid(self, rng: random.Random, tier: str, stream: str = "valid") -> dict:
        kind = "mesh" if rng.random() < 0.55 else "sketch"
        if kind == "mesh":
            dims = rng.choice([[1, 1, 1], [2, 1, 1], [1, 2, 1], [2, 2, 1], [2, 1, 2], [1, 1, 2]] + ([[2, 2, 2]] if tier == "thorough" else []))
        else:
            dims = rng.choice([[2, 1, 0], [2, 2, 0], [3, 2, 0], [1, 2, 0]])
        frame = rng.choice(list(FRAMES))
        case: Dict[str, Any] = {"kind": kind, "dims": dims, "frame": frame, "stream": stream}
        lat = lattice_points(case)
        amp = 12 if kind == "mesh" else 14
        jitter = {}
        for p in lat:
            jz = rng.randint(-amp, amp) / 64 if kind == "mesh" else 0.0
            jitter[p] = [rng.randint(-amp, amp) / 64, rng.randint(-amp, amp) / 64, jz]
        n_clamps = rng.randint(1, min(len(lat), 3 if tier == "quick" else 4))
        chosen = rng.sample(lat, n_clamps)
        clamps = []
        for at in chosen:
            types = ["free", "line", "plane", "radial", "curve", "surface"]
            if kind == "sketch":
                types = ["line", "plane", "radial", "curve", "surface"]
            t = rng.choice(types)
            spec: Dict[str, Any] = {"at": list(at), "type": t}
            if kind == "sketch":
                # keep the vertex in the sketch plane
                inplane = [rng.randint(-4, 4) / 4, rng.randint(-4, 4) / 4, 0.0]
                if abs(inplane[0]) + abs(inplane[1]) < 0.5:
                    inplane = [1.0, 0.5, 0.0]
                perp = [-inplane[1], inplane[0], 0.0]
                if t == "line":
                    spec.update({"dir": inplane, "a": rng.randint(2, 6) / 8, "b": rng.randint(2, 6) / 8})
                    if rng.random() < 0.4:
                        spec["bounds"] = [spec["a"] - rng.randint(1, 3) / 8, spec["a"] + rng.randint(1, 3) / 8]
                elif t == "plane":
                    spec.update({"normal": [0.0, 0.0, 1.0]})
                elif t == "radial":
                    c = [at[0] + rng.choice([-1, 1]) * rng.randint(6, 12) / 8, at[1] + rng.randint(-6, 6) / 8, 0.0]
                    spec.update({"center": c, "normal": [0.0, 0.0, rng.choice([-1.0, 1.0, 2.0])]})
                    if rng.random() < 0.5:
                        spec["bounds"] = [-rng.randint(1, 3) / 8, rng.randint(1, 3) / 8]
                elif t == "curve":
                    spec.update({"e1": inplane, "e2": perp, "a": rng.randint(-4, 4) / 8, "bounds": [-rng.randint(2, 4) / 8, rng.randint(2, 4) / 8]})
                else:
                    spec.update({"e1": inplane, "e2": perp, "c": 0.0})
                    if rng.random() < 0.5:
                        spec["bounds"] = [[-0.375, 0.375], [-0.25, 0.5]]
            else:
                if t == "line":
                    spec.update({"dir": self._rand_dir(rng), "a": rng.randint(2, 6) / 8, "b": rng.randint(2, 6) / 8})
                    if rng.random() < 0.4:
                        spec["bounds"] = [spec["a"] - rng.randint(1, 3) / 8, spec["a"] + rng.randint(1, 3) / 8]
                elif t == "plane":
                    spec.update({"normal": self._rand_dir(rng)})
                elif t == "radial":
                    n = self._rand_dir(rng)
                    c = [at[0] + rng.choice([-1, 1]) * rng.randint(6, 12) / 8, at[1] + rng.randint(-6, 6) / 8, at[2] + rng.randint(-6, 6) / 8]
                    spec.update({"center": c, "normal": n})
                    if rng.random() < 0.5:
                        spec["bounds"] = [-rng.randint(1, 3) / 8, rng.randint(1, 3) / 8]
                elif t == "curve":
                    e1 = self._rand_dir(rng)
                    e2 = self._rand_dir_indep(rng, e1)
                    spec.update({"e1": e1, "e2": e2, "a": rng.randint(-4, 4) / 8, "bounds": [-rng.randint(2, 4) / 8, rng.randint(2, 4) / 8]})
                elif t == "surface":
                    e1 = self._rand_dir(rng)
                    spec.update({"e1": e1, "e2": self._rand_dir_indep(rng, e1), "c": rng.randint(-4, 4) / 8})
                    if rng.random() < 0.5:
                        spec["bounds"] = [[-0.375, 0.375], [-0.25, 0.5]]
            clamps.append(spec)
        # links from clamped leaders to unclamped, pairwise different followers
        links = []
        free = [p for p in lat if p not in chosen]
        rng.shuffle(free)
        n_links = rng.choice([0, 0, 1, 1, 2]) if free else 0
        for _ in range(n_links):
            if not free:
                break
            leader = rng.choice(chosen)
            t = rng.choice(["translation", "rotation", "symmetry"])
            if t == "symmetry":
                # the mirror image of the leader in a lattice mid-plane must be a free lattice point
                axes = [a for a in range(3) if dims[a] >= 1 and dims[a] - leader[a] != leader[a]]
                cand = []
                for a in axes:
                    f = list(leader)
                    f[a] = dims[a] - leader[a]
                    if tuple(f) in free:
                        cand.append((a, tuple(f)))
                if not cand:
                    t = "translation"
                else:
                    a, f = rng.choice(cand)
                    free.remove(f)
                    jl = list(jitter[leader])
                    jl[a] = -jl[a]
                    jitter[f] = jl
                    normal = [0.0, 0.0, 0.0]
                    normal[a] = rng.choice([1.0, -2.0])
                    origin = [rng.randint(-4, 4) / 4 for _ in range(3)]
                    origin[a] = dims[a] / 2
                    links.append({"leader": list(leader), "follower": list(f), "type": "symmetry", "normal": normal, "origin": origin})
                    continue
            f = free.pop()
            if t == "translation":
                links.append({"leader": list(leader), "follower": list(f), "type": "translation"})
            else:
                if kind == "sketch":
                    axis = [0.0, 0.0, rng.choice([1.0, -1.0])]
                    origin = [leader[0] + rng.choice([-1, 1]) * rng.randint(5, 10) / 8, leader[1] + rng.randint(-8, 8) / 8, 0.0]
                else:
                    axis = self._rand_dir(rng)
                    origin = [leader[0] + rng.choice([-1, 1]) * rng.randint(8, 14) / 8, leader[1] + rng.randint(-8, 8) / 8, leader[2] + rng.choice([-1, 1]) * rng.randint(8, 14) / 8]
                links.append({"leader": list(leader), "follower": list(f), "type": "rotation", "axis": axis, "origin": origin})
        case.update(
            {
                "jitter": [jitter[p] for p in lat],
                "clamps": sorted(clamps, key=lambda s: s["at"]),
                "links": links,
                "method": rng.choice(METHODS),
                "max_iterations": rng.choice([1, 2, 2, 3]),
                "tolerance": rng.choice([0.1, 0.1, 0.001]),
                "np_seed": rng.randint(0, 2**31 - 1),
            }
        )
        return case

    def _gen_overlap(self, rng: random.Random, tier: str) -> dict:
        """followers that are clamped themselves or shared by two links"""
        while True:
            case = self._gen_valid(rng, tier, "overlap")
            ats = [tuple(c["at"]) for c in case["clamps"]]
            lat = lattice_points(case)
            if len(ats) >= 2:
                case["links"] = [{"leader": list(ats[0]), "follower": list(ats[1]), "type": "translation"}]
                others = [p for p in lat if p not in ats]
                if others and rng.random() < 0.6:
                    f = rng.choice(others)
                    case["links"].append({"leader": list(ats[0]), "follower": list(f), "type": "translation"})
                    case["links"].append({"leader": list(ats[1]), "follower": list(f), "type": "translation"})
                return case

    def _gen_degenerate(self, rng: random.Random) -> dict:
        """a quad sketch (identity frame) with a line clamp whose bounds end exactly on two neighbouring vertices:
        evaluating a bound collapses an edge -> ValueError inside the quality -> the skip path"""
        dims = [2, 2, 0]
        case: Dict[str, Any] = {"kind": "sketch", "dims": dims, "frame": "id", "stream": "degenerate"}
        lat = lattice_points(case)
        jitter = {p: [0.0, 0.0, 0.0] for p in lat}
        for p in lat:
            if p not in ((1, 0, 0), (1, 2, 0), (1, 1, 0)):
                jitter[p] = [rng.randint(-8, 8) / 64, rng.randint(-8, 8) / 64, 0.0]
        jitter[(1, 1, 0)] = [0.0, rng.choice([-1, 1]) * rng.randint(20, 44) / 64, 0.0]
        clamp = {
            "at": [1, 1, 0], "type": "line", "dir": [0.0, 1.0, 0.0], "a": 0.0, "b": 0.0,
            "exact_ends": [[1, 0, 0], [1, 2, 0]], "bounds": [0.0, 2.0],
        }
        case.update(
            {
                "jitter": [jitter[p] for p in lat],
                "clamps": [clamp],
                "links": [],
                "method": rng.choice(["SLSQP", "SLSQP", "L-BFGS-B", "Powell", "Nelder-Mead"]),
                "max_iterations": rng.choice([1, 2, 3]),
                "tolerance": 0.001,
                "np_seed": 1,
            }
        )
        return case

    def _gen_deglink(self, rng: random.Random) -> dict:
        """round 2: a degenerate trial step of a clamp that LEADS LINKS.  3x2 quad sketch; the bottom point next to
        a corner slides on the bottom line between its two neighbours (default bounds = the two neighbouring points),
        starts very close to one of them (steep gradient: the first step of SLSQP / L-BFGS-B lands on the other
        bound and collapses an edge -> ValueError -> skip); the point above it on the top boundary (and sometimes
        the middle one) follows by a translation link and must be put back as well"""
        case: Dict[str, Any] = {"kind": "sketch", "dims": [3, 2, 0], "frame": "id", "stream": "deglink"}
        lat = lattice_points(case)
        jitter = {p: [0.0, 0.0, 0.0] for p in lat}
        mirror = rng.random() < 0.5  # which corner the leader starts next to
        col = 2 if mirror else 1
        ends = [[1, 0, 0], [3, 0, 0]] if mirror else [[0, 0, 0], [2, 0, 0]]
        x_start = rng.randint(1, 12) / 128  # 0.008 .. 0.094 from the near end
        jitter[(col, 0, 0)] = [(1 - x_start) if mirror else -(1 - x_start), 0.0, 0.0]
        for p in lat:
            if p[1] > 0 and rng.random() < 0.5:
                jitter[p] = [rng.randint(-3, 3) / 64, rng.randint(-3, 3) / 64 if p[1] == 1 else 0.0, 0.0]
        links = [{"leader": [col, 0, 0], "follower": [col, 2, 0], "type": "translation"}]
        if rng.random() < 0.4:
            links.append({"leader": [col, 0, 0], "follower": [col, 1, 0], "type": "translation"})
        case.update(
            {
                "jitter": [jitter[p] for p in lat],
                "clamps": [{"at": [col, 0, 0], "type": "line", "dir": [1.0, 0.0, 0.0], "a": 0.0, "b": 0.0, "exact_ends": ends}],
                "links": links,
                "method": rng.choice(["SLSQP", "L-BFGS-B"]),
                "max_iterations": rng.choice([1, 2, 3]),
                "tolerance": 0.001,
                "np_seed": 1,
            }
        )
        return case

    def _gen_radial_small(self, rng: random.Random) -> dict:
        """round 2: a BOUNDED radial clamp on a circle of radius < 1 whose quality optimum lies beyond the bounds:
        the interior vertex of a 2x2 lattice is moved along a small circle through its lattice position, away from
        it by an arc length larger than the bounds allow it to travel back.  The admissible arc (bounds as given to
        the constructor) is what the direct oracle checks."""
        kind = "mesh" if rng.random() < 0.35 else "sketch"
        dims = [2, 2, 1] if kind == "mesh" else [2, 2, 0]
        case: Dict[str, Any] = {"kind": kind, "dims": dims, "frame": rng.choice(list(FRAMES)), "stream": "radial"}
        lat = lattice_points(case)
        jitter = {p: [rng.randint(-4, 4) / 64, rng.randint(-4, 4) / 64, (rng.randint(-4, 4) / 64 if kind == "mesh" else 0.0)] for p in lat}
        radius = rng.randint(20, 44) / 64  # 0.31 .. 0.69
        side = rng.choice([-1, 1])
        at = (1, 1, rng.choice([0, 1]) if kind == "mesh" else 0)
        center = [at[0] - side * radius, float(at[1]), float(at[2])]
        arc_start = rng.randint(22, 30) / 64 * rng.choice([-1, 1])  # 0.34 .. 0.47 away from the lattice position
        ang = arc_start / radius
        pos = [center[0] + side * radius * math.cos(ang), center[1] + radius * math.sin(ang), float(at[2])]
        jitter[at] = [pos[0] - at[0], pos[1] - at[1], 0.0]
        bound = rng.randint(6, 10) / 64  # 0.09 .. 0.16
        case.update(
            {
                "jitter": [jitter[p] for p in lat],
                "clamps": [{"at": list(at), "type": "radial", "center": center, "normal": [0.0, 0.0, rng.choice([1.0, -1.0, 2.0])], "bounds": [-bound, bound]}],
                "links": [],
                "method": rng.choice(METHODS),
                "max_iterations": rng.choice([1, 2]),
                "tolerance": 0.1,
                "np_seed": 1,
            }
        )
        return case

    def _gen_reuse(self, rng: random.Random, tier: str) -> dict:
        """round 3: histories and aliasing.  Clamps and links are built from the vertices' own position arrays (the
        idiom of the examples: LineClamp(v.position, v.position, v.position + dx, bounds)), optimize() is called two
        or three times with different methods, the last time possibly from a NEW optimizer that re-uses the clamp
        and link objects after the first back-port.  Every call is judged against the geometry given at the start."""
        if rng.random() < 0.6:
            dims = rng.choice([[2, 2, 1], [2, 1, 1], [1, 2, 1]])
            case: Dict[str, Any] = {"kind": "mesh", "dims": dims, "frame": rng.choice(list(FRAMES)), "stream": "reuse"}
            lat = lattice_points(case)
            jitter = {p: [rng.randint(-5, 5) / 64 for _ in range(3)] for p in lat}
            a = 0 if dims[0] == 2 else 1
            at = tuple(1 if i == a or (i < 2 and dims[i] == 2) else rng.choice([0, 1]) for i in range(3))
            sign = rng.choice([-1, 1])
            d = [0.0, 0.0, 0.0]
            d[a] = float(sign)
            disp = rng.randint(22, 30) / 64  # the vertex sits 0.34 .. 0.47 away from where it should be, along the line
            jitter[at] = [disp * x for x in d]
            bound = rng.randint(5, 8) / 64  # it may slide 0.08 .. 0.125 to either side
            clamps = [{"at": list(at), "type": "line", "dir": d, "a": 0.0, "b": 1.0, "from_vertex": True, "bounds": [-bound, bound]}]
            links = []
            if rng.random() < 0.4:
                f = rng.choice([p for p in lat if p != at])
                links.append({"leader": list(at), "follower": list(f), "type": "translation"})
            case.update({"jitter": [jitter[p] for p in lat], "clamps": clamps, "links": links, "tolerance": 0.1, "np_seed": 1})
        else:
            while True:
                case = self._gen_valid(rng, tier, "reuse")
                if case["kind"] == "mesh":
                    break
        n_calls = rng.choice([2, 2, 3])
        calls = [[rng.choice(METHODS), rng.choice([1, 1, 2]), False] for _ in range(n_calls)]
        if rng.random() < 0.6:
            calls[-1][2] = True
        case.update({"live": True, "calls": calls, "method": calls[-1][0], "max_iterations": calls[-1][1]})
        return case

    def _gen_grow(self, rng: random.Random, tier: str = "thorough") -> dict:
        """round 6c: the optimizer grows between calls.  optimize() is called two or three times on ONE optimizer; before
        the second (third) call another clamp is added (sometimes leading a translation link) on a vertex that has not
        moved so far.  Clamp types whose constructor finds its parameters exactly (free, plane / line through the
        vertex).  Judged per call: only vertices clamped (or following a clamped leader) at the time of a call may
        move in it, quality never gets worse, every clamp / link added so far keeps its constraint."""
        kind = rng.choice(["mesh", "sketch"])
        dims = rng.choice([[2, 2, 1], [2, 1, 2], [2, 2, 2] if tier == "thorough" else [1, 2, 2]]) if kind == "mesh" else rng.choice([[3, 2, 0], [3, 3, 0], [2, 2, 0]])
        case: Dict[str, Any] = {"kind": kind, "dims": dims, "frame": rng.choice(list(FRAMES)), "stream": "grow"}
        lat = lattice_points(case)
        amp = 10
        jitter = {p: [rng.randint(-amp, amp) / 64, rng.randint(-amp, amp) / 64, (rng.randint(-amp, amp) / 64 if kind == "mesh" else 0.0)] for p in lat}
        n_calls = rng.choice([2, 2, 3])
        pool = lat[1:]
        rng.shuffle(pool)

        def clamp_spec(at) -> dict:
            t = rng.choice(["free", "plane", "line"] if kind == "mesh" else ["plane", "line"])
            spec: Dict[str, Any] = {"at": list(at), "type": t}
            if t == "plane":
                spec["normal"] = [0.0, 0.0, 1.0] if kind == "sketch" else self._rand_dir(rng)
            elif t == "line":
                d = [rng.choice([-1.0, 1.0, 0.5]), rng.choice([-1.0, 0.5, 1.0]), 0.0] if kind == "sketch" else self._rand_dir(rng)
                spec.update({"dir": d, "a": 0.0, "b": 1.0, "from_vertex": True, "bounds": [-rng.randint(2, 4) / 8, rng.randint(2, 4) / 8]})
            return spec

        groups = []
        for _ in range(n_calls):
            at = pool.pop()
            g: Dict[str, Any] = {"clamps": [clamp_spec(at)], "links": []}
            if len(pool) > n_calls and rng.random() < 0.4:
                g["links"].append({"leader": list(at), "follower": list(pool.pop()), "type": "translation"})
            groups.append(g)
        calls = [[rng.choice(METHODS), rng.choice([1, 1, 2]), False] for _ in range(n_calls)]
        case.update(
            {
                "jitter": [jitter[p] for p in lat],
                "clamps": groups[0]["clamps"],
                "links": groups[0]["links"],
                "adds": [dict(g, before_call=k) for k, g in enumerate(groups) if k >= 1],
                "calls": calls,
                "method": calls[-1][0],
                "max_iterations": calls[-1][1],
                "tolerance": 0.1,
                "np_seed": rng.randint(0, 2**31 - 1),
            }
        )
        return case

    def _gen_variants(self, rng: random.Random) -> dict:
        """round 4: API variants.  Positions typed by hand: clamps and links get python lists / tuples, whole numbers
        as ints (cb.TranslationLink([0.1, 1.2, 0.0], [0, 2, 0])).  Identity frame; the follower sits exactly on its
        (integer) lattice position, the clamped leader is displaced."""
        kind = rng.choice(["mesh", "sketch"])
        dims = rng.choice([[2, 1, 1], [1, 2, 1], [2, 2, 1]]) if kind == "mesh" else rng.choice([[2, 2, 0], [3, 2, 0]])
        case: Dict[str, Any] = {"kind": kind, "dims": dims, "frame": "id", "stream": "variants"}
        lat = lattice_points(case)
        jitter = {p: [rng.randint(-8, 8) / 64, rng.randint(-8, 8) / 64, (rng.randint(-8, 8) / 64 if kind == "mesh" else 0.0)] for p in lat}
        leader = rng.choice(lat)
        jitter[leader] = [rng.choice([-1, 1]) * rng.randint(9, 16) / 64, rng.choice([-1, 1]) * rng.randint(9, 16) / 64, (rng.randint(-12, 12) / 64 if kind == "mesh" else 0.0)]
        others = [p for p in lat if p != leader]
        rng.shuffle(others)
        links = []
        for n, f in enumerate(others[: rng.choice([1, 1, 2])]):
            jitter[f] = [0.0, 0.0, 0.0]
            links.append({"leader": list(leader), "follower": list(f), "type": "translation",
                          "as": rng.choice(["ints", "int_tuples"] if n == 0 else ["ints", "int_tuples", "lists"])})
        clamp: Dict[str, Any] = {"at": list(leader), "type": "free" if kind == "mesh" else "plane", "as": "lists"}
        if kind == "sketch":
            clamp["normal"] = [0.0, 0.0, 1.0]
        case.update(
            {
                "jitter": [jitter[p] for p in lat],
                "clamps": [clamp],
                "links": links,
                "method": rng.choice(["Nelder-Mead", "Powell", "Nelder-Mead", "SLSQP", "L-BFGS-B"]),
                "max_iterations": rng.choice([1, 2]),
                "tolerance": 0.1,
                "np_seed": rng.randint(0, 2**31 - 1),
            }
        )
        return case

    def _gen_micro(self, rng: random.Random) -> dict:
        """round 4: small absolute dimensions.  The lattice in other units: cells of 0.05 .. 0.2 mm in a model in
        metres (still three orders of magnitude above the library's point tolerance 1e-7).  Only clamp types whose
        constructor finds its parameters exactly (free, plane / line / circle through the vertex) are used."""
        scale = rng.choice([5e-5, 1e-4, 1e-4, 2e-4])
        kind = rng.choice(["mesh", "sketch", "sketch"])
        dims = rng.choice([[2, 1, 1], [1, 1, 2], [2, 2, 1]]) if kind == "mesh" else rng.choice([[2, 2, 0], [3, 2, 0], [2, 1, 0]])
        case: Dict[str, Any] = {"kind": kind, "dims": dims, "frame": rng.choice(list(FRAMES)), "stream": "micro", "scale": scale}
        lat = lattice_points(case)
        jitter = {p: [rng.randint(-10, 10) / 64, rng.randint(-10, 10) / 64, (rng.randint(-10, 10) / 64 if kind == "mesh" else 0.0)] for p in lat}
        if kind == "sketch" and dims[:2] == [2, 2] and rng.random() < 0.3:
            case.update({"jitter": [jitter[p] for p in lat], "clamps": [], "links": [], "auto": True, "method": rng.choice(METHODS),
                         "max_iterations": 2, "tolerance": 0.1, "np_seed": rng.randint(0, 2**31 - 1)})
            return case
        chosen = rng.sample(lat[1:], rng.choice([1, 1, 2]))  # lattice point 0 may or may not be junction 0
        clamps = []
        for at in chosen:
            t = rng.choice(["free", "plane", "line", "radial"] if kind == "mesh" else ["plane", "line", "radial"])
            spec: Dict[str, Any] = {"at": list(at), "type": t}
            inplane = [rng.choice([-1.0, 1.0, 0.5]), rng.choice([-1.0, 0.5, 1.0]), 0.0]
            if t == "plane":
                spec["normal"] = [0.0, 0.0, 1.0] if kind == "sketch" else self._rand_dir(rng)
            elif t == "line":
                spec.update({"dir": inplane if kind == "sketch" else self._rand_dir(rng), "a": 0.0, "b": scale, "from_vertex": True,
                             "bounds": [-rng.randint(2, 4) / 8 * scale, rng.randint(2, 4) / 8 * scale]})
            elif t == "radial":
                c = [at[0] + rng.choice([-1, 1]) * rng.randint(6, 12) / 8, at[1] + rng.randint(-6, 6) / 8, float(at[2])]
                spec.update({"center": c, "normal": [0.0, 0.0, rng.choice([1.0, -1.0])]})
                if rng.random() < 0.5:
                    spec["bounds"] = [-rng.randint(1, 3) / 8 * scale, rng.randint(1, 3) / 8 * scale]
            clamps.append(spec)
        links = []
        free = [p for p in lat if p not in chosen]
        if free and rng.random() < 0.4:
            links.append({"leader": list(chosen[0]), "follower": list(rng.choice(free)), "type": "translation"})
        case.update(
            {
                "jitter": [jitter[p] for p in lat],
                "clamps": sorted(clamps, key=lambda c: c["at"]),
                "links": links,
                "method": rng.choice(METHODS),
                "max_iterations": rng.choice([1, 2]),
                "tolerance": 0.1,
                "np_seed": rng.randint(0, 2**31 - 1),
            }
        )
        return case

    def _gen_nearideal(self, rng: random.Random) -> dict:
        """round 6b (tester change q3): an almost ideal, millimetre-sized sketch.  The summed quality of such a grid is
        NEGATIVE (the aspect term of a perfect quad is a hair below zero, -3.6e-3 per quad at 1 mm, -3.6e-2 at 0.1 mm),
        so everything that looks at the sign of a quality ratio is exercised; only the clamped vertices are off their
        lattice position, by 1e-5 .. 9e-5 of a cell.  Clamp types whose constructor finds its parameters exactly
        (as in `micro`), SLSQP / L-BFGS-B mostly: on geometry this small they step far too long, end somewhere much
        worse and have to be rolled back."""
        scale = rng.choice([1e-3, 1e-3, 5e-4, 2e-4, 1e-4])
        dims = rng.choice([[2, 2, 0], [2, 2, 0], [3, 2, 0], [2, 1, 0], [3, 3, 0]])
        case: Dict[str, Any] = {"kind": "sketch", "dims": dims, "frame": rng.choice(list(FRAMES)), "stream": "nearideal", "scale": scale}
        lat = lattice_points(case)
        interior = [p for p in lat if 0 < p[0] < dims[0] and 0 < p[1] < dims[1]]
        boundary = [p for p in lat[1:] if p not in interior]
        chosen = [rng.choice(interior)] if interior else [rng.choice(boundary)]
        if rng.random() < 0.35:
            chosen.append(rng.choice([p for p in (interior + boundary) if p not in chosen]))
        jitter = {p: [0.0, 0.0, 0.0] for p in lat}
        for p in chosen:
            jitter[p] = [rng.choice([-1, 1]) * rng.randint(1, 9) * 1e-5, rng.choice([-1, 1]) * rng.randint(1, 9) * 1e-5, 0.0]
        clamps = []
        for at in chosen:
            t = rng.choice(["plane", "plane", "line"])
            spec: Dict[str, Any] = {"at": list(at), "type": t}
            if t == "plane":
                spec["normal"] = [0.0, 0.0, 1.0]
            else:
                spec.update({"dir": [rng.choice([-1.0, 1.0, 0.5]), rng.choice([-1.0, 0.5, 1.0]), 0.0], "a": 0.0, "b": scale,
                             "from_vertex": True, "bounds": [-rng.randint(2, 4) / 8 * scale, rng.randint(2, 4) / 8 * scale]})
            clamps.append(spec)
        case.update(
            {
                "jitter": [jitter[p] for p in lat],
                "clamps": sorted(clamps, key=lambda c: c["at"]),
                "links": [],
                "method": rng.choice(["SLSQP", "SLSQP", "SLSQP", "L-BFGS-B", "Nelder-Mead", "Powell"]),
                "max_iterations": rng.choice([1, 2, 3]),
                "tolerance": 0.1,
                "np_seed": rng.randint(0, 2**31 - 1),
            }
        )
        return case

    def _gen_rejected(self, rng: random.Random, tier: str) -> dict:
        """round 4: behaviour after a caught exception.  A valid case; in addition the caller offers one or two link
        candidates whose follower is no point of the grid, add_link refuses them (InvalidLinkError, caught) and the
        optimisation goes on: the refused links must have left nothing behind."""
        case = self._gen_valid(rng, tier, "rejected")
        ats = [c["at"] for c in case["clamps"]]
        bad = []
        for _ in range(rng.choice([1, 1, 2])):
            leader = rng.choice(ats)
            off = [rng.choice([-0.5, 0.5]), rng.choice([-0.5, 0.5]), 0.0 if case["kind"] == "sketch" else rng.choice([-0.5, 0.5])]
            phantom = [leader[i] + off[i] for i in range(3)]
            if rng.random() < 0.7:
                bad.append({"leader": list(leader), "phantom": phantom, "type": "translation"})
            else:
                bad.append({"leader": list(leader), "phantom": phantom, "type": "symmetry", "normal": [1.0, 0.0, 0.0], "origin": [0.25, 0.5, 0.0]})
        case["bad_links"] = bad
        if case["max_iterations"] > 2:
            case["max_iterations"] = 2
        return case

    def _gen_symfree(self, rng: random.Random) -> dict:
        """a free clamp leading one or two links, the first a symmetry link whose plane does not pass through the
        origin (what `functions.mirror` used to spoil), at least two iterations"""
        dims = rng.choice([[2, 1, 1], [1, 2, 1], [2, 2, 1]])
        a = 0 if dims[0] == 2 else 1
        case: Dict[str, Any] = {"kind": "mesh", "dims": dims, "frame": rng.choice(list(FRAMES)), "stream": "symfree"}
        lat = lattice_points(case)
        jitter = {p: [rng.randint(-10, 10) / 64 for _ in range(3)] for p in lat}
        leader = rng.choice([p for p in lat if p[a] == 0])
        f = list(leader)
        f[a] = 2
        jl = list(jitter[leader])
        jl[a] = -jl[a]
        jitter[tuple(f)] = jl
        normal = [0.0, 0.0, 0.0]
        normal[a] = rng.choice([1.0, -2.0])
        origin = [rng.randint(1, 4) / 4 for _ in range(3)]
        origin[a] = 1.0
        links = [{"leader": list(leader), "follower": f, "type": "symmetry", "normal": normal, "origin": origin}]
        if rng.random() < 0.5:
            g = rng.choice([p for p in lat if p != leader and p != tuple(f)])
            links.append({"leader": list(leader), "follower": list(g), "type": "translation"})
        case.update(
            {
                "jitter": [jitter[p] for p in lat],
                "clamps": [{"at": list(leader), "type": "free"}],
                "links": links,
                "method": rng.choice(METHODS),
                "max_iterations": rng.choice([2, 3]),
                "tolerance": 0.001,
                "np_seed": 1,
            }
        )
        return case

    def _gen_boundary(self, rng: random.Random, tier: str) -> List[dict]:
        out = []
        c = self._gen_valid(rng, tier, "boundary")
        c["max_iterations"] = 0
        out.append(c)
        c = self._gen_valid(rng, tier, "boundary")
        c["clamps"], c["links"] = [], []
        out.append(c)
        c = self._gen_valid(rng, tier, "boundary")
        c.update({"kind": "sketch", "dims": [2, 2, 0], "clamps": [], "links": [], "auto": True})
        lat = lattice_points(c)
        c["jitter"] = [[rng.randint(-12, 12) / 64, rng.randint(-12, 12) / 64, 0.0] for _ in lat]
        out.append(c)
        return out

    def gen_cases(self, rng: random.Random, tier: str) -> List[dict]:
        n = 12 if tier == "quick" else 312  # rounds 6b / 6d: 12 of the quick runs moved to thorough
        cases = [self._gen_valid(rng, tier) for _ in range(n)]
        cases += [self._gen_symfree(rng) for _ in range(2 if tier == "quick" else 21)]
        cases += [self._gen_overlap(rng, tier) for _ in range(3 if tier == "quick" else 31)]
        cases += [self._gen_degenerate(rng) for _ in range(3 if tier == "quick" else 20)]
        cases += [self._gen_deglink(rng) for _ in range(4 if tier == "quick" else 25)]
        cases += [self._gen_radial_small(rng) for _ in range(3 if tier == "quick" else 33)]
        cases += [self._gen_reuse(rng, tier) for _ in range(3 if tier == "quick" else 42)]
        cases += [self._gen_variants(rng) for _ in range(3 if tier == "quick" else 24)]
        cases += [self._gen_micro(rng) for _ in range(3 if tier == "quick" else 33)]
        cases += [self._gen_rejected(rng, tier) for _ in range(3 if tier == "quick" else 24)]
        for _ in range(1 if tier == "quick" else 5):
            cases += self._gen_boundary(rng, tier)
        # round 6 (drawn last: the cases above are the ones earlier rounds saw for the same seed)
        cases += [self._gen_nearideal(rng) for _ in range(4 if tier == "quick" else 62)]
        cases += [self._gen_grow(rng, tier) for _ in range(2 if tier == "quick" else 41)]
        cases += [self._gen_defaults(rng, tier) for _ in range(1 if tier == "quick" else 10)]
        c = self._gen_valid(rng, tier, "boundary")
        c.update({"max_iterations": 0, "report": True})
        cases.append(c)
        for c in cases:
            # the summary block of optimize() (`if self.report:`) runs in every second case; no random number is drawn
            if "report" not in c:
                c["report"] = zlib.crc32(json.dumps(c, sort_keys=True).encode()) % 2 == 0 and all(
                    mi >= 1 for mi in ([c["max_iterations"]] if not c.get("calls") else [x[1] for x in c["calls"]]) if mi is not None
                )
        cases += [self._gen_driver(rng) for _ in range(40 if tier == "quick" else 400)]
        cases += [self._gen_foreign(rng, tier) for _ in range(4 if tier == "quick" else 40)]  # drawn last (round 6d)
        return cases

    def _gen_foreign(self, rng: random.Random, tier: str) -> dict:
        """round 6d: the clamp function raises RuntimeError in a chosen evaluation of a chosen optimize_clamp
        call (pure harness-side wrapper of `clamp.function`, what a user-defined clamp may do).  Nothing catches it: it
        leaves optimize() before backport.  If the chosen evaluation is never reached the case is an ordinary run."""
        while True:
            c = self._gen_valid(rng, tier, "foreign")
            if c["clamps"] and c["max_iterations"] >= 1:
                break
        c["report"] = False
        c["inject"] = {"solve": rng.choice([0, 0, 1, 1, 2, 3]), "eval": rng.choice([1, 2, 2, 3, 4])}
        return c

    def _gen_defaults(self, rng: random.Random, tier: str) -> dict:
        """optimize() called without arguments: max_iterations, tolerance and method are the source's defaults"""
        c = self._gen_valid(rng, tier, "defaults")
        c.update({"use_defaults": True, "method": "SLSQP", "max_iterations": None, "tolerance": None})
        c.pop("calls", None)
        return c

    def _gen_driver(self, rng: random.Random) -> dict:
        """the book-keeping classes on their own: an IterationDriver fed with begin / end_iteration calls and a
        ClampOptimizationData put through final values / rollback / skip"""
        mx = rng.choice([-1, 0, 1, 2, 3, 3, 4, 6, 20])
        tol = rng.choice([0.1, 0.1, 1e-3, 0.5, 0.0, -0.1, 1.5])
        n = rng.randint(0, 6)
        q = rng.choice([0.0, 0.0, 1.0, 2.5]) if rng.random() < 0.2 else rng.randint(1, 9000) / 1000
        ops = []
        for k in range(n):
            ops.append(["b", q])
            if k == n - 1 and rng.random() < 0.15:
                break  # begin without end: final_quality is still VBIG
            r = rng.random()
            if r < 0.25:
                q2 = q  # nothing gained
            elif r < 0.35:
                q2 = q + rng.choice([5e-7, -5e-7, 2e-7])  # below VSMALL
            elif r < 0.45:
                q2 = q + rng.randint(1, 500) / 1000  # worse (the theorems exclude it, the class must cope)
            else:
                q2 = max(0.0, q - rng.randint(1, 2000) / 1000) if rng.random() < 0.8 else q * rng.choice([0.5, 0.9, 0.99, 0.999])
            ops.append(["e", q2])
            q = q2
        if rng.random() < 0.05:
            ops = [["e", 1.0]] + ops  # end_iteration before any begin_iteration: IndexError
        gi = rng.randint(1, 9000) / 1000
        ji = rng.randint(1, 9000) / 1000
        rops = []
        for _ in range(rng.randint(0, 3)):
            k = rng.choice(["f", "f", "r", "s", "u"])
            rops.append([k, rng.randint(1, 9000) / 1000, gi + rng.randint(-500, 500) / 1000] if k == "f" else [k])
        return {"stream": "driver", "kind": "driver", "max_iterations": mx, "tolerance": tol, "ops": ops,
                "reporter": [rng.randint(0, 30), gi, ji, rops], "clamps": [], "links": [], "method": "-"}

    # ------------------------------------------------------------------ implementation
    def _run_driver(self, case: dict) -> Any:
        """the real IterationDriver / ClampOptimizationData, call by call"""
        from classy_blocks.optimize.iteration import ClampOptimizationData, IterationDriver

        def state(d) -> dict:
            try:
                conv = "yes" if d.converged else "no"
            except ZeroDivisionError:
                conv = "ZeroDivisionError"
            return {"conv": conv, "n": len(d.iterations), "init": float(d.initial_improvement), "last": float(d.last_improvement),
                    "idx": [it.index for it in d.iterations]}

        buf = io.StringIO()
        with contextlib.redirect_stdout(buf):
            d = IterationDriver(case["max_iterations"], case["tolerance"])
            states: List[Any] = [state(d)]
            for op, q in case["ops"]:
                try:
                    if op == "b":
                        d.begin_iteration(q)
                    else:
                        d.end_iteration(q)
                except IndexError:
                    states.append("IndexError")
                    break
                states.append(state(d))
            idx, gi, ji, rops = case["reporter"]
            r = ClampOptimizationData(idx, gi, ji)
            for op in rops:
                if op[0] == "f":
                    r.junction_final, r.grid_final = op[1], op[2]
                else:
                    {"r": r.rollback, "s": r.skip, "u": r.undo}[op[0]]()
            r.report_end()
        line = buf.getvalue().splitlines()[-1] if buf.getvalue() else ""
        rep = {"index": r.index, "gi": r.grid_initial, "ji": r.junction_initial, "jf": r.junction_final, "gf": r.grid_final,
               "skipped": bool(r.skipped), "rolled_back": bool(r.rolled_back), "improvement": float(r.improvement),
               "comment": "Skip" if line.rstrip().endswith("Skip") else ("Rollback" if line.rstrip().endswith("Rollback") else "")}
        return {"driver_states": states, "reporter_final": rep, "reporters": [1]}

    def run_impl(self, case: dict) -> Any:
        import numpy as np

        if case.get("stream") == "driver":
            return self._run_driver(case)
        try:
            sc = Scenario(case)
        except Exception as e:  # the scenario cannot be set up (e.g. clamp constructor rejects): not a case
            return {"setup_error": f"{type(e).__name__}: {e}"[:300], "setup_exc": type(e).__name__}
        rec = Recorder(sc)
        obs: Dict[str, Any] = {}
        calls = case.get("calls") or [[case["method"], case["max_iterations"], False]]
        per_call: List[Dict[str, Any]] = []
        buf = io.StringIO()
        with rec.patched(), contextlib.redirect_stdout(buf):
            for call_no, (method, max_iterations, fresh) in enumerate(calls):
                for add in case.get("adds", []):
                    if add["before_call"] == call_no:
                        try:
                            sc.add_later(add)
                        except Exception as e:
                            return {"setup_error": f"adding before call {call_no + 1}: {type(e).__name__}: {e}"[:300], "setup_exc": type(e).__name__}
                if fresh:
                    # a new optimizer for the same mesh / sketch, re-using the clamp and link objects
                    from classy_blocks.optimize.optimizer import MeshOptimizer, SketchOptimizer

                    rep = bool(case.get("report"))
                    sc.opt = MeshOptimizer(sc.mesh, report=rep) if sc.mesh is not None else SketchOptimizer(sc.sketch, report=rep)
                    try:
                        for _, clamp, _ in sc.clamps:
                            sc.opt.add_clamp(clamp)
                        for _, link, _, _ in sc.links:
                            sc.opt.add_link(link)
                    except Exception as e:
                        return {"setup_error": f"re-using clamps in a new optimizer: {type(e).__name__}: {e}"[:300], "setup_exc": type(e).__name__}
                    rec.attach(sc.opt.grid)
                opt = sc.opt
                grid = opt.grid
                rec.begin_call()
                co: Dict[str, Any] = {}
                co["links"] = rec.grid_links()
                co["pts0"] = list(rec.state())
                try:
                    co["q0"] = float(grid.quality)
                except ValueError:
                    co["q0"] = None
                rec.record_rest()
                raised = None
                driver = None
                out0 = len(buf.getvalue())
                summary_exc = None
                aborted = None
                inj = case.get("inject")
                if inj:
                    # round 6d: user-defined clamp functions that raise RuntimeError in evaluation `eval` of the
                    # `solve`-th optimize_clamp call (whichever clamp that call is for); harness-side only
                    hit: Dict[str, Any] = {}

                    def make_raising(orig_fn, hit=hit, inj=inj):
                        def raising(params):
                            cur = rec.cur
                            if cur is not None and cur["type"] == "solve" and not hit:
                                n_solves = sum(1 for e in rec.events if e["type"] == "solve")
                                if n_solves - 1 == inj["solve"] and len(cur["updates"]) == inj["eval"] - 1:
                                    hit["prm"] = rec.prmid(params)
                                    hit["updates"] = len(cur["updates"])
                                    raise RuntimeError("injected by the harness")
                            return orig_fn(params)

                        return raising

                    for _, target, _ in sc.clamps:
                        target.function = make_raising(target.function)
                try:
                    run = opt.auto_optimize if case.get("auto") else opt.optimize
                    if case.get("use_defaults"):
                        driver = run()  # max_iterations, tolerance, method: the defaults of the source
                    else:
                        driver = run(max_iterations=max_iterations, tolerance=case["tolerance"], method=method)
                except ValueError as e:
                    raised = f"ValueError: {e}"[:200]
                except RuntimeError as e:
                    if "injected by the harness" not in str(e):
                        raise
                    aborted = dict(hit)
                except (IndexError, ZeroDivisionError) as e:
                    # the summary block of optimize() (report=True) without iterations / with start quality 0: the
                    # model predicts it (Driver.summary); anything else of this kind is an internal error
                    if not case.get("report"):
                        raise
                    summary_exc = type(e).__name__
                co["aborted"] = aborted
                co["summary_exc"] = summary_exc
                m = re.search(r"Overall improvement: (\S+) > ([^\s(]+)\((\S+), (-?\d+)%\)", buf.getvalue()[out0:])
                co["summary"] = list(m.groups()) if m else None
                co["n_tol_msg"] = buf.getvalue()[out0:].count("Tolerance reached")
                rec.record_rest()
                rec.ensure_clamps()
                clamp_objs = [rec.clamp_by_idx[rec.idx_of_clamp[j]] for j in range(len(rec.clamp_by_idx))]
                spec_of = {id(c): n for n, (_, c, _) in enumerate(sc.clamps)}
                co["max_iterations"] = max_iterations
                co["clamp_idx"] = [rec.idx_of_clamp[j] for j in range(len(clamp_objs))]
                co["clamp_spec"] = [spec_of.get(id(c), -1) for c in clamp_objs]
                co["clamp_uids"] = [rec.clamp_uid(c) for c in clamp_objs]  # clamp number j of this call -> stable id
                co["prm0"] = rec.prm0
                co["clamp_pos0"] = rec.clamp_pos0
                co["raised"] = raised
                co["final"] = list(rec.state())
                co["final_prm"] = [rec.prmid(c.params) for c in clamp_objs]
                co["final_prm_vals"] = [[float(v) for v in np.asarray(c.params).ravel()] for c in clamp_objs]
                try:
                    co["q1"] = float(grid.quality)
                except ValueError:
                    co["q1"] = None
                if sc.mesh is not None:
                    co["back"] = [rec.pid(v.position) for v in sc.mesh.vertices]
                else:
                    co["back"] = [rec.pid(p) for p in sc.sketch.positions]
                co["hist"] = [[it.initial_quality, it.final_quality] for it in driver.iterations] if driver is not None else ([] if summary_exc else None)
                co["driver_args"] = [driver.max_iterations, driver.tolerance] if driver is not None else None
                co["reporters"] = [
                    {"idx": r.index, "flag": "S" if r.skipped else ("R" if r.rolled_back else "I"), "gi": r.grid_initial, "gf": r.grid_final}
                    for r in rec.reporters
                ]
                # what the case had set up at the time of this call (round 6c: clamps / links may be added between calls)
                co["case_clamps"] = [[n, idx] for n, (_, _, idx) in enumerate(sc.clamps)]
                co["case_links"] = [[li, fi] for _, _, li, fi in sc.links]
                co["link_data"] = [
                    {"type": s_["type"], "leader": li, "follower": fi, "leader0": [float(x) for x in sc.initial[li]],
                     "follower0": [float(x) for x in sc.initial[fi]]}
                    for s_, _, li, fi in sc.links
                ]
                co["events"] = rec.events
                co["J"] = [[k[0], list(k[1]), v] for k, v in rec.J.items()]
                per_call.append(co)
                if raised is not None or aborted is not None:
                    break
        # the last call at top level (what single-call cases always had), earlier ones under "prev"
        obs.update(per_call[-1])
        obs["prev"] = per_call[:-1]
        if case.get("auto"):
            nx = case["dims"][0] + 1
            obs["case_clamps"] = [[-1, sc.index_of[p]] for p in sc.lat if 0 < p[0] < case["dims"][0] and 0 < p[1] < case["dims"][1]]
        obs["rejected"] = sc.rejected
        from classy_blocks.util import constants as cb_constants

        obs["setup"] = None if case.get("auto") else {
            "log": getattr(sc, "setup_log", []),
            "pts": [[float(x) for x in p] for p in sc.initial],
            "tol": float(cb_constants.TOL),  # read from the source at run time
        }
        obs["orig_pts0"] = per_call[0]["pts0"]
        obs["orig_q0"] = per_call[0]["q0"]
        obs["pos"] = [[k[0], k[1], v] for k, v in rec.pos.items()]
        obs["lnk"] = [[k[0], k[1], v] for k, v in rec.lnk.items()]
        obs["G"] = [[list(k), v] for k, v in rec.G.items()]
        obs["conflicts"] = rec.conflicts[:5]
        obs["points"] = rec.pt_vals
        obs["quads"] = sc.quads
        return obs

    # ------------------------------------------------------------------ model
    @staticmethod
    def _iterations(impl: dict) -> List[dict]:
        """groups the recorded scipy calls into iterations: probes of all clamps, then one solve per clamp"""
        m = len(impl["clamp_idx"])
        its: List[dict] = []
        cur = None
        for ev in impl["events"]:
            if ev["type"] == "probe":
                if cur is None or cur["solves"] or len(cur["probes"]) >= m:
                    cur = {"probes": [], "solves": []}
                    its.append(cur)
                cur["probes"].append(ev)
            else:
                if cur is None:
                    cur = {"probes": [], "solves": []}
                    its.append(cur)
                cur["solves"].append(ev)
        return its

    @staticmethod
    def _per_call(impl: dict) -> List[dict]:
        """one observation per optimize() call: the earlier calls merged with the shared tables, then the last"""
        return [dict(impl, **co) for co in impl.get("prev", [])] + [impl]

    def requests(self, case: dict, impl: Any) -> List[str]:
        if "setup_error" in impl:
            return []
        if case.get("stream") == "driver":
            ops = ";".join(f"{o}:{core.rat(q)}" for o, q in case["ops"]) or "-"
            idx, gi, ji, rops = case["reporter"]
            r = ";".join(f"f:{core.rat(o[1])}:{core.rat(o[2])}" if o[0] == "f" else o[0] for o in rops) or "-"
            return [
                f"c13.driver {case['max_iterations']} {core.rat(case['tolerance'])} {ops} 0",
                f"c13.reporter {idx} {core.rat(gi)} {core.rat(ji)} {r}",
            ]
        lines = [self._request_abort(case, c) if c.get("aborted") else self._request_one(case, c) for c in self._per_call(impl)]
        # the driver object of every call, rebuilt from the recorded iteration qualities, with the summary block
        for c in self._per_call(impl):
            if c.get("hist") is not None and c.get("raised") is None:
                ops = ";".join(f"b:{core.rat(a)};e:{core.rat(b)}" for a, b in c["hist"]) or "-"
                mi = "20" if case.get("use_defaults") else str(c["max_iterations"])
                tol = "1/10" if case.get("use_defaults") else core.rat(case["tolerance"])
                lines.append(f"c13.driver {mi} {tol} {ops} {1 if case.get('report') else 0}")
        su = impl.get("setup")
        if su and su["log"]:
            v3 = lambda p: ",".join(core.rat(x) for x in p)
            ops = []
            for e in su["log"]:
                if e["kind"] == "clamp":
                    ops.append(f"clamp:{e['id']}:{v3(e['pos'])}")
                else:
                    ops.append(f"link:{e['id']}:{v3(e['leader'])}:{v3(e['follower'])}")
            tol2 = Fraction(su["tol"]) ** 2
            lines.append(f"c13.setup {core.rat(tol2)} " + ";".join(v3(p) for p in su["pts"]) + " " + ";".join(ops))
        return lines

    def _request_abort(self, case: dict, impl: Any) -> str:
        """the call ended in the injected exception: the model is asked for the state it leaves (c13.abort)"""
        line = self._request_one(case, impl, abort_prm=impl["aborted"]["prm"]).split(" ")
        its = self._iterations(impl)
        at = f"{len(its) - 1}:{len(its[-1]['solves']) - 1}:{impl['aborted']['updates']}"
        # c13.opt: pts clamps links pos lnk G J maxit:tol sched back  ->  c13.abort: … tol sched it:s:m
        return " ".join(["c13.abort"] + line[1:8] + [core.rat(case["tolerance"]), line[9], at])

    def _request_one(self, case: dict, impl: Any, abort_prm: Optional[int] = None) -> str:
        its = self._iterations(impl)
        sched = []
        for it in its:
            ps = []
            for ev in it["probes"]:
                evals = [u["prm"] for u in ev["updates"]]
                # the restoring update after approx_fprime is not an evaluation of the probe
                ps.append(_dots(evals) + ":" + (_q(ev["grad"]) if ev["grad"] is not None else "0/1"))
            ss = []
            for ev in it["solves"]:
                evals = [u["prm"] for u in ev["updates"]]
                if abort_prm is not None and it is its[-1] and ev is it["solves"][-1]:
                    evals.append(abort_prm)  # the parameters of the evaluation that raised
                ss.append(_dots(evals) + ":" + ("1" if ev["solver_raised"] else "0"))
            sched.append(";".join(ps) + "~" + ";".join(ss))
        back = "mesh" if case["kind"] == "mesh" else "sketch:" + ";".join(_dots(q) for q in impl["quads"])
        line = " ".join(
            [
                "c13.opt",
                "[" + ",".join(map(str, impl["pts0"])) + "]",
                "[" + ",".join(f"{i}:{p}" for i, p in zip(impl["clamp_idx"], impl["prm0"])) + "]",
                "[" + ",".join(f"{a}:{b}:{c}" for a, b, c in impl["links"]) + "]",
                "[" + ",".join(f"{impl['clamp_uids'].index(a)}:{b}:{c}" for a, b, c in impl["pos"] if a in impl["clamp_uids"]) + "]",
                "[" + ",".join(f"{a}:{b}:{c}" for a, b, c in impl["lnk"]) + "]",
                "[" + ",".join(f"{_dots(k)}={_q(v)}" for k, v in impl["G"]) + "]",
                "[" + ",".join(f"{i}@{_dots(k)}={_q(v)}" for i, k, v in impl["J"]) + "]",
                "d:d" if case.get("use_defaults") else f"{impl['max_iterations']}:{core.rat(case['tolerance'])}",
                "|".join(sched) if sched else "-",
                back,
            ]
        )
        return line

    @staticmethod
    def _close(a: float, b: Fraction, rel: float = 1e-9) -> bool:
        return abs(Fraction(a) - b) <= rel * max(abs(b), Fraction(1, 10**9))

    def _compare_driver_states(self, states: List[Any], ans: str, case_tol: float, q_first: Optional[float] = None) -> Optional[str]:
        parts = ans.split("|")
        if len(parts) < len(states):
            return f"{len(parts)} model states for {len(states)} of the implementation"
        for n, (st, m) in enumerate(zip(states, parts)):
            what = "after __init__" if n == 0 else f"after call {n}"
            if st == "IndexError" or m == "IndexError":
                if st != m:
                    return f"{what}: implementation {st}, model {m}"
                continue
            f = dict(x.split("=") for x in m.split(","))
            if int(f["n"]) != st["n"] or st["idx"] != list(range(st["n"])):
                return f"{what}: {st['n']} iterations with indices {st['idx']}, model {f['n']}"
            for k in ("init", "last"):
                if not self._close(st[k], Fraction(f[k])):
                    return f"{what}: {k}_improvement {st[k]!r}, model {f[k]}"
            if f["conv"] != st["conv"]:
                # the tolerance test `last_improvement / q0 < tolerance` within rounding of the threshold: floats and
                # exact rationals may legitimately differ (e.g. 8.163 -> 7.3467 with tolerance 0.1)
                if q_first and st["n"] >= 2 and {f["conv"], st["conv"]} == {"yes", "no"}:
                    ratio = st["last"] / q_first
                    if abs(ratio - case_tol) <= 1e-9 * max(1.0, abs(case_tol)):
                        continue
                return f"{what}: converged = {st['conv']}, model {f['conv']}"
        return None

    def _compare_driver(self, case: dict, impl: Any, model: List[str]) -> Optional[str]:
        if "bad-op" in model:
            return "model rejects the request (bad-op)"
        q_first = next((q for o, q in case["ops"] if o == "b"), None)
        why = self._compare_driver_states(impl["driver_states"], model[0], case["tolerance"], q_first)
        if why:
            return "IterationDriver " + why
        r = impl["reporter_final"]
        f = model[1].split(",")
        want = [str(r["index"]), core.rat(r["gi"]), core.rat(r["ji"]), core.rat(r["jf"]), core.rat(r["gf"]),
                "true" if r["skipped"] else "false", "true" if r["rolled_back"] else "false"]
        if f[:7] != want:
            return f"ClampOptimizationData record {want}, model {f[:7]}"
        if not self._close(r["improvement"], Fraction(f[7])):
            return f"ClampOptimizationData.improvement {r['improvement']!r}, model {f[7]}"
        if f[8] != r["comment"]:
            return f"status column {r['comment']!r}, model {f[8]!r}"
        return None

    def _compare_call_driver(self, case: dict, c: dict, ans: str) -> Optional[str]:
        """the driver of one optimize() call: rebuilt by the model from the iteration qualities it must say
        `converged` exactly at the end, and its summary block must be what optimize() printed"""
        if ans == "bad-op":
            return "model rejects the c13.driver request (bad-op)"
        parts = ans.split("|")
        want_args = [20, 0.1] if case.get("use_defaults") else [c["max_iterations"], case["tolerance"]]
        if c.get("driver_args") is not None and c["driver_args"] != want_args:
            return f"IterationDriver was built with {c['driver_args']}, the call says {want_args}"
        states = [dict(x.split("=") for x in p.split(",")) for p in parts[:-1]]
        # after __init__ and after every end_iteration but the last the loop went on, after the last it stopped
        ends = [states[0]] + states[2::2]
        tol_f = 0.1 if case.get("use_defaults") else case["tolerance"]
        for k, st in enumerate(ends):
            if (st["conv"] == "yes") != (k == len(ends) - 1):
                if k >= 2 and c["hist"][0][0] and abs(float(Fraction(st["last"])) / c["hist"][0][0] - tol_f) <= 1e-9 * max(1.0, abs(tol_f)):
                    continue  # within rounding of the tolerance threshold
                return f"the loop ran {len(ends) - 1} iterations; the driver model says converged={st['conv']} after {k}"
        msum = parts[-1][4:]
        if c.get("summary_exc") or msum in ("IndexError", "ZeroDivisionError"):
            if c.get("summary_exc") != msum:
                return f"summary block: implementation {c.get('summary_exc') or 'printed ' + str(c.get('summary'))}, model {msum}"
            return None
        if not case.get("report"):
            return None if (msum == "off" and c.get("summary") is None) else f"report is off, summary printed: {c.get('summary')}, model {msum}"
        if c.get("summary") is None:
            return f"no summary line was printed, model {msum}"
        a, b, d, rel = (Fraction(x) for x in msum.split(":"))
        want = [f"{float(a):.3e}", f"{float(b):.3e}", f"{float(d):.3e}", f"{float(rel) * 100:.0f}"]
        got = c["summary"]
        if got != want and [float(x) for x in got[:3]] != [float(x) for x in want[:3]]:
            return f"summary line of optimize(): printed {got}, model {want}"
        z = lambda x: "0" if x == "-0" else x  # 0.0 / (negative start quality) prints as -0%
        if z(got[3]) != z(want[3]) and abs(float(rel) * 100 % 1 - 0.5) > 1e-6:
            return f"summary line of optimize(): relative improvement printed {got[3]}%, model {want[3]}%"
        return None

    def compare(self, case: dict, impl: Any, model: List[str]) -> Optional[str]:
        if case.get("stream") == "driver":
            return self._compare_driver(case, impl, model)
        if impl.get("conflicts"):
            return "recorded oracle graphs are not functional (a clamp function / link / quality answered differently for the same argument): " + "; ".join(impl["conflicts"])
        # set-up: the grid must have the clamps on the junctions of the clamped vertices and exactly the links that
        # were added successfully (the model's `Cfg` is read from the grid, the case says what it should be)
        for c in self._per_call(impl):
            want_c = sorted(idx for _, idx in c["case_clamps"])  # at the time of that call
            if sorted(c["clamp_idx"]) != want_c:
                return f"clamps sit on junctions {sorted(c['clamp_idx'])}, the clamped vertices are {want_c}"
            got_l = sorted([l[0], l[1]] for l in c["links"])
            if got_l != sorted(c["case_links"]):
                return f"the grid has the links (leader, follower) {got_l} registered, successfully added were {sorted(c['case_links'])}"
        su = impl.get("setup")
        if su and su["log"]:
            why = self._compare_setup(su, model[-1])
            if why:
                return "set-up: " + why
        calls = self._per_call(impl)
        for n, (c, ans) in enumerate(zip(calls, model)):
            why = self._compare_one(case, c, ans)
            if why:
                return (f"optimize() call {n + 1}: " if len(calls) > 1 else "") + why
        k = len(calls)
        for n, c in enumerate(calls):
            if c.get("hist") is not None and c.get("raised") is None:
                why = self._compare_call_driver(case, c, model[k])
                k += 1
                if why:
                    return (f"optimize() call {n + 1}: " if len(calls) > 1 else "") + why
        return None

    @staticmethod
    def _compare_setup(su: dict, ans: str) -> Optional[str]:
        """after every add_clamp / add_link call: outcome and registration of the grid = the model's"""
        if ans == "bad-op":
            return "model rejects the request (bad-op)"
        steps = ans.split("|")
        if len(steps) != len(su["log"]):
            return f"{len(steps)} model steps for {len(su['log'])} calls"
        for e, st in zip(su["log"], steps):
            out, c, l, _i = st.split("_")
            lst = lambda x: [tuple(int(v) for v in t.split(":")) for t in x[2:-1].split(",") if t]
            what = f"{e['kind']} #{e['id']}"
            if out != (e["err"] or "ok"):
                return f"{what}: implementation {'raised ' + e['err'] if e['err'] else 'accepted'}, model says {out}"
            if sorted(lst(c)) != sorted(tuple(x) for x in e["C"]):
                return f"after {what}: grid has clamps (junction, id) {sorted(e['C'])}, model {sorted(lst(c))}"
            ml = sorted(lst(l), key=lambda t: t[0])  # stable: per leader in the order of the calls
            if ml != [tuple(x) for x in e["L"]]:
                return f"after {what}: grid has links (leader, follower, id) {e['L']}, model {ml}"
        return None

    def _compare_abort(self, case: dict, impl: Any, ans: str) -> Optional[str]:
        if ans == "bad-op":
            return "model rejects the c13.abort request (bad-op)"
        fields = dict(tok.split("=", 1) for tok in ans.split(" "))
        lst = lambda x: [int(v) for v in x[1:-1].split(",") if v]
        if fields["reached"] != "1":
            return "the implementation raised the injected exception, the model does not reach that evaluation: " + ans[:200]
        if lst(fields["final"]) != impl["final"]:
            bad = [i for i, (a, b) in enumerate(zip(lst(fields["final"]), impl["final"])) if a != b]
            return f"grid points after the propagated exception differ at indices {bad}"
        if lst(fields["prm"]) != impl["final_prm"]:
            return f"clamp parameters after the propagated exception: model {lst(fields['prm'])}, implementation {impl['final_prm']}"
        if lst(fields["back"]) != impl["back"]:
            return f"mesh / sketch after the propagated exception: model {lst(fields['back'])} (untouched), implementation {impl['back']}"
        return None

    def _compare_one(self, case: dict, impl: Any, ans: str) -> Optional[str]:
        if impl.get("aborted"):
            return self._compare_abort(case, impl, ans)
        if ans == "bad-op":
            return "model rejects the request (bad-op)"
        fields = dict(tok.split("=", 1) for tok in ans.split(" "))
        lst = lambda s: [x for x in s[1:-1].split(",") if x]
        # a probe whose restoring update is recorded among its updates: split off
        if "miss" in ans:
            return "model queried a quality the implementation never computed: " + ans[:300]
        m_final = [int(x) for x in lst(fields["final"])]
        if m_final != impl["final"]:
            bad = [i for i, (a, b) in enumerate(zip(m_final, impl["final"])) if a != b]
            return f"final positions differ at indices {bad}: model ids {[m_final[i] for i in bad]}, implementation {[impl['final'][i] for i in bad]}"
        m_raised = fields["raised"]
        if (m_raised != "none") != (impl["raised"] is not None):
            return f"model raised={m_raised}, implementation raised={impl['raised']}"
        if fields["fuel"] != "0":
            return "model ran out of fuel"
        if impl["raised"] is None:
            m_prm = [int(x) for x in lst(fields["prm"])]
            if m_prm != impl["final_prm"]:
                return f"final clamp parameters differ: model {m_prm}, implementation {impl['final_prm']}"
            m_hist = [tuple(h.split(":")) for h in lst(fields["hist"])]
            i_hist = [(core.rat(a), core.rat(b)) for a, b in impl["hist"]]
            if m_hist != i_hist:
                return f"iteration qualities differ: model {m_hist}, implementation {i_hist}"
            m_back = fields["back"]
            if m_back == "err" or [int(x) for x in lst(m_back)] != impl["back"]:
                return f"back-ported vertices differ: model {m_back}, implementation {impl['back']}"
        m_steps = [s.split(":") for s in lst(fields["steps"])]
        idx_of = impl["clamp_idx"]
        i_steps = impl["reporters"]
        if impl["raised"] is None and len(m_steps) != len(i_steps):
            return f"number of optimize_clamp calls: model {len(m_steps)}, implementation {len(i_steps)}"
        for ms, r in zip(m_steps, i_steps):
            want = [str(idx_of.index(r["idx"])), r["flag"], core.rat(r["gi"]), core.rat(r["gf"])]
            if ms[1:] != want:
                return f"optimize_clamp record differs: model {ms[1:]}, implementation {want}"
        return None

    # ------------------------------------------------------------------ oracle (property stated on the implementation)
    def oracle(self, case: dict, impl: Any) -> List[dict]:
        import numpy as np

        out: List[dict] = []
        if case.get("stream") == "driver":
            # termination: the driver must say `converged` once it holds max_iterations iterations;
            # a rolled back / skipped record reports nothing gained
            for st in impl["driver_states"]:
                if st != "IndexError" and st["n"] >= case["max_iterations"] and st["conv"] != "yes":
                    out.append({"site": "IterationDriver.converged:limit-ignored", "what": f"{st['n']} iterations with max_iterations={case['max_iterations']}: converged={st['conv']}", "observed": st["conv"], "expected": "yes"})
                    break
            r = impl["reporter_final"]
            last = case["reporter"][3][-1][0] if case["reporter"][3] else None
            if last in ("r", "s", "u") and (r["improvement"] != 0 or r["gf"] != r["gi"] or r["jf"] != r["ji"]):
                out.append({"site": "ClampOptimizationData.undo:not-restoring", "what": f"after {last}: {r}", "observed": r["improvement"], "expected": 0})
            return out
        if "setup_error" in impl:
            # the generator only produces configurations the library documents as valid (clamps at vertex
            # positions, links between two different vertices): being unable to set one up is a failure
            if case.get("stream") != "overlap":
                out.append({"site": f"setup:{impl.get('setup_exc')}", "what": f"valid configuration rejected: {impl['setup_error']}", "observed": impl["setup_error"], "expected": "optimizer accepts the clamps and links"})
            return out
        # every optimize() call of the case is judged, always against the geometry the user gave at the start
        calls = self._per_call(impl)
        for n, c in enumerate(calls):
            for v in self._oracle_one(case, c):
                if len(calls) > 1:
                    v["what"] = f"after optimize() call {n + 1} of {len(calls)}: " + v["what"]
                out.append(v)
            if out:
                break
        return out

    @staticmethod
    def _all_specs(case: dict, what: str) -> List[dict]:
        """the specs in the order the scenario builds them: the initial ones, then the ones added between calls"""
        return list(case[what]) + [s for add in sorted(case.get("adds", []), key=lambda a: a["before_call"]) for s in add.get(what, [])]

    def _oracle_one(self, case: dict, impl: Any) -> List[dict]:
        import numpy as np

        out: List[dict] = []
        pts = impl["points"]
        ref = impl.get("orig_pts0", impl["pts0"])  # positions before the first call
        P0 = np.array([pts[i] for i in ref])
        P1 = np.array([pts[i] for i in impl["final"]])
        if impl["q0"] is None:
            return out  # the initial grid is already degenerate: outside the property's quantifier
        if impl.get("aborted"):
            # an exception of the user's clamp function propagates; the property's last clause ("not left half-applied"):
            # the mesh / sketch must be exactly what it was before the call, unclamped grid points untouched
            if impl["back"] != impl["pts0"]:
                bad = [i for i, (a, b) in enumerate(zip(impl["back"], impl["pts0"])) if a != b] or ["length"]
                out.append({"site": f"optimize:exception-left-{case['kind']}-half-applied", "what": f"{case['kind']} points {bad} changed although optimize() ended in an exception of the clamp function", "observed": bad, "expected": "untouched"})
            clamped = {idx for _, idx in impl["case_clamps"]}
            followers = {l["follower"] for l in impl["link_data"] if l["leader"] in clamped}
            for i in range(len(P0)):
                if i not in clamped and i not in followers and ref[i] != impl["final"][i]:
                    out.append({"site": "optimize:unclamped-vertex-moved", "what": f"grid point {i} moved (run ended in an exception)", "observed": P1[i].tolist(), "expected": P0[i].tolist()})
                    break
            return out
        if impl["raised"] is not None:
            out.append(
                {
                    "site": "optimize:raised-" + ("clamp-function" if "Invalid parameter" in impl["raised"] else "ValueError"),
                    "what": f"optimize() raised {impl['raised']} on a valid initial grid; nothing was back-ported",
                    "observed": impl["raised"],
                    "expected": "rollback / skip",
                }
            )
            return out
        overlap = case.get("stream") == "overlap"
        # 1. quality not worse
        if impl["q1"] is None or impl["q1"] > impl["q0"] + Q_REL * abs(impl["q0"]) + Q_ABS:
            if not overlap:
                out.append({"site": "optimize:quality-worse", "what": f"grid quality {impl['q0']} -> {impl['q1']}", "observed": impl["q1"], "expected": f"<= {impl['q0']}"})
        # 1b. the summary optimize() prints is truthful: start / end are the grid quality before / after, the
        # improvement is their difference (4 digits are printed)
        sm = impl.get("summary")
        if sm and impl["q1"] is not None:
            try:
                ps, pe, pa = float(sm[0]), float(sm[1]), float(sm[2])
                want = impl["q0"] - impl["q1"]
                bad = (abs(ps - impl["q0"]) > 1e-3 * abs(impl["q0"]) or abs(pe - impl["q1"]) > 1e-3 * abs(impl["q1"])
                       or abs(pa - want) > 1e-3 * abs(want) + 1e-12)
            except ValueError:
                bad = True
            if bad:
                out.append({"site": "optimize:summary-not-initial-minus-final", "what": f"printed 'Overall improvement: {sm[0]} > {sm[1]}({sm[2]}, {sm[3]}%)' for grid quality {impl['q0']} -> {impl['q1']}", "observed": sm, "expected": f"{impl['q0']:.3e} > {impl['q1']:.3e}({impl['q0'] - impl['q1']:.3e}, …)"})
        # 2. frame: neither clamped nor follower of a clamped leader -> bit-identical
        # which vertices may move is taken from the CASE (vertex that was clamped, links that were added), not from
        # what the implementation registered
        clamped = {idx for _, idx in impl["case_clamps"]}
        followers = {l["follower"] for l in impl["link_data"] if l["leader"] in clamped}
        for i in range(len(P0)):
            if i not in clamped and i not in followers and ref[i] != impl["final"][i]:
                out.append({"site": "optimize:unclamped-vertex-moved", "what": f"vertex {i} moved from {P0[i].tolist()} to {P1[i].tolist()}", "observed": P1[i].tolist(), "expected": P0[i].tolist()})
                break
        # 5. back-port
        if impl["back"] != impl["final"]:
            bad = [i for i, (a, b) in enumerate(zip(impl["back"], impl["final"])) if a != b] or ["length"]
            out.append({"site": f"backport.{case['kind']}:differs-from-grid", "what": f"{case['kind']} points differ from the optimiser's final positions at {bad}"})
        # 6. rollback / skip restore the state (recorded: state at solve entry vs. state at the next rest)
        evs = impl["events"]
        solves = [n for n, e in enumerate(evs) if e["type"] == "solve"]
        for r, n in zip(impl["reporters"], solves):
            if r["flag"] in ("R", "S"):
                if overlap:
                    continue
                nxt = evs[n + 1]["pre"] if n + 1 < len(evs) else impl["final"]
                if nxt != evs[n]["pre"]:
                    out.append({"site": f"optimize_clamp:{'rollback' if r['flag'] == 'R' else 'skip'}-not-restoring", "what": f"points after the rolled back step differ from before at {[i for i, (a, b) in enumerate(zip(nxt, evs[n]['pre'])) if a != b]}"})
                    break
            elif not r["gf"] < r["gi"]:
                out.append({"site": "optimize_clamp:kept-without-improvement", "what": f"step kept with grid quality {r['gi']} -> {r['gf']}"})
        if overlap:
            return out
        # 3. clamped vertices on their manifold and inside the bounds
        helper = _Geo(case)
        if not case.get("auto"):
            for specno, idx in impl["case_clamps"]:
                spec = self._all_specs(case, "clamps")[specno]
                msg = helper.check_clamp(spec, P0[idx], None, P1[idx], None)
                if msg:
                    out.append({"site": f"clamp.{spec['type']}:{msg[0]}", "what": f"clamp at {spec['at']}: {msg[1]}", "observed": P1[idx].tolist()})
        else:
            for _, idx in impl["case_clamps"]:
                if abs(float(np.dot(P1[idx] - P0[idx], _dir_world(case, [0, 0, 1])))) > EPS_GEO:
                    out.append({"site": "clamp.plane:off-manifold", "what": f"auto clamp {idx} left the sketch plane"})
        # 4. links
        for spec, l in zip(self._all_specs(case, "links"), impl["link_data"]):
            if l["leader"] not in clamped:
                continue
            msg = helper.check_link(spec, np.array(l["leader0"]), np.array(l["follower0"]), P1[l["leader"]], P1[l["follower"]])
            if msg:
                out.append({"site": f"link.{spec['type']}:relation-broken", "what": f"link {spec['leader']}->{spec['follower']}: {msg}", "observed": P1[l["follower"]].tolist()})
        return out

    def nontrivial_key(self, case, impl):
        if "setup_error" in impl or not impl.get("reporters"):
            return None
        return json.dumps(case, sort_keys=True)

    def classify(self, case, impl):
        if case.get("stream") == "driver":
            convs = {st["conv"] if st != "IndexError" else "IndexError" for st in impl["driver_states"]}
            return "driver:" + "+".join(sorted(convs))
        if "setup_error" in impl:
            return "setup-error"
        flags = "".join(sorted({r["flag"] for r in impl.get("reporters", [])}))
        types = "+".join(sorted({c["type"] for c in case["clamps"]})) or "none"
        links = "+".join(sorted({l["type"][:3] for l in case["links"]})) or "nolink"
        calls = case.get("calls")
        method = case["method"] if not calls else "+".join(c[0] for c in calls) + ("(new)" if calls[-1][2] else "")
        if calls:
            flags = "/".join("".join(sorted({r["flag"] for r in c.get("reporters", [])})) or "-" for c in self._per_call(impl))
        return f"{case['stream']}:{case['kind']}:{method}:{types}:{links}:{flags or '-'}" + (":raised" if impl.get("raised") else "")


class _Geo:
    """Manifold / bounds / link relations, written down independently of the library."""

    def __init__(self, case: dict):
        self.case = case

    def _frame(self, spec):
        import numpy as np

        e1 = _dir_world(self.case, spec["e1"])
        e1 = e1 / np.linalg.norm(e1)
        e2 = _dir_world(self.case, spec["e2"])
        e2 = e2 - np.dot(e2, e1) * e1
        e2 = e2 / np.linalg.norm(e2)
        return e1, e2, np.cross(e1, e2)

    def check_clamp(self, spec, v0, c0, x, prm) -> Optional[Tuple[str, str]]:
        """v0: vertex position at the start, c0: clamp position at the start (on the manifold), x: final position"""
        import numpy as np

        t = spec["type"]
        if t == "free":
            return None
        if t == "line":
            if spec.get("exact_ends"):
                p1 = _to_world(self.case, spec["exact_ends"][0])
                p2 = _to_world(self.case, spec["exact_ends"][1])
                d = (p2 - p1) / np.linalg.norm(p2 - p1)
            else:
                d = _dir_world(self.case, spec["dir"])
                d = d / np.linalg.norm(d)
                p1 = v0 - spec["a"] * d
                p2 = v0 + spec["b"] * d
            off = float(np.linalg.norm(np.cross(x - p1, d)))
            if off > EPS_GEO:
                return ("off-manifold", f"distance {off:.3e} from the line")
            s = float(np.dot(x - p1, d))
            lo, hi = spec.get("bounds") or [0.0, float(np.linalg.norm(p2 - p1))]
            if not lo - EPS_BND <= s <= hi + EPS_BND:
                return ("out-of-bounds", f"line parameter {s} outside [{lo}, {hi}]")
            return None
        if t == "plane":
            n = _dir_world(self.case, spec["normal"])
            n = n / np.linalg.norm(n)
            off = abs(float(np.dot(x - v0, n)))
            return ("off-manifold", f"distance {off:.3e} from the plane") if off > EPS_GEO else None
        if t == "radial":
            c = _to_world(self.case, spec["center"])
            n = _dir_world(self.case, spec["normal"])
            n = n / np.linalg.norm(n)
            h0, h1 = float(np.dot(v0 - c, n)), float(np.dot(x - c, n))
            r0v, r1v = (v0 - c) - h0 * n, (x - c) - h1 * n
            r0, r1 = float(np.linalg.norm(r0v)), float(np.linalg.norm(r1v))
            if abs(h0 - h1) > EPS_GEO or abs(r0 - r1) > EPS_GEO:
                return ("off-manifold", f"radius {r0}->{r1}, height {h0}->{h1}")
            if spec.get("bounds"):
                ang = math.atan2(float(np.dot(np.cross(r0v, r1v), n)), float(np.dot(r0v, r1v)))
                s = ang * r0
                lo, hi = spec["bounds"]
                if not lo - EPS_BND <= s <= hi + EPS_BND:
                    return ("out-of-bounds", f"arc length {s} outside [{lo}, {hi}]")
            return None
        if t == "curve":
            e1, e2, e3 = self._frame(spec)
            u = x - v0
            s, w, z = float(np.dot(u, e1)), float(np.dot(u, e2)), float(np.dot(u, e3))
            if abs(z) > EPS_GEO or abs(w - spec["a"] * s * s) > EPS_GEO:
                return ("off-manifold", f"local coordinates ({s}, {w}, {z}) not on w = {spec['a']} s^2, z = 0")
            lo, hi = spec["bounds"]
            if not lo - EPS_BND <= s <= hi + EPS_BND:
                return ("out-of-bounds", f"curve parameter {s} outside [{lo}, {hi}]")
            return None
        if t == "surface":
            e1, e2, e3 = self._frame(spec)
            u = x - v0
            a, b, z = float(np.dot(u, e1)), float(np.dot(u, e2)), float(np.dot(u, e3))
            if abs(z - spec["c"] * a * b) > EPS_GEO:
                return ("off-manifold", f"local coordinates ({a}, {b}, {z}) not on z = {spec['c']} u v")
            if spec.get("bounds"):
                (l0, h0), (l1, h1) = spec["bounds"]
                if not (l0 - EPS_BND <= a <= h0 + EPS_BND and l1 - EPS_BND <= b <= h1 + EPS_BND):
                    return ("out-of-bounds", f"surface parameters ({a}, {b}) outside {spec['bounds']}")
            return None
        return None

    def check_link(self, spec, l0, f0, l1, f1) -> Optional[str]:
        import numpy as np

        t = spec["type"]
        if t == "translation":
            # follower = leader + (follower0 - leader0) in floats: a few ulps
            d = float(np.linalg.norm((f1 - l1) - (f0 - l0)))
            return f"follower - leader changed by {d:.3e}" if d > 1e-9 else None
        if t == "symmetry":
            n = _dir_world(self.case, spec["normal"])
            n = n / np.linalg.norm(n)
            o = _to_world(self.case, spec["origin"])
            mid = (l1 + f1) / 2
            off = abs(float(np.dot(mid - o, n)))
            par = float(np.linalg.norm(np.cross(f1 - l1, n)))
            if off > EPS_GEO or par > EPS_GEO:
                return f"not mirror images: midpoint {off:.3e} off the plane, connection {par:.3e} off the normal"
            return None
        if t == "rotation":
            a = _dir_world(self.case, spec["axis"])
            a = a / np.linalg.norm(a)
            o = _to_world(self.case, spec["origin"])

            def hr(p):
                h = float(np.dot(p - o, a))
                return h, (p - o) - h * a

            hf0, rf0 = hr(f0)
            hf1, rf1 = hr(f1)
            if abs(hf0 - hf1) > EPS_GEO or abs(float(np.linalg.norm(rf0)) - float(np.linalg.norm(rf1))) > EPS_GEO:
                return "follower changed its height or radius about the axis"
            _, rl0 = hr(l0)
            _, rl1 = hr(l1)
            ang = lambda u, v: math.atan2(float(np.dot(np.cross(u, v), a)), float(np.dot(u, v)))
            dl, df = ang(rl0, rl1), ang(rf0, rf1)
            diff = (dl - df + math.pi) % (2 * math.pi) - math.pi
            if abs(diff) * max(1.0, float(np.linalg.norm(rf0))) > 10 * EPS_GEO:
                return f"leader turned by {dl}, follower by {df}"
            return None
        return None


if __name__ == "__main__":
    sys.exit(core.main(C13()))
