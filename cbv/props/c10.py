"""C10 — face re-indexing and side/edge/corner addressing."""

from __future__ import annotations

import random
import sys
from fractions import Fraction
from typing import Any, List, Optional

from .. import core

# the blockMesh hexahedron convention, stated independently of the repository's tables
BM_SIDE = {
    "bottom": {0, 1, 2, 3},
    "top": {4, 5, 6, 7},
    "left": {0, 3, 4, 7},
    "right": {1, 2, 5, 6},
    "front": {0, 1, 4, 5},
    "back": {2, 3, 6, 7},
}
BM_EDGES = [{a, b} for a in range(8) for b in range(a + 1, 8) if bin(
    ((a % 4 in (1, 2)) ^ (b % 4 in (1, 2))) + ((a % 4 in (2, 3)) ^ (b % 4 in (2, 3))) + ((a >= 4) ^ (b >= 4))
) == "0b1"]


def _quad(rng: random.Random, kind: str = "general") -> List[List[Fraction]]:
    """A quadrilateral in general position: a jittered, sheared unit square, coordinates in 1/8 steps,
    corners at pairwise different distances from any of its corners (no ties).
    kind "reflex": planar with one reflex (concave) corner; kind "tiny": the same shapes a few millimetres
    large (coordinates are metres), strongly warped."""
    while True:
        base = [(0, 0), (8, 0), (8, 8), (0, 8)]
        pts = []
        for x, y in base:
            pts.append(
                [Fraction(x + rng.randint(-2, 2), 8), Fraction(y + rng.randint(-2, 2), 8), Fraction(rng.randint(-3, 3), 8)]
            )
        if kind == "reflex":
            k = rng.randrange(4)
            for p in pts:
                p[2] = Fraction(0)
            # pull one corner inside, beyond the diagonal of its neighbours
            opp = pts[(k + 2) % 4]
            t = Fraction(rng.randint(5, 6), 8)
            pts[k] = [pts[k][i] + t * (opp[i] - pts[k][i]) for i in range(2)] + [Fraction(0)]
        if kind == "tiny":
            sc = Fraction(1, 2 ** rng.randint(7, 9))
            pts = [[c * sc for c in p] for p in pts]
            if all(p[2] == pts[0][2] for p in pts):
                continue
        a = rng.choice([0, 1, 2])
        pts = [[p[(i + a) % 3] for i in range(3)] for p in pts]  # lie in any coordinate plane
        off = [Fraction(rng.randint(-16, 16), 8) * (Fraction(1, 256) if kind == "tiny" else 1) for _ in range(3)]
        pts = [[c + o for c, o in zip(p, off)] for p in pts]
        d = lambda p, q: sum((a - b) ** 2 for a, b in zip(p, q))
        if all(len({d(p, q) for q in pts}) == 4 for p in pts):
            return pts


def _slot_pair(slot: str):
    """corner numbers of the block edge addressed by add_edge on the bottom (b) / top (t) face or add_side_edge (s)"""
    i = int(slot[1])
    return {"b": (i, (i + 1) % 4), "t": (i + 4, (i + 1) % 4 + 4), "s": (i, i + 4)}[slot[0]]


def _fr(x) -> str:
    return core.rat(Fraction(x))


class C10(core.Check):
    pid = "C10"
    props_module = "CBV.Props.C10"
    rule = (
        "face cases: random quadrilateral in general position (rational coordinates) with four distinct edge data, "
        "random sequence (1..6) of invert / shift k (k in -8..8) / reorient near a chosen corner; addressing cases: "
        "random sequence (1..6) of set_patch / project_side / project_edge / project_corner over all 6 sides, all 64 "
        "corner pairs and 9 corner numbers (invalid ones included), the list form of set_patch (any selection and order of "
        "sides), remove_edges (no argument / empty list / corner list) and one edge datum put on two edges by corner "
        "numbers, observed on the assembled mesh; face quads are general (2/3), planar with a reflex corner, or "
        "millimetre-sized and warped, and the direction of Face.normal is compared with the model's exact vector. Thorough tier also "
        "enumerates all single calls exhaustively. Non-trivial = at least one call that changes the object; distinct = "
        "different call sequence or geometry."
    )
    assumptions = [
        "the face/operation model mirrors python list semantics (deque.rotate, list.reverse, stable sort) — validated by correspondence",
        "ties in distance (two corners equally close) are excluded by the generator, as the property's 'general position'",
    ]

    # ------------------------------------------------------------------ generators
    def gen_cases(self, rng: random.Random, tier: str) -> List[dict]:
        n = 150 if tier == "quick" else 2500
        cases: List[dict] = []
        for _ in range(n):
            qkind = rng.choice(["general"] * 4 + ["reflex", "tiny"])
            pts = _quad(rng, qkind)
            size = Fraction(1, 256) if qkind == "tiny" else Fraction(1)
            ops = []
            for _ in range(rng.randint(1, 6)):
                r = rng.random()
                if r < 0.3:
                    ops.append(["invert"])
                elif r < 0.6:
                    ops.append(["shift", rng.randint(-8, 8)])
                else:
                    j = rng.randrange(4)
                    if rng.random() < 0.25:
                        # a reference position very far away (relative tolerances must not decide the closest corner)
                        while True:
                            far = [Fraction(rng.randint(-9, 9) * 2 ** rng.randint(14, 22)) for _ in range(3)]
                            q = [c + f for c, f in zip(pts[j], far)]
                            d = sorted(sum((a - b) ** 2 for a, b in zip(p, q)) for p in pts)
                            if d[0] > 0 and all((d[k + 1] - d[k]) > d[k] * Fraction(1, 10**9) for k in range(3)):
                                break
                        ops.append(["reorient", j, [str(c) for c in q]])
                    else:
                        jit = [Fraction(rng.randint(-1, 1), 32) * size for _ in range(3)]
                        ops.append(["reorient", j, [str(c + e) for c, e in zip(pts[j], jit)]])
            cases.append({"kind": "face", "quad": qkind, "points": [[str(c) for c in p] for p in pts], "ops": ops})
        sides = list(BM_SIDE) + ["middle"]
        for _ in range(n):
            calls = []
            for _ in range(rng.randint(1, 6)):
                r = rng.random()
                lab = rng.choice(["g1", "g2"])
                if r < 0.3:
                    calls.append(["patch", rng.choice(sides if rng.random() < 0.1 else sides[:6]), rng.choice(["pa", "pb", "pc"])])
                elif r < 0.55:
                    calls.append(["pside", rng.choice(sides[:6]), lab, int(rng.random() < 0.4), int(rng.random() < 0.4)])
                elif r < 0.8:
                    if rng.random() < 0.8:
                        a, b = sorted(rng.choice(BM_EDGES))
                        if rng.random() < 0.5:
                            a, b = b, a
                    else:
                        a, b = rng.randrange(8), rng.randrange(8)
                    calls.append(["pedge", a, b, lab])
                elif r < 0.88:
                    calls.append(["pcorner", rng.randrange(9) if rng.random() < 0.1 else rng.randrange(8), lab])
                elif r < 0.93:
                    # the same list object handed to several project_corner calls
                    calls.append(["pcornerL", rng.randrange(8), rng.choice(["L1", "L2"]), None])
                elif r < 0.96:
                    calls.append(["nface", rng.randrange(6)])
                    if rng.random() < 0.7:
                        calls.append(["nface", rng.randrange(6)])
                elif r < 0.98:
                    # the list form of set_patch: any selection of sides in any order (rarely empty, rarely an invalid name)
                    k = rng.choice([0, 1, 2, 2, 3, 3, 4, 6])
                    sel = rng.sample(sides[:6], k)
                    if rng.random() < 0.05:
                        sel.insert(rng.randrange(len(sel) + 1), "middle")
                    calls.append(["patchL", "+".join(sel) or "-", rng.choice(["pa", "pb", "pc"])])
                else:
                    # remove_edges on the bottom/top face: no argument, an empty list, or a list of corners
                    r2 = rng.random()
                    cs = "all" if r2 < 0.2 else "-" if r2 < 0.45 else "+".join(map(str, rng.sample(range(4), rng.randint(1, 3))))
                    calls.append(["redges", rng.choice(["bottom", "top"]), cs])
            if rng.random() < 0.3:
                if rng.random() < 0.5:
                    sel = rng.sample(sides[:6], rng.choice([2, 2, 3, 3, 4, 6]))
                    extra = ["patchL", "+".join(sel), rng.choice(["pa", "pb", "pc"])]
                else:
                    r2 = rng.random()
                    cs = "all" if r2 < 0.2 else "-" if r2 < 0.5 else "+".join(map(str, rng.sample(range(4), rng.randint(1, 3))))
                    extra = ["redges", rng.choice(["bottom", "top"]), cs]
                calls.insert(rng.randint((len(calls) + 1) // 2, len(calls)), extra)
            if rng.random() < 0.12:
                # one edge-data object put on two different edges by corner numbers (last, so that no later
                # projection writes into the shared object)
                s1, s2 = rng.sample([f + str(i) for f in "bts" for i in range(4)], 2)
                calls.append(["sameproj", s1, s2, rng.choice(["g1", "g2"])])
                if rng.random() < 0.5:
                    calls.append(["patch", rng.choice(sides[:6]), "pa"])
            # a shared list always carries the label it was created with
            first = {}
            for c in calls:
                if c[0] == "pcornerL":
                    c[3] = first.setdefault(c[2], rng.choice(["g1", "g2"]))
            cases.append({"kind": "addr", "calls": calls})
        if tier == "thorough":
            for s in sides:
                cases.append({"kind": "addr", "calls": [["patch", s, "pa"]]})
                for e in (0, 1):
                    for p in (0, 1):
                        cases.append({"kind": "addr", "calls": [["pside", s, "g1", e, p]]})
            for a in range(8):
                for b in range(8):
                    cases.append({"kind": "addr", "calls": [["pedge", a, b, "g1"]]})
            for c in range(9):
                cases.append({"kind": "addr", "calls": [["pcorner", c, "g1"]]})
            import itertools

            for k in (1, 2, 3):
                for sel in itertools.permutations(sides[:6], k):
                    cases.append({"kind": "addr", "calls": [["patchL", "+".join(sel), "pa"]]})
            slots = [f + str(i) for f in "bts" for i in range(4)]
            for s1, s2 in itertools.combinations(slots, 2):
                cases.append({"kind": "addr", "calls": [["sameproj", s1, s2, "g1"]]})
            for face in ("bottom", "top"):
                for k in range(5):
                    for cs in itertools.combinations(range(4), k):
                        cases.append({"kind": "addr", "calls": [["pside", face, "g1", 1, 0], ["redges", face, "+".join(map(str, cs)) or "-"]]})
            for k in range(-9, 10):
                cases.append({"kind": "face", "points": [[str(c) for c in p] for p in _quad(rng)], "ops": [["shift", k]]})
        return cases

    # ------------------------------------------------------------------ implementation
    def run_impl(self, case: dict) -> Any:
        import numpy as np

        import classy_blocks as cb

        if case["kind"] == "face":
            pts = [[float(Fraction(c)) for c in p] for p in case["points"]]
            data = [cb.Arc([9.0 + i, 9.0, 9.0]) for i in range(4)]
            face = cb.Face(pts, list(data))
            pid = {id(p): i for i, p in enumerate(face.points)}
            eid = {id(e): i for i, e in enumerate(data)}
            trace = []
            n0 = [float(x) for x in face.normal]
            for op in case["ops"]:
                n_before = face.normal
                if op[0] == "invert":
                    face.invert()
                elif op[0] == "shift":
                    face.shift(op[1])
                else:
                    face.reorient([float(Fraction(c)) for c in op[2]])
                trace.append(
                    {
                        "pts": [pid.get(id(p), -1) for p in face.points],
                        "edges": [eid.get(id(e), -1) for e in face.edges],
                        "ndot": float(np.dot(n_before, face.normal)),
                        "pos": [[float(x) for x in p.position] for p in face.points],
                    }
                )
            return {"trace": trace, "n0": n0}

        # addressing, observed on the assembled mesh
        hexa = [[0, 0, 0], [1, 0, 0], [1.1, 1, 0], [0, 1.2, 0], [0, 0, 1], [1, 0, 1.3], [1, 1, 1], [0, 1.1, 1.1]]
        op = cb.Loft(cb.Face(hexa[:4]), cb.Face(hexa[4:]))
        shared = {}
        facing = []
        viewers = [[3, 0.4, 0.5], [-2, 0.5, 0.4], [0.5, 3, 0.5], [0.4, -2, 0.6], [0.5, 0.6, 3], [0.6, 0.4, -2]]
        try:
            for c in case["calls"]:
                if c[0] == "pcornerL":
                    op.project_corner(c[1], shared.setdefault(c[2], [c[3]]))
                elif c[0] == "nface":
                    nf = op.get_normal_face(viewers[c[1]])
                    cs = frozenset(min(range(8), key=lambda k: float(np.linalg.norm(np.array(hexa[k]) - p.position))) for p in nf.points)
                    facing.append([c[1], next((sd for sd, q in BM_SIDE.items() if q == set(cs)), "none:" + "-".join(map(str, sorted(cs))))])
                elif c[0] == "patch":
                    op.set_patch(c[1], c[2])
                elif c[0] == "patchL":
                    op.set_patch([] if c[1] == "-" else c[1].split("+"), c[2])
                elif c[0] == "redges":
                    face = op.bottom_face if c[1] == "bottom" else op.top_face
                    if c[2] == "all":
                        face.remove_edges()
                    else:
                        face.remove_edges([] if c[2] == "-" else [int(x) for x in c[2].split("+")])
                elif c[0] == "sameproj":
                    from classy_blocks.construct.edges import Project

                    datum = Project(c[3])
                    for slot in (c[1], c[2]):
                        i = int(slot[1])
                        if slot[0] == "b":
                            op.bottom_face.add_edge(i, datum)
                        elif slot[0] == "t":
                            op.top_face.add_edge(i, datum)
                        else:
                            op.add_side_edge(i, datum)
                elif c[0] == "pside":
                    op.project_side(c[1], c[2], bool(c[3]), bool(c[4]))
                elif c[0] == "pedge":
                    op.project_edge(c[1], c[2], c[3])
                else:
                    op.project_corner(c[1], c[2])
        except Exception as e:  # rejected
            return {"reject": type(e).__name__}
        mesh = cb.Mesh()
        mesh.add(op)
        mesh.assemble()
        assert [v.index for v in mesh.block_list.blocks[0].vertices] == list(range(8))
        pat = sorted(
            f"{name}:" + "-".join(str(v.index) for v in side.vertices)
            for name, p in mesh.patch_list.patches.items()
            for side in p.sides
        )
        fac = sorted(f"{f.label}:" + "-".join(str(v.index) for v in f.side.vertices) for f in mesh.face_list.faces)
        eds = sorted(
            (min(e.vertex_1.index, e.vertex_2.index), max(e.vertex_1.index, e.vertex_2.index), "+".join(e.data.label))
            for e in mesh.edge_list.edges
            if e.kind == "project"
        )
        cor = [(v.index, "+".join(v.projected_to)) for v in mesh.vertex_list.vertices if v.projected_to]
        return {
            "P": pat,
            "F": fac,
            "E": [f"{a}-{b}:{l}" for a, b, l in eds],
            "C": [f"{i}:{l}" for i, l in cor],
            "n_edges": len(mesh.edge_list.edges),
            "K": ["+".join(sorted(op.get_patches_at_corner(c))) for c in range(8)],
            "G": [
                side + ":" + "-".join(str(min(range(8), key=lambda k: float(np.linalg.norm(np.array(hexa[k]) - p.position)))) for p in face.points)
                for side, face in ((s_, op.get_face(s_)) for s_ in ("bottom", "top", "left", "right", "front", "back"))
            ],
            "G_all": [
                side + ":" + "-".join(str(min(range(8), key=lambda k: float(np.linalg.norm(np.array(hexa[k]) - p.position)))) for p in face.points)
                for side, face in op.get_all_faces().items()
            ],
            "facing": facing,
            "shared_lists": {k: list(v) for k, v in shared.items()},
        }

    # ------------------------------------------------------------------ model
    def requests(self, case: dict, impl: Any) -> List[str]:
        if case["kind"] == "face":
            pts = " ".join(",".join(_fr(c) for c in p) for p in case["points"])
            reqs = []
            ops = []
            for op in case["ops"]:
                if op[0] == "invert":
                    ops.append("invert")
                elif op[0] == "shift":
                    ops.append(f"shift:{op[1]}")
                else:
                    ops.append("reorient:" + ",".join(_fr(c) for c in op[2]))
                reqs.append(f"c10.face {pts} " + ";".join(ops))
            reqs.append(f"c10.normal {pts}")
            return reqs
        return ["c10.addr " + ";".join(":".join(str(x) for x in c) for c in case["calls"])]


    def compare(self, case: dict, impl: Any, model: List[str]) -> Optional[str]:
        if case["kind"] == "face":
            for step, ans in zip(impl["trace"], model):
                want = "[" + ",".join(map(str, step["pts"])) + "] [" + ",".join(map(str, step["edges"])) + "]"
                if ans != want:
                    return f"face after {case['ops']}: implementation {want}, model {ans}"
            # direction of the normal: the model's exact (unnormalised) vector against the implementation's unit vector
            raw = [float(Fraction(x)) for x in model[len(impl["trace"])].split()]
            length = sum(x * x for x in raw) ** 0.5
            if not length > 0:
                return f"model normal is zero for {case['points']}"
            cos = sum(a * b for a, b in zip(raw, impl["n0"])) / length
            if not cos > 1 - 1e-9:
                return f"Face.normal: implementation {impl['n0']}, model direction {[x / length for x in raw]}"
            return None
        ans = model[0]
        if "reject" in impl:
            return None if ans == "reject" else f"implementation rejects ({impl['reject']}), model answers {ans}"
        if ans == "reject":
            return "model rejects, implementation accepts"
        import re

        m = re.fullmatch(r"P\[(.*)\] F\[(.*)\] E\[(.*)\] C\[(.*)\] K\[(.*)\] G\[(.*)\]", ans)
        if not m:
            return "unparsable model answer " + ans
        got = {k: sorted(x for x in m.group(i + 1).split(";") if x) for i, k in enumerate("PFEC")}
        for k in "PFE":
            if got[k] != sorted(impl[k]):
                return f"section {k}: implementation {impl[k]}, model {got[k]}"
        if got["C"] != sorted(impl["C"]):
            return f"corners: implementation {impl['C']}, model {got['C']}"
        k_model = ["+".join(sorted(x for x in part.split("+") if x)) for part in m.group(5).split(";")]
        if k_model != impl["K"]:
            return f"patches at corners: implementation {impl['K']}, model {k_model}"
        if m.group(6).split(";") != impl["G"]:
            return f"faces by side name: implementation {impl['G']}, model {m.group(6)}"
        if sorted(m.group(6).split(";")) != sorted(impl["G_all"]):
            return f"get_all_faces: implementation {impl['G_all']}, model {m.group(6)}"
        return None

    # ------------------------------------------------------------------ oracle (property stated on the implementation)
    def oracle(self, case: dict, impl: Any) -> List[dict]:
        out = []
        if case["kind"] == "face":
            pts = [[Fraction(c) for c in p] for p in case["points"]]
            conn0 = {i: frozenset((i, (i + 1) % 4)) for i in range(4)}
            for op, step in zip(case["ops"], impl["trace"]):
                if sorted(step["pts"]) != [0, 1, 2, 3] or sorted(step["edges"]) != [0, 1, 2, 3]:
                    out.append({"site": f"Face.{op[0]}:points-or-edges-lost", "what": f"{op} gives {step}"})
                    break
                for pos, e in enumerate(step["edges"]):
                    ends = frozenset((step["pts"][pos], step["pts"][(pos + 1) % 4]))
                    if ends != conn0[e]:
                        out.append(
                            {
                                "site": f"Face.{op[0]}:edge-between-other-points",
                                "what": f"after {op}: edge datum {e} sits between points {sorted(ends)}",
                                "observed": step,
                            }
                        )
                        break
                if op[0] == "invert" and not step["ndot"] < -0.999:
                    out.append({"site": "Face.invert:normal-not-flipped", "what": f"n.n' = {step['ndot']}"})
                if op[0] != "invert" and not step["ndot"] > 0.999:
                    out.append({"site": f"Face.{op[0]}:normal-changed", "what": f"n.n' = {step['ndot']}"})
                if op[0] == "reorient":
                    q = [Fraction(c) for c in op[2]]
                    d = [sum((a - b) ** 2 for a, b in zip(pts[i], q)) for i in range(4)]
                    if d[step["pts"][0]] != min(d):
                        out.append(
                            {
                                "site": "Face.reorient:first-point-not-closest",
                                "what": f"reorient near corner {op[1]}: first point is {step['pts'][0]}",
                                "observed": step["pts"],
                                "expected": d.index(min(d)),
                            }
                        )
            return out
        if "reject" in impl:
            # a rejection is a violation only when every call was a valid one
            valid = all(
                (c[0] in ("patch", "pside") and c[1] in BM_SIDE)
                or (c[0] == "patchL" and all(x in BM_SIDE for x in c[1].split("+") if c[1] != "-"))
                or c[0] in ("redges", "sameproj")
                or (c[0] == "pedge" and {c[1], c[2]} in BM_EDGES)
                or (c[0] in ("pcorner", "pcornerL") and 0 <= c[1] < 8)
                or c[0] == "nface"
                for c in case["calls"]
            )
            if valid:
                out.append({"site": "Operation.addressing:valid-call-rejected", "what": f"{case['calls']} -> {impl}"})
            return out
        # expected, from the blockMesh convention alone
        exp_p, exp_f, exp_e, exp_c = {}, {}, {}, {}
        for c in case["calls"]:
            if c[0] == "patch":
                if c[1] not in BM_SIDE:
                    out.append({"site": "Operation.set_patch:invalid-side-accepted", "what": str(c)})
                    return out
                exp_p[c[1]] = c[2]
            elif c[0] == "pside":
                exp_f[c[1]] = c[2]
                if c[3]:
                    for e in BM_EDGES:
                        if e <= BM_SIDE[c[1]]:
                            exp_e.setdefault(frozenset(e), set()).add(c[2])
                if c[4]:
                    for k in BM_SIDE[c[1]]:
                        exp_c.setdefault(k, set()).add(c[2])
            elif c[0] == "pedge":
                if {c[1], c[2]} not in BM_EDGES:
                    out.append({"site": "Operation.project_edge:non-edge-accepted", "what": str(c)})
                    return out
                exp_e.setdefault(frozenset((c[1], c[2])), set()).add(c[3])
            elif c[0] == "nface":
                pass
            elif c[0] == "patchL":
                for x in [] if c[1] == "-" else c[1].split("+"):
                    if x not in BM_SIDE:
                        out.append({"site": "Operation.set_patch:invalid-side-accepted", "what": str(c)})
                        return out
                    exp_p[x] = c[2]
            elif c[0] == "redges":
                cs = range(4) if c[2] == "all" else [] if c[2] == "-" else [int(x) for x in c[2].split("+")]
                for k in cs:
                    exp_e.pop(frozenset(_slot_pair(("b" if c[1] == "bottom" else "t") + str(k))), None)
            elif c[0] == "sameproj":
                for slot in (c[1], c[2]):
                    exp_e[frozenset(_slot_pair(slot))] = {c[3]}
            else:
                if not 0 <= c[1] < 8:
                    out.append({"site": "Operation.project_corner:invalid-corner-accepted", "what": str(c)})
                    return out
                exp_c.setdefault(c[1], set()).add(c[3] if c[0] == "pcornerL" else c[2])
        got_p = {}
        for x in impl["P"]:
            name, quad = x.split(":")
            got_p[frozenset(map(int, quad.split("-")))] = name
        if got_p != {frozenset(BM_SIDE[s]): n for s, n in exp_p.items()}:
            out.append({"site": "Operation.set_patch:wrong-quad", "what": f"{case['calls']} -> {impl['P']}"})
        got_f = {frozenset(map(int, x.split(":")[1].split("-"))): x.split(":")[0] for x in impl["F"]}
        if got_f != {frozenset(BM_SIDE[s]): n for s, n in exp_f.items()}:
            out.append({"site": "Operation.project_side:wrong-quad", "what": f"{case['calls']} -> {impl['F']}"})
        got_e = {frozenset(map(int, x.split(":")[0].split("-"))): set(x.split(":")[1].split("+")) for x in impl["E"]}
        if got_e != exp_e:
            out.append({"site": "Operation.project_edge:wrong-edge", "what": f"{case['calls']} -> {impl['E']}"})
        want_side = ["right", "left", "back", "front", "top", "bottom"]
        for k, side in impl["facing"]:
            if side != want_side[k]:
                out.append({"site": "Operation.get_normal_face:not-the-side-facing-the-viewer", "what": f"{case['calls']}: viewer {k} got {side}"})
                break
        for g in impl["G"] + impl["G_all"]:
            side, quad = g.split(":")
            if set(map(int, quad.split("-"))) != BM_SIDE[side] or len(set(quad.split("-"))) != 4:
                out.append({"site": "Operation.get_face:wrong-corners", "what": f"{case['calls']}: get_face({side}) has corners {quad}"})
                break
        for k, v in impl["shared_lists"].items():
            if len(v) != 1:
                out.append({"site": "Operation.project_corner:callers-list-modified", "what": f"{case['calls']}: list {k} is now {v}"})
        for c in range(8):
            want = sorted({n for s_, n in exp_p.items() if c in BM_SIDE[s_]})
            if sorted(x for x in impl["K"][c].split("+") if x) != want:
                out.append(
                    {
                        "site": "Operation.get_patches_at_corner:wrong-patches",
                        "what": f"{case['calls']}: corner {c} reports {impl['K'][c]!r}, the sides through it carry {want}",
                    }
                )
                break
        got_c = {int(x.split(":")[0]): set(x.split(":")[1].split("+")) for x in impl["C"]}
        if got_c != exp_c:
            out.append({"site": "Operation.project_corner:wrong-corner", "what": f"{case['calls']} -> {impl['C']}"})
        return out

    def nontrivial_key(self, case, impl):
        import json

        if case["kind"] == "addr" and isinstance(impl, dict) and "reject" in impl:
            return "reject:" + json.dumps(case["calls"])
        return json.dumps(case, sort_keys=True)

    def classify(self, case, impl):
        if case["kind"] == "face":
            return "face:" + "+".join(sorted({o[0] for o in case["ops"]}))
        if "reject" in impl:
            return "addr:rejected:" + impl["reject"]
        return "addr:" + "+".join(sorted({c[0] for c in case["calls"]}))


if __name__ == "__main__":
    sys.exit(core.main(C10()))
