"""C10 — face re-indexing and side/edge/corner addressing."""

from __future__ import annotations

import random
import sys
import traceback
from fractions import Fraction
from typing import Any, List, Optional

from .. import core

# the blockMesh hexahedron convention, stated independently of the repository's tables
BM_SIDE = {
    "bottom": {0, 1, 2, 3},
    "top": {4, 5, 6, 7},
    "left": {0, 3, 4, 7},
    "right": {1, 2, 5, 6},
    "front": {0, 1, 4, 5},
    "back": {2, 3, 6, 7},
}
BM_EDGES = [{a, b} for a in range(8) for b in range(a + 1, 8) if bin(
    ((a % 4 in (1, 2)) ^ (b % 4 in (1, 2))) + ((a % 4 in (2, 3)) ^ (b % 4 in (2, 3))) + ((a >= 4) ^ (b >= 4))
) == "0b1"]


def _quad(rng: random.Random, kind: str = "general") -> List[List[Fraction]]:
    """A quadrilateral in general position: a jittered, sheared unit square, coordinates in 1/8 steps,
    corners at pairwise different distances from any of its corners (no ties).
    kind "reflex": planar with one reflex (concave) corner; kind "tiny": the same shapes a few millimetres
    large (coordinates are metres), strongly warped."""
    while True:
        base = [(0, 0), (8, 0), (8, 8), (0, 8)]
        pts = []
        for x, y in base:
            pts.append(
                [Fraction(x + rng.randint(-2, 2), 8), Fraction(y + rng.randint(-2, 2), 8), Fraction(rng.randint(-3, 3), 8)]
            )
        if kind == "reflex":
            k = rng.randrange(4)
            for p in pts:
                p[2] = Fraction(0)
            # pull one corner inside, beyond the diagonal of its neighbours
            opp = pts[(k + 2) % 4]
            t = Fraction(rng.randint(5, 6), 8)
            pts[k] = [pts[k][i] + t * (opp[i] - pts[k][i]) for i in range(2)] + [Fraction(0)]
        if kind == "tiny":
            sc = Fraction(1, 2 ** rng.randint(7, 9))
            pts = [[c * sc for c in p] for p in pts]
            if all(p[2] == pts[0][2] for p in pts):
                continue
        a = rng.choice([0, 1, 2])
        pts = [[p[(i + a) % 3] for i in range(3)] for p in pts]  # lie in any coordinate plane
        off = [Fraction(rng.randint(-16, 16), 8) * (Fraction(1, 256) if kind == "tiny" else 1) for _ in range(3)]
        pts = [[c + o for c, o in zip(p, off)] for p in pts]
        d = lambda p, q: sum((a - b) ** 2 for a, b in zip(p, q))
        if all(len({d(p, q) for q in pts}) == 4 for p in pts):
            return pts


def _slot_pair(slot: str):
    """corner numbers of the block edge addressed by add_edge on the bottom (b) / top (t) face or add_side_edge (s)"""
    i = int(slot[1])
    return {"b": (i, (i + 1) % 4), "t": (i + 4, (i + 1) % 4 + 4), "s": (i, i + 4)}[slot[0]]


# a cyclic corner order for every side (only the cycle matters: its sense is fixed geometrically by the oracle)
BM_CYCLE = {
    "bottom": (0, 1, 2, 3),
    "top": (4, 5, 6, 7),
    "left": (0, 4, 7, 3),
    "right": (1, 2, 6, 5),
    "front": (0, 1, 5, 4),
    "back": (3, 2, 6, 7),
}


def _oracle_cosines(pts, viewer):
    """cosine between the outward normal of every side (Newell normal of the side's corner cycle, turned away from the
    block centre) and the direction from the side's centre to the viewer; None when something is degenerate"""
    import numpy as np

    P = np.array([[float(c) for c in p] for p in pts])
    v = np.array([float(c) for c in viewer])
    bc = P.mean(axis=0)
    out = {}
    for side, cyc in BM_CYCLE.items():
        q = P[list(cyc)]
        fc = q.mean(axis=0)
        nrm = sum(np.cross(q[i] - fc, q[(i + 1) % 4] - fc) for i in range(4))
        if np.dot(nrm, fc - bc) < 0:
            nrm = -nrm
        d = v - fc
        if np.linalg.norm(nrm) < 1e-9 or np.linalg.norm(d) < 1e-9:
            return None
        out[side] = float(np.dot(nrm, d) / np.linalg.norm(nrm) / np.linalg.norm(d))
    return out


def _read_patch_quads(text: str):
    """patch name -> quads (vertex numbers) of the `boundary` section of a written blockMeshDict"""
    import re

    m = re.search(r"^boundary\s*\n\(\n(.*?)\n\);", text, flags=re.MULTILINE | re.DOTALL)
    if m is None:
        return ["<no boundary section>"]
    out = []
    for pm in re.finditer(r"^\t(\w+)\n\t\{(.*?)\n\t\}", m.group(1), flags=re.MULTILINE | re.DOTALL):
        for quad in re.findall(r"\(\s*(\d+)\s+(\d+)\s+(\d+)\s+(\d+)\s*\)", pm.group(2)):
            out.append(pm.group(1) + ":" + "-".join(quad))
    return sorted(out)


def _third_surface(calls):
    """the first block edge (corner pair, blockMesh convention) that the calls project to three different surfaces, or None;
    stops at the first call that is invalid for another reason"""
    lab = {}
    for c in calls:
        touched = []
        if c[0] == "pside":
            if c[1] not in BM_SIDE:
                return None
            if c[3]:
                touched = [(frozenset(e), c[2]) for e in BM_EDGES if e <= BM_SIDE[c[1]]]
        elif c[0] == "pedge":
            if {c[1], c[2]} not in BM_EDGES:
                return None
            touched = [(frozenset((c[1], c[2])), c[3])]
        elif c[0] == "redges":
            cs = range(4) if c[2] == "all" else [] if c[2] == "-" else [int(x) for x in c[2].split("+")]
            for k in cs:
                lab.pop(frozenset(_slot_pair(("b" if c[1] == "bottom" else "t") + str(k))), None)
        elif c[0] == "sameproj":
            for slot in (c[1], c[2]):
                lab[frozenset(_slot_pair(slot))] = {c[3]}
        elif c[0] in ("sideedge", "faceedge"):
            i = c[1] if c[0] == "sideedge" else c[2]
            if not 0 <= i <= 3:
                return None
            lab[frozenset(_slot_pair(("s" if c[0] == "sideedge" else c[1][0]) + str(i)))] = {c[-1]}
        elif c[0] == "patch" and c[1] not in BM_SIDE:
            return None
        elif c[0] == "patchL" and any(x not in BM_SIDE for x in c[1].split("+") if c[1] != "-"):
            return None
        elif c[0] in ("pcorner", "pcornerL") and not 0 <= c[1] < 8:
            return None
        for e, l in touched:
            lab.setdefault(e, set()).add(l)
            if len(lab[e]) > 2:
                return e
    return None


def _fr(x) -> str:
    return core.rat(Fraction(x))


class C10(core.Check):
    pid = "C10"
    props_module = "CBV.Props.C10"
    rule = (
        "face cases: random quadrilateral in general position (rational coordinates) with four distinct edge data, "
        "random sequence (1..6) of invert / shift k (k in -8..8) / reorient near a chosen corner; addressing cases: "
        "random sequence (1..6) of set_patch / project_side / project_edge / project_corner over all 6 sides, all 64 "
        "corner pairs and 9 corner numbers (invalid ones included), the list form of set_patch (any selection and order of "
        "sides), remove_edges (no argument / empty list / corner list) and one edge datum put on two edges by corner "
        "numbers, observed on the assembled mesh; face quads are general (2/3), planar with a reflex corner, or "
        "millimetre-sized and warped, and the direction of Face.normal is compared with the model's exact vector. Addressing cases run on a "
        "Loft, Box, Extrude, Revolve or Wedge (default patches, inner/outer patch, Angle data on the four vertical edges), with "
        "add_side_edge / Face.add_edge by corner number and corner numbers -1..8. Geometric cases: affine images of the unit cube "
        "(dyadic matrices, |det| >= 4, 15 % inside-out, half with jittered corners) with get_face for all sides, centres, normals and "
        "get_closest_side / get_closest_face / get_normal_face queries (margin between best and second best); Box from two arbitrary "
        "corners, Extrude by a vector or a scalar, Connector between laterally displaced boxes (choice of faces only). Thorough tier also "
        "enumerates all single calls exhaustively. Non-trivial = at least one call that changes the object; distinct = "
        "different call sequence or geometry."
    )
    partial_note = (
        "Theorems: face re-indexing for all faces / counts / distances, addressing on all sides, corner pairs and corners, the "
        "tables against the hexahedron and each other, outward normals for every affine image of the cube, first-minimum / "
        "first-maximum choice of get_closest_side / get_normal_face. Not theorems: float rounding of norms and cosines (the "
        "generator keeps a margin), python's deque.rotate for counts other than the 35 executed ones (the model equals the table "
        "function at count mod 4 for every count), rotations / scalar extrusions whose cosine, sine or normal length is irrational "
        "(theorems hold through witnesses, correspondence only on rational instances), Connector's alignment measure (oracle on the "
        "choice of faces only; T_C10_alignment_max bounds the measure), which corner of a Connector becomes which (C18), "
        "outward normals of the (non-planar) lateral sides of revolved blocks (corner Jacobians are proved positive in every frame: "
        "T_C10_revolve_right_handed_frame)."
    )
    assumptions = [
        "the face/operation model mirrors python list semantics (deque.rotate, list.reverse, stable sort) — validated by correspondence",
        "ties in distance (two corners equally close) are excluded by the generator, as the property's 'general position'",
    ]

    # ------------------------------------------------------------------ generators
    def gen_cases(self, rng: random.Random, tier: str) -> List[dict]:
        n = 150 if tier == "quick" else 2500
        cases: List[dict] = []
        for _ in range(n):
            qkind = rng.choice(["general"] * 4 + ["reflex", "tiny"])
            pts = _quad(rng, qkind)
            size = Fraction(1, 256) if qkind == "tiny" else Fraction(1)
            ops = []
            for _ in range(rng.randint(1, 6)):
                r = rng.random()
                if r < 0.3:
                    ops.append(["invert"])
                elif r < 0.6:
                    ops.append(["shift", rng.randint(-8, 8)])
                else:
                    j = rng.randrange(4)
                    if rng.random() < 0.25:
                        # a reference position very far away (relative tolerances must not decide the closest corner)
                        while True:
                            far = [Fraction(rng.randint(-9, 9) * 2 ** rng.randint(14, 22)) for _ in range(3)]
                            q = [c + f for c, f in zip(pts[j], far)]
                            d = sorted(sum((a - b) ** 2 for a, b in zip(p, q)) for p in pts)
                            if d[0] > 0 and all((d[k + 1] - d[k]) > d[k] * Fraction(1, 10**9) for k in range(3)):
                                break
                        ops.append(["reorient", j, [str(c) for c in q]])
                    else:
                        jit = [Fraction(rng.randint(-1, 1), 32) * size for _ in range(3)]
                        ops.append(["reorient", j, [str(c + e) for c, e in zip(pts[j], jit)]])
            cases.append({"kind": "face", "quad": qkind, "points": [[str(c) for c in p] for p in pts], "ops": ops})
        sides = list(BM_SIDE) + ["middle"]
        for _ in range(n):
            calls = []
            base = rng.choice(["loft"] * 5 + ["box", "extrude", "revolve", "revolve", "wedge", "wedge"])
            for _ in range(rng.randint(1, 6)):
                r = rng.random()
                lab = rng.choice(["g1", "g2"] * 4 + ["g3"])  # a third surface: an edge takes at most two
                if base == "wedge" and r < 0.12:
                    calls.append(["wedgepatch", rng.choice(["set_inner_patch", "set_outer_patch"]), rng.choice(["pa", "pb", "pc"])])
                elif r < 0.04:
                    # add_side_edge / Face.add_edge by corner number (rarely just outside 0..3)
                    i = rng.choice([-1, 4]) if rng.random() < 0.08 else rng.randrange(4)
                    if rng.random() < 0.5:
                        calls.append(["sideedge", i, lab])
                    else:
                        calls.append(["faceedge", rng.choice(["bottom", "top"]), i, lab])
                elif r < 0.3:
                    calls.append(["patch", rng.choice(sides if rng.random() < 0.1 else sides[:6]), rng.choice(["pa", "pb", "pc"])])
                elif r < 0.55:
                    calls.append(["pside", rng.choice(sides[:6]), lab, int(rng.random() < 0.4), int(rng.random() < 0.4)])
                elif r < 0.8:
                    if rng.random() < 0.8:
                        a, b = sorted(rng.choice(BM_EDGES))
                        if rng.random() < 0.5:
                            a, b = b, a
                    else:
                        a, b = rng.randrange(-1, 9), rng.randrange(-1, 9)
                    calls.append(["pedge", a, b, lab])
                elif r < 0.88:
                    calls.append(["pcorner", rng.randrange(-1, 9) if rng.random() < 0.1 else rng.randrange(8), lab])
                elif r < 0.93:
                    # the same list object handed to several project_corner calls
                    calls.append(["pcornerL", rng.randrange(8), rng.choice(["L1", "L2"]), None])
                elif r < 0.96:
                    calls.append(["nface", rng.randrange(6)])
                    if rng.random() < 0.7:
                        calls.append(["nface", rng.randrange(6)])
                elif r < 0.98:
                    # the list form of set_patch: any selection of sides in any order (rarely empty, rarely an invalid name)
                    k = rng.choice([0, 1, 2, 2, 3, 3, 4, 6])
                    sel = rng.sample(sides[:6], k)
                    if rng.random() < 0.05:
                        sel.insert(rng.randrange(len(sel) + 1), "middle")
                    calls.append(["patchL", "+".join(sel) or "-", rng.choice(["pa", "pb", "pc"])])
                else:
                    # remove_edges on the bottom/top face: no argument, an empty list, or a list of corners
                    r2 = rng.random()
                    cs = "all" if r2 < 0.2 else "-" if r2 < 0.45 else "+".join(map(str, rng.sample(range(4), rng.randint(1, 3))))
                    calls.append(["redges", rng.choice(["bottom", "top"]), cs])
            if rng.random() < 0.3:
                if rng.random() < 0.5:
                    sel = rng.sample(sides[:6], rng.choice([2, 2, 3, 3, 4, 6]))
                    extra = ["patchL", "+".join(sel), rng.choice(["pa", "pb", "pc"])]
                else:
                    r2 = rng.random()
                    cs = "all" if r2 < 0.2 else "-" if r2 < 0.5 else "+".join(map(str, rng.sample(range(4), rng.randint(1, 3))))
                    extra = ["redges", rng.choice(["bottom", "top"]), cs]
                calls.insert(rng.randint((len(calls) + 1) // 2, len(calls)), extra)
            if rng.random() < 0.12:
                # one edge-data object put on two different edges by corner numbers (last, so that no later
                # projection writes into the shared object)
                s1, s2 = rng.sample([f + str(i) for f in "bts" for i in range(4)], 2)
                calls.append(["sameproj", s1, s2, rng.choice(["g1", "g2"])])
                if rng.random() < 0.5:
                    calls.append(["patch", rng.choice(sides[:6]), "pa"])
            # a shared list always carries the label it was created with
            first = {}
            for c in calls:
                if c[0] == "pcornerL":
                    c[3] = first.setdefault(c[2], rng.choice(["g1", "g2"]))
            case = {"kind": "addr", "base": base, "calls": calls}
            if rng.random() < 0.35:
                hist = []
                for _ in range(rng.choice([1, 1, 2])):
                    if rng.random() < 0.6:
                        hist.append(["backport", rng.randrange(8) if rng.random() < 0.5 else None])
                    else:
                        hist.append(["clear"])
                case["history"] = hist
            cases.append(case)
        # three surfaces on one edge, reached by different routes (project_edge from either end, project_side with edges of
        # one of the two sides through the edge, add_edge / add_side_edge with a Project): refused at the third *different*
        # one, accepted when a label repeats or the datum was replaced in between
        for _ in range(14 if tier == "quick" else 200):
            a, b = sorted(rng.choice(BM_EDGES))
            through = [sd for sd, q in BM_SIDE.items() if {a, b} <= q]
            labs = rng.sample(["g1", "g2", "g3"], 3)
            if rng.random() < 0.35:
                labs[rng.randrange(1, 3)] = labs[0]  # only two different surfaces
            calls = []
            for lab_ in labs:
                r = rng.random()
                if r < 0.5:
                    calls.append(["pedge", *rng.choice([(a, b), (b, a)]), lab_])
                else:
                    calls.append(["pside", rng.choice(through), lab_, 1, int(rng.random() < 0.3)])
                if rng.random() < 0.15:
                    calls.append(["patch", rng.choice(sides[:6]), "pa"])
            if rng.random() < 0.2:
                # the datum is replaced before the third label arrives
                slot = next((f + str(i) for f in "bts" for i in range(4) if set(_slot_pair(f + str(i))) == {a, b}))
                calls.insert(len(calls) - 1, ["sideedge", int(slot[1]), "g1"] if slot[0] == "s" else ["faceedge", {"b": "bottom", "t": "top"}[slot[0]], int(slot[1]), "g1"])
            cases.append({"kind": "addr", "base": rng.choice(["loft", "box", "revolve"]), "calls": calls})
        cases += self._geo_cases(rng, n // 3 if tier == "quick" else n // 4)
        if tier == "thorough":
            for base in ("box", "extrude", "revolve", "wedge"):
                for a, b in (sorted(e) for e in BM_EDGES):
                    cases.append({"kind": "addr", "base": base, "calls": [["pedge", b, a, "g1"]]})
                for s in sides[:6]:
                    cases.append({"kind": "addr", "base": base, "calls": [["pside", s, "g1", 1, 1], ["patch", s, "pa"]]})
                for i in range(-1, 5):
                    cases.append({"kind": "addr", "base": base, "calls": [["sideedge", i, "g1"]]})
                    cases.append({"kind": "addr", "base": base, "calls": [["faceedge", "top", i, "g1"]]})
            for c in (-2, -1):
                cases.append({"kind": "addr", "calls": [["pcorner", c, "g1"]]})
            for base in ("loft", "box", "extrude", "revolve", "wedge"):
                for s in sides[:6]:
                    for hist in ([["backport", None]], [["backport", 3]], [["clear"]], [["clear"], ["backport", 6]]):
                        cases.append({"kind": "addr", "base": base, "calls": [["patch", s, "pa"], ["pside", s, "g1", 1, 1]], "history": hist})
            for s in sides:
                cases.append({"kind": "addr", "calls": [["patch", s, "pa"]]})
                for e in (0, 1):
                    for p in (0, 1):
                        cases.append({"kind": "addr", "calls": [["pside", s, "g1", e, p]]})
            for a in range(8):
                for b in range(8):
                    cases.append({"kind": "addr", "calls": [["pedge", a, b, "g1"]]})
            for c in range(9):
                cases.append({"kind": "addr", "calls": [["pcorner", c, "g1"]]})
            import itertools

            for k in (1, 2, 3):
                for sel in itertools.permutations(sides[:6], k):
                    cases.append({"kind": "addr", "calls": [["patchL", "+".join(sel), "pa"]]})
            slots = [f + str(i) for f in "bts" for i in range(4)]
            for s1, s2 in itertools.combinations(slots, 2):
                cases.append({"kind": "addr", "calls": [["sameproj", s1, s2, "g1"]]})
            for face in ("bottom", "top"):
                for k in range(5):
                    for cs in itertools.combinations(range(4), k):
                        cases.append({"kind": "addr", "calls": [["pside", face, "g1", 1, 0], ["redges", face, "+".join(map(str, cs)) or "-"]]})
            for k in range(-9, 10):
                cases.append({"kind": "face", "points": [[str(c) for c in p] for p in _quad(rng)], "ops": [["shift", k]]})
        return cases


    # ------------------------------------------------------------------ geometric cases (faces by side name on real points)
    def _geo_cases(self, rng: random.Random, n: int) -> List[dict]:
        """hexahedra = affine images of the unit cube (small dyadic matrices, mostly right-handed), half of them with
        jittered corners; queries with a margin between the best and the second best candidate"""
        out: List[dict] = []
        F = Fraction
        while len(out) < n:
            cols = [[F(rng.randint(-6, 6), 4) for _ in range(3)] for _ in range(3)]
            for k in range(3):
                cols[k][k] += F(rng.choice([2, 3]))
            det = (
                cols[0][0] * (cols[1][1] * cols[2][2] - cols[1][2] * cols[2][1])
                - cols[0][1] * (cols[1][0] * cols[2][2] - cols[1][2] * cols[2][0])
                + cols[0][2] * (cols[1][0] * cols[2][1] - cols[1][1] * cols[2][0])
            )
            if abs(det) < 4:
                continue
            if rng.random() < 0.15:
                cols[0], cols[1] = cols[1], cols[0]  # an inside-out block
                det = -det
            t = [F(rng.randint(-16, 16), 4) for _ in range(3)]
            jitter = rng.random() < 0.5
            pts = []
            for c in range(8):
                x, y, z = int(c % 4 in (1, 2)), int(c % 4 in (2, 3)), int(c >= 4)
                p = [t[i] + x * cols[0][i] + y * cols[1][i] + z * cols[2][i] for i in range(3)]
                if jitter:
                    p = [v + F(rng.randint(-2, 2), 16) for v in p]
                pts.append(p)
            centre = [sum(p[i] for p in pts) / 8 for i in range(3)]
            fcs = {s: [sum(pts[c][i] for c in q) / 4 for i in range(3)] for s, q in BM_SIDE.items()}
            queries: List[list] = [["center"]] + [["face", s] for s in BM_SIDE]
            s0 = rng.choice(list(BM_SIDE))
            queries += [["fcenter", s0], ["fnormal", s0]]
            tries = 0
            while len(queries) < 15 and tries < 200:
                tries += 1
                q = [centre[i] + F(rng.randint(-40, 40), 8) for i in range(3)]
                if rng.random() < 0.4:
                    # near one face centre: the interesting region for get_closest_side
                    s1 = rng.choice(list(BM_SIDE))
                    q = [fcs[s1][i] + F(rng.randint(-6, 6), 8) for i in range(3)]
                d = sorted(sum((a - b) ** 2 for a, b in zip(q, fc)) for fc in fcs.values())
                if d[1] - d[0] < F(1, 64):
                    continue
                kind = rng.choice(["closest", "closest", "closestface", "nface", "nface"])
                if kind == "nface":
                    cs = _oracle_cosines(pts, q)
                    if cs is None:
                        continue
                    v = sorted(cs.values())
                    if v[-1] - v[-2] < 1e-3:
                        continue
                queries.append([kind, [str(c) for c in q]])
            out.append({"kind": "geo", "det": str(det), "jitter": jitter, "points": [[str(c) for c in p] for p in pts], "queries": queries})
        for _ in range(max(4, n // 4)):
            p = [F(rng.randint(-16, 16), 8) for _ in range(3)]
            q = [a + F(rng.choice([-1, 1]) * rng.randint(1, 16), 8) for a in p]
            out.append({"kind": "box", "p": [str(c) for c in p], "q": [str(c) for c in q]})
        for _ in range(max(4, n // 4)):
            base = _quad(rng)
            if rng.random() < 0.6:
                amount: Any = [str(F(rng.randint(-8, 8), 8)) for _ in range(2)] + [str(F(rng.choice([-1, 1]) * rng.randint(2, 12), 8))]
            else:
                amount = str(F(rng.choice([-1, 1]) * rng.randint(2, 12), 8))
            out.append({"kind": "extrude", "points": [[str(c) for c in p] for p in base], "amount": amount})
        for _ in range(max(4, n // 6)):
            # a scalar amount on a quad lying in a coordinate plane: the raw normal has a rational length, so the model can follow
            plane = rng.randrange(3)
            q2 = [[F(x + rng.randint(-2, 2), 8), F(y + rng.randint(-2, 2), 8)] for x, y in ((0, 0), (8, 0), (8, 8), (0, 8))]
            if rng.random() < 0.5:
                q2.reverse()
            h = F(rng.randint(-8, 8), 8)
            base = [[*pt[:plane], h, *pt[plane:]] for pt in q2]
            tot = [sum(pt[i] for pt in base) for i in range(3)]
            sv = [[4 * pt[i] - tot[i] for i in range(3)] for pt in base]
            cr = lambda a, b: [a[1] * b[2] - a[2] * b[1], a[2] * b[0] - a[0] * b[2], a[0] * b[1] - a[1] * b[0]]
            nr = [sum(cr(sv[i], sv[(i + 1) % 4])[k] for i in range(4)) for k in range(3)]
            assert [k for k in range(3) if nr[k] != 0] == [plane]
            out.append({"kind": "extrude", "points": [[str(c) for c in pt] for pt in base], "amount": str(F(rng.choice([-1, 1]) * rng.randint(2, 12), 8)), "len": str(abs(nr[plane]))})
        units = [[F(1), F(0), F(0)], [F(0), F(1), F(0)], [F(0), F(0), F(1)], [F(3, 5), F(4, 5), F(0)], [F(0), F(-3, 5), F(4, 5)], [F(2, 3), F(1, 3), F(2, 3)], [F(-6, 7), F(2, 7), F(3, 7)]]
        for _ in range(max(6, n // 4)):
            # Revolve by the angle 2·atan(t) (rational cosine and sine) about an axis of rational length through any origin
            t = F(rng.choice([-1, 1]) * rng.randint(1, 24), 16)
            k = rng.choice([F(1), F(2), F(1, 2), F(3)])
            u = rng.choice(units)
            out.append(
                {
                    "kind": "revolvegeo",
                    "points": [[str(c) for c in pt] for pt in _quad(rng)],
                    "cos": str((1 - t * t) / (1 + t * t)),
                    "sin": str(2 * t / (1 + t * t)),
                    "axis": [str(k * c) for c in u],
                    "len": str(k),
                    "origin": [str(F(rng.randint(-16, 16), 8)) for _ in range(3)],
                }
            )
        for _ in range(max(4, n // 6)):
            # Wedge of a face in the xy-plane away from the x-axis, by the angle 4·atan(t)
            t = F(rng.randint(1, 12), 64)
            face = [[F(x + rng.randint(-2, 2), 8), F(y + rng.randint(-2, 2), 8), F(0)] for x, y in ((0, 8), (8, 8), (8, 16), (0, 16))]
            out.append({"kind": "wedgegeo", "points": [[str(c) for c in pt] for pt in face], "cos2": str((1 - t * t) / (1 + t * t)), "sin2": str(2 * t / (1 + t * t))})
        for _ in range(max(3, n // 6)):
            # two boxes, the second displaced mainly along one axis: a Connector between them
            # (not along axis 2 of the first box: there the viewpoint and the ceiling Connector hands to ViewpointReorienter
            # are parallel, a configuration its documentation excludes)
            ax = rng.randrange(2)
            sign = rng.choice([-1, 1])
            shift = [F(rng.randint(-2, 2), 8) for _ in range(3)]
            shift[ax] = sign * F(rng.randint(20, 32), 8)
            size2 = [F(rng.randint(6, 10), 8) for _ in range(3)]
            out.append({"kind": "connector", "axis": ax, "sign": sign, "shift": [str(c) for c in shift], "size2": [str(c) for c in size2]})
        return out

    # ------------------------------------------------------------------ implementation
    def run_impl(self, case: dict) -> Any:
        import numpy as np

        import classy_blocks as cb

        if case["kind"] == "face":
            pts = [[float(Fraction(c)) for c in p] for p in case["points"]]
            data = [cb.Arc([9.0 + i, 9.0, 9.0]) for i in range(4)]
            face = cb.Face(pts, list(data))
            pid = {id(p): i for i, p in enumerate(face.points)}
            eid = {id(e): i for i, e in enumerate(data)}
            trace = []
            n0 = [float(x) for x in face.normal]
            for op in case["ops"]:
                n_before = face.normal
                if op[0] == "invert":
                    face.invert()
                elif op[0] == "shift":
                    face.shift(op[1])
                else:
                    face.reorient([float(Fraction(c)) for c in op[2]])
                trace.append(
                    {
                        "pts": [pid.get(id(p), -1) for p in face.points],
                        "edges": [eid.get(id(e), -1) for e in face.edges],
                        "ndot": float(np.dot(n_before, face.normal)),
                        "pos": [[float(x) for x in p.position] for p in face.points],
                    }
                )
            return {"trace": trace, "n0": n0}

        if case["kind"] in ("geo", "box", "extrude", "connector", "revolvegeo", "wedgegeo"):
            return self._run_geo(case)

        # addressing, observed on the assembled mesh
        hexa = [[0, 0, 0], [1, 0, 0], [1.1, 1, 0], [0, 1.2, 0], [0, 0, 1], [1, 0, 1.3], [1, 1, 1], [0, 1.1, 1.1]]
        base = case.get("base", "loft")
        quad = [[0, 1, 0], [1, 1, 0], [1.1, 2, 0], [0, 2.2, 0]]  # in the xy-plane, away from the x-axis
        if base == "loft":
            op = cb.Loft(cb.Face(hexa[:4]), cb.Face(hexa[4:]))
        elif base == "box":
            op = cb.Box([1, 1.2, 0], [0, 0, 1.1])
        elif base == "extrude":
            op = cb.Extrude(cb.Face(hexa[:4]), [0.1, 0.2, 1.0])
        elif base == "revolve":
            op = cb.Revolve(cb.Face(quad), 0.5, [1, 0, 0], [0, 0, 0])
        else:
            op = cb.Wedge(cb.Face(quad), 0.2)
        hexa = [[float(x) for x in p.position] for p in op.points]
        shared = {}
        facing = []
        viewers = [[3, 0.4, 0.5], [-2, 0.5, 0.4], [0.5, 3, 0.5], [0.4, -2, 0.6], [0.5, 0.6, 3], [0.6, 0.4, -2]]
        try:
            for c in case["calls"]:
                if c[0] == "pcornerL":
                    op.project_corner(c[1], shared.setdefault(c[2], [c[3]]))
                elif c[0] == "nface":
                    nf = op.get_normal_face(viewers[c[1]])
                    cs = frozenset(min(range(8), key=lambda k: float(np.linalg.norm(np.array(hexa[k]) - p.position))) for p in nf.points)
                    facing.append([c[1], next((sd for sd, q in BM_SIDE.items() if q == set(cs)), "none:" + "-".join(map(str, sorted(cs))))])
                elif c[0] == "patch":
                    op.set_patch(c[1], c[2])
                elif c[0] == "patchL":
                    op.set_patch([] if c[1] == "-" else c[1].split("+"), c[2])
                elif c[0] == "redges":
                    face = op.bottom_face if c[1] == "bottom" else op.top_face
                    if c[2] == "all":
                        face.remove_edges()
                    else:
                        face.remove_edges([] if c[2] == "-" else [int(x) for x in c[2].split("+")])
                elif c[0] == "sameproj":
                    from classy_blocks.construct.edges import Project

                    datum = Project(c[3])
                    for slot in (c[1], c[2]):
                        i = int(slot[1])
                        if slot[0] == "b":
                            op.bottom_face.add_edge(i, datum)
                        elif slot[0] == "t":
                            op.top_face.add_edge(i, datum)
                        else:
                            op.add_side_edge(i, datum)
                elif c[0] == "wedgepatch":
                    getattr(op, c[1])(c[2])
                elif c[0] == "sideedge":
                    op.add_side_edge(c[1], cb.Project(c[2]))
                elif c[0] == "faceedge":
                    (op.bottom_face if c[1] == "bottom" else op.top_face).add_edge(c[2], cb.Project(c[3]))
                elif c[0] == "pside":
                    op.project_side(c[1], c[2], bool(c[3]), bool(c[4]))
                elif c[0] == "pedge":
                    op.project_edge(c[1], c[2], c[3])
                else:
                    op.project_corner(c[1], c[2])
        except Exception as e:  # rejected
            return {"reject": type(e).__name__}
        mesh = cb.Mesh()
        history = case.get("history", [])
        if history:
            for ax in range(3):
                if not op.chops[ax]:
                    op.chop(ax, count=2)
        mesh.add(op)
        mesh.assemble()
        # a history after the first assembly: backport() (what optimisers, smoothers and manual vertex edits end with,
        # here optionally after a small move of one vertex) or clear() + assemble(); the mesh is read afterwards
        for h in history:
            if h[0] == "backport":
                if h[1] is not None:
                    v = mesh.vertex_list.vertices[h[1]]
                    v.move_to(v.position + np.array([1e-3, -1e-3, 1e-3]))
                mesh.backport()
            else:
                mesh.clear()
                mesh.assemble()
        written = None
        if history:
            import os
            import tempfile

            fd, path = tempfile.mkstemp(suffix=".blockMeshDict")
            os.close(fd)
            try:
                mesh.write(path)
                written = _read_patch_quads(open(path).read())
            finally:
                os.unlink(path)
        assert [v.index for v in mesh.block_list.blocks[0].vertices] == list(range(8))
        pat = sorted(
            f"{name}:" + "-".join(str(v.index) for v in side.vertices)
            for name, p in mesh.patch_list.patches.items()
            for side in p.sides
        )
        fac = sorted(f"{f.label}:" + "-".join(str(v.index) for v in f.side.vertices) for f in mesh.face_list.faces)
        eds = sorted(
            (min(e.vertex_1.index, e.vertex_2.index), max(e.vertex_1.index, e.vertex_2.index), "+".join(e.data.label))
            for e in mesh.edge_list.edges
            if e.kind == "project"
        )
        cor = [(v.index, "+".join(v.projected_to)) for v in mesh.vertex_list.vertices if v.projected_to]
        oth = sorted(
            f"{min(e.vertex_1.index, e.vertex_2.index)}-{max(e.vertex_1.index, e.vertex_2.index)}:edges.{type(e.data).__name__}"
            for e in mesh.edge_list.edges
            if e.kind not in ("project", "line")
        )
        return {
            "X": oth,
            "P": pat,
            "F": fac,
            "E": [f"{a}-{b}:{l}" for a, b, l in eds],
            "C": [f"{i}:{l}" for i, l in cor],
            "n_edges": len(mesh.edge_list.edges),
            "K": ["+".join(sorted(op.get_patches_at_corner(c))) for c in range(8)],
            "G": [
                side + ":" + "-".join(str(min(range(8), key=lambda k: float(np.linalg.norm(np.array(hexa[k]) - p.position)))) for p in face.points)
                for side, face in ((s_, op.get_face(s_)) for s_ in ("bottom", "top", "left", "right", "front", "back"))
            ],
            "G_all": [
                side + ":" + "-".join(str(min(range(8), key=lambda k: float(np.linalg.norm(np.array(hexa[k]) - p.position)))) for p in face.points)
                for side, face in op.get_all_faces().items()
            ],
            "facing": facing,
            "shared_lists": {k: list(v) for k, v in shared.items()},
            "Pw": written,
        }


    def _run_geo(self, case: dict) -> Any:
        import numpy as np

        import classy_blocks as cb

        fl = lambda p: [float(Fraction(c)) for c in p]
        rp = lambda arr: [[core.rat(float(x)) for x in p] for p in arr]
        if case["kind"] == "box":
            op = cb.Box(fl(case["p"]), fl(case["q"]))
            return {"points": rp(op.point_array)}
        if case["kind"] == "extrude":
            am = case["amount"]
            amount = fl(am) if isinstance(am, list) else float(Fraction(am))
            base = cb.Face([fl(p) for p in case["points"]])
            n = [float(x) for x in base.normal]
            op = cb.Extrude(base, amount)
            return {"points": rp(op.point_array), "pf": [[float(x) for x in p] for p in op.point_array], "normal": n}
        if case["kind"] == "revolvegeo":
            import math

            angle = math.atan2(float(Fraction(case["sin"])), float(Fraction(case["cos"])))
            op = cb.Revolve(cb.Face([fl(p) for p in case["points"]]), angle, fl(case["axis"]), fl(case["origin"]))
            data = []
            for e in op.side_edges:
                ax = getattr(e, "axis", None)
                vec = getattr(ax, "position", ax)
                data.append([type(e).__name__, float(getattr(e, "angle", float("nan"))), [float(x) for x in vec] if vec is not None else [float("nan")] * 3])
            return {"pf": [[float(x) for x in p] for p in op.point_array], "angle": angle, "data": data}
        if case["kind"] == "wedgegeo":
            import math

            angle = 2 * math.atan2(float(Fraction(case["sin2"])), float(Fraction(case["cos2"])))
            op = cb.Wedge(cb.Face([fl(p) for p in case["points"]]), angle)
            return {"pf": [[float(x) for x in p] for p in op.point_array], "angle": angle}
        if case["kind"] == "connector":
            from classy_blocks.construct.operations.connector import Connector

            sh = fl(case["shift"])
            sz = fl(case["size2"])
            op1 = cb.Box([0, 0, 0], [1, 1, 1])
            op2 = cb.Box(sh, [a + b for a, b in zip(sh, sz)])
            try:
                con = Connector(op1, op2)
            except Exception as e:  # noqa: BLE001
                # ViewpointReorienter gives up on some of the lofts Connector hands it (IndexError in get_common_point,
                # DegenerateGeometryError): C18's subject, nothing to observe here about the choice of faces
                if "viewpoint.py" not in traceback.format_exc():
                    raise
                return {"skipped": type(e).__name__}
            return {
                "p1": [[float(x) for x in p] for p in op1.point_array],
                "p2": [[float(x) for x in p] for p in op2.point_array],
                "pc": [[float(x) for x in p] for p in con.point_array],
            }
        pts = [fl(p) for p in case["points"]]
        op = cb.Loft(cb.Face(pts[:4]), cb.Face(pts[4:]))
        res = []
        for q in case["queries"]:
            if q[0] == "center":
                res.append([float(x) for x in op.center])
            elif q[0] == "face":
                res.append(rp(op.get_face(q[1]).point_array))
            elif q[0] == "fcenter":
                res.append([float(x) for x in op.get_face(q[1]).center])
            elif q[0] == "fnormal":
                res.append([float(x) for x in op.get_face(q[1]).normal])
            elif q[0] == "closest":
                res.append(str(op.get_closest_side(fl(q[1]))))
            elif q[0] == "closestface":
                res.append(rp(op.get_closest_face(fl(q[1])).point_array))
            else:
                face = op.get_normal_face(fl(q[1]))
                res.append({"points": rp(face.point_array), "normal": [float(x) for x in face.normal], "center": [float(x) for x in face.center]})
        return {"res": res, "centre": [float(x) for x in op.center]}

    # ------------------------------------------------------------------ model
    def requests(self, case: dict, impl: Any) -> List[str]:
        if case["kind"] == "face":
            pts = " ".join(",".join(_fr(c) for c in p) for p in case["points"])
            reqs = []
            ops = []
            for op in case["ops"]:
                if op[0] == "invert":
                    ops.append("invert")
                elif op[0] == "shift":
                    ops.append(f"shift:{op[1]}")
                else:
                    ops.append("reorient:" + ",".join(_fr(c) for c in op[2]))
                reqs.append(f"c10.face {pts} " + ";".join(ops))
            reqs.append(f"c10.normal {pts}")
            return reqs
        if case["kind"] == "geo":
            pts = " ".join(",".join(_fr(c) for c in p) for p in case["points"])
            qs = ";".join(q[0] + (":" + (q[1] if isinstance(q[1], str) else ",".join(_fr(c) for c in q[1])) if len(q) > 1 else "") for q in case["queries"])
            return [f"c10.geo {pts} {qs}"]
        if case["kind"] == "box":
            return ["c10.box " + ",".join(_fr(c) for c in case["p"]) + " " + ",".join(_fr(c) for c in case["q"])]
        if case["kind"] == "revolvegeo":
            return ["c10.revolve " + " ".join(",".join(_fr(c) for c in p) for p in case["points"]) + f" {_fr(case['cos'])} {_fr(case['sin'])} "
                    + ",".join(_fr(c) for c in case["axis"]) + " " + _fr(case["len"]) + " " + ",".join(_fr(c) for c in case["origin"])]
        if case["kind"] == "wedgegeo":
            return ["c10.wedge " + " ".join(",".join(_fr(c) for c in p) for p in case["points"]) + f" {_fr(case['cos2'])} {_fr(case['sin2'])}"]
        if case["kind"] == "extrude" and case.get("len"):
            return ["c10.extrudes " + " ".join(",".join(_fr(c) for c in p) for p in case["points"]) + f" {_fr(case['amount'])} {_fr(case['len'])}"]
        if case["kind"] == "extrude":
            if not isinstance(case["amount"], list):
                return []
            return ["c10.extrude " + " ".join(",".join(_fr(c) for c in p) for p in case["points"]) + " " + ",".join(_fr(c) for c in case["amount"])]
        if case["kind"] == "connector":
            return []
        calls = [["base", case.get("base", "loft")]] + case["calls"] + [["reassemble", h[0]] for h in case.get("history", [])]
        return ["c10.addr " + ";".join(":".join(str(x) for x in c) for c in calls)]


    def compare(self, case: dict, impl: Any, model: List[str]) -> Optional[str]:
        if case["kind"] == "face":
            for step, ans in zip(impl["trace"], model):
                want = "[" + ",".join(map(str, step["pts"])) + "] [" + ",".join(map(str, step["edges"])) + "]"
                if ans != want:
                    return f"face after {case['ops']}: implementation {want}, model {ans}"
            # direction of the normal: the model's exact (unnormalised) vector against the implementation's unit vector
            raw = [float(Fraction(x)) for x in model[len(impl["trace"])].split()]
            length = sum(x * x for x in raw) ** 0.5
            if not length > 0:
                return f"model normal is zero for {case['points']}"
            cos = sum(a * b for a, b in zip(raw, impl["n0"])) / length
            if not cos > 1 - 1e-9:
                return f"Face.normal: implementation {impl['n0']}, model direction {[x / length for x in raw]}"
            return None
        if case["kind"] in ("geo", "box", "extrude", "connector", "revolvegeo", "wedgegeo"):
            return self._compare_geo(case, impl, model)
        ans = model[0]
        if "reject" in impl:
            return None if ans == "reject" else f"implementation rejects ({impl['reject']}), model answers {ans}"
        if ans == "reject":
            return "model rejects, implementation accepts"
        import re

        m = re.fullmatch(r"P\[(.*)\] F\[(.*)\] E\[(.*)\] C\[(.*)\] X\[(.*)\] K\[(.*)\] G\[(.*)\]", ans)
        if not m:
            return "unparsable model answer " + ans
        got = {k: sorted(x for x in m.group(i + 1).split(";") if x) for i, k in enumerate("PFECX")}
        if impl.get("Pw") is not None and sorted(impl["Pw"]) != got["P"]:
            return f"patch quads in the written file after {case.get('history')}: {impl['Pw']}, model {got['P']}"
        if got["X"] != sorted(impl["X"]):
            return f"side edges with other data: implementation {impl['X']}, model {got['X']}"
        for k in "PFE":
            if got[k] != sorted(impl[k]):
                return f"section {k}: implementation {impl[k]}, model {got[k]}"
        if got["C"] != sorted(impl["C"]):
            return f"corners: implementation {impl['C']}, model {got['C']}"
        k_model = ["+".join(sorted(x for x in part.split("+") if x)) for part in m.group(6).split(";")]
        if k_model != impl["K"]:
            return f"patches at corners: implementation {impl['K']}, model {k_model}"
        if m.group(7).split(";") != impl["G"]:
            return f"faces by side name: implementation {impl['G']}, model {m.group(7)}"
        if sorted(m.group(7).split(";")) != sorted(impl["G_all"]):
            return f"get_all_faces: implementation {impl['G_all']}, model {m.group(7)}"
        return None

    def _compare_geo(self, case: dict, impl: Any, model: List[str]) -> Optional[str]:
        def pts_of(txt):
            return [p.split(",") for p in txt.split("|")]

        def same_pts(a, b):
            return len(a) == len(b) and all(Fraction(x) == Fraction(y) for p, q in zip(a, b) for x, y in zip(p, q)) and all(len(p) == len(q) for p, q in zip(a, b))

        def close(vec, txt, tol=1e-9):
            w = [float(Fraction(x)) for x in txt.split(",")]
            return len(w) == len(vec) and all(abs(a - b) <= tol * max(1.0, abs(b)) for a, b in zip(vec, w))

        if case["kind"] == "connector":
            return None
        if case["kind"] == "extrude" and not model:
            return None
        if case["kind"] in ("revolvegeo", "wedgegeo") or (case["kind"] == "extrude" and case.get("len")):
            want = [[float(Fraction(x)) for x in p] for p in pts_of(model[0])]
            got = impl["pf"]
            if len(want) != 8 or any(abs(a - b) > 1e-9 for p, q in zip(got, want) for a, b in zip(p, q)):
                return f"{case['kind']} corners: implementation {got}, model {want}"
            return None
        if case["kind"] in ("box", "extrude"):
            if not same_pts(impl["points"], pts_of(model[0])):
                return f"{case['kind']} corners: implementation {impl['points']}, model {model[0]}"
            return None
        parts = model[0].split(";")
        if len(parts) != len(case["queries"]):
            return "model answered " + model[0]
        for q, r, a in zip(case["queries"], impl["res"], parts):
            if q[0] in ("center", "fcenter"):
                if not close(r, a):
                    return f"{q}: implementation {r}, model {a}"
            elif q[0] == "fnormal":
                raw = [float(Fraction(x)) for x in a.split(",")]
                ln = sum(x * x for x in raw) ** 0.5
                if not ln > 0 or sum(x * y for x, y in zip(raw, r)) / ln < 1 - 1e-9:
                    return f"{q}: implementation {r}, model direction {raw}"
            elif q[0] in ("face", "closestface"):
                if not same_pts(r, pts_of(a)):
                    return f"{q}: implementation {r}, model {a}"
            elif q[0] == "closest":
                if r != a:
                    return f"{q}: implementation {r}, model {a}"
            else:
                side, _, ptxt = a.partition("=")
                if not same_pts(r["points"], pts_of(ptxt)):
                    return f"{q}: implementation returns {r['points']}, model {a}"
        return None

    # ------------------------------------------------------------------ oracle (property stated on the implementation)
    def oracle(self, case: dict, impl: Any) -> List[dict]:
        out = []
        if case["kind"] == "face":
            pts = [[Fraction(c) for c in p] for p in case["points"]]
            conn0 = {i: frozenset((i, (i + 1) % 4)) for i in range(4)}
            for op, step in zip(case["ops"], impl["trace"]):
                if sorted(step["pts"]) != [0, 1, 2, 3] or sorted(step["edges"]) != [0, 1, 2, 3]:
                    out.append({"site": f"Face.{op[0]}:points-or-edges-lost", "what": f"{op} gives {step}"})
                    break
                for pos, e in enumerate(step["edges"]):
                    ends = frozenset((step["pts"][pos], step["pts"][(pos + 1) % 4]))
                    if ends != conn0[e]:
                        out.append(
                            {
                                "site": f"Face.{op[0]}:edge-between-other-points",
                                "what": f"after {op}: edge datum {e} sits between points {sorted(ends)}",
                                "observed": step,
                            }
                        )
                        break
                if op[0] == "invert" and not step["ndot"] < -0.999:
                    out.append({"site": "Face.invert:normal-not-flipped", "what": f"n.n' = {step['ndot']}"})
                if op[0] != "invert" and not step["ndot"] > 0.999:
                    out.append({"site": f"Face.{op[0]}:normal-changed", "what": f"n.n' = {step['ndot']}"})
                if op[0] == "reorient":
                    q = [Fraction(c) for c in op[2]]
                    d = [sum((a - b) ** 2 for a, b in zip(pts[i], q)) for i in range(4)]
                    if d[step["pts"][0]] != min(d):
                        out.append(
                            {
                                "site": "Face.reorient:first-point-not-closest",
                                "what": f"reorient near corner {op[1]}: first point is {step['pts'][0]}",
                                "observed": step["pts"],
                                "expected": d.index(min(d)),
                            }
                        )
            return out
        if case["kind"] in ("geo", "box", "extrude", "connector", "revolvegeo", "wedgegeo"):
            return self._oracle_geo(case, impl)
        base = case.get("base", "loft")
        overflow = _third_surface(case["calls"])
        if "reject" not in impl and overflow:
            out.append({"site": "Project.add_label:third-surface-accepted", "what": f"{case['calls']}: edge {sorted(overflow)} is projected to three surfaces"})
            return out
        if "reject" in impl:
            # a rejection is a violation only when every call was a valid one and no edge was given a third surface
            valid = overflow is None and all(
                (c[0] in ("patch", "pside") and c[1] in BM_SIDE)
                or (c[0] == "patchL" and all(x in BM_SIDE for x in c[1].split("+") if c[1] != "-"))
                or c[0] in ("redges", "sameproj")
                or (c[0] == "wedgepatch" and base == "wedge")
                or (c[0] == "sideedge" and 0 <= c[1] <= 3)
                or (c[0] == "faceedge" and 0 <= c[2] <= 3)
                or (c[0] == "pedge" and {c[1], c[2]} in BM_EDGES)
                or (c[0] in ("pcorner", "pcornerL") and 0 <= c[1] < 8)
                or c[0] == "nface"
                for c in case["calls"]
            )
            if valid:
                out.append({"site": "Operation.addressing:valid-call-rejected", "what": f"{case['calls']} -> {impl}"})
            return out
        # expected, from the blockMesh convention alone
        exp_p, exp_f, exp_e, exp_c = {}, {}, {}, {}
        # a Revolve / Wedge has its Angle data on the four edges from the base face to the revolved face
        exp_x = {frozenset((i, i + 4)) for i in range(4)} if base in ("revolve", "wedge") else set()
        if base == "wedge":
            # the revolved copies of the given face: "wedge_front" is the face at the positive angle (top), "wedge_back" the base
            exp_p["top"], exp_p["bottom"] = "wedge_front", "wedge_back"
        for c in case["calls"]:
            if c[0] == "wedgepatch":
                # inner = towards the axis (the face edge 0-1 and its revolved copy), outer = away from it
                exp_p[{"set_inner_patch": "front", "set_outer_patch": "back"}[c[1]]] = c[2]
            elif c[0] in ("sideedge", "faceedge"):
                i = c[1] if c[0] == "sideedge" else c[2]
                if not 0 <= i <= 3:
                    out.append({"site": f"{'Operation.add_side_edge' if c[0] == 'sideedge' else 'Face.add_edge'}:invalid-corner-accepted", "what": str(c)})
                    return out
                slot = ("s" if c[0] == "sideedge" else c[1][0]) + str(i)
                exp_e[frozenset(_slot_pair(slot))] = {c[-1]}
            elif c[0] == "patch":
                if c[1] not in BM_SIDE:
                    out.append({"site": "Operation.set_patch:invalid-side-accepted", "what": str(c)})
                    return out
                exp_p[c[1]] = c[2]
            elif c[0] == "pside":
                exp_f[c[1]] = c[2]
                if c[3]:
                    for e in BM_EDGES:
                        if e <= BM_SIDE[c[1]]:
                            exp_e.setdefault(frozenset(e), set()).add(c[2])
                if c[4]:
                    for k in BM_SIDE[c[1]]:
                        exp_c.setdefault(k, set()).add(c[2])
            elif c[0] == "pedge":
                if {c[1], c[2]} not in BM_EDGES:
                    out.append({"site": "Operation.project_edge:non-edge-accepted", "what": str(c)})
                    return out
                exp_e.setdefault(frozenset((c[1], c[2])), set()).add(c[3])
            elif c[0] == "nface":
                pass
            elif c[0] == "patchL":
                for x in [] if c[1] == "-" else c[1].split("+"):
                    if x not in BM_SIDE:
                        out.append({"site": "Operation.set_patch:invalid-side-accepted", "what": str(c)})
                        return out
                    exp_p[x] = c[2]
            elif c[0] == "redges":
                cs = range(4) if c[2] == "all" else [] if c[2] == "-" else [int(x) for x in c[2].split("+")]
                for k in cs:
                    exp_e.pop(frozenset(_slot_pair(("b" if c[1] == "bottom" else "t") + str(k))), None)
            elif c[0] == "sameproj":
                for slot in (c[1], c[2]):
                    exp_e[frozenset(_slot_pair(slot))] = {c[3]}
            else:
                if not 0 <= c[1] < 8:
                    out.append({"site": "Operation.project_corner:invalid-corner-accepted", "what": str(c)})
                    return out
                exp_c.setdefault(c[1], set()).add(c[3] if c[0] == "pcornerL" else c[2])
        got_p = {}
        for x in impl["P"]:
            name, quad = x.split(":")
            got_p[frozenset(map(int, quad.split("-")))] = name
        if got_p != {frozenset(BM_SIDE[s]): n for s, n in exp_p.items()}:
            out.append({"site": "Operation.set_patch:wrong-quad", "what": f"{case['calls']} -> {impl['P']}"})
        hist = case.get("history", [])
        if hist and got_p != {frozenset(BM_SIDE[s]): n for s, n in exp_p.items()}:
            out[-1]["site"] = "Operation.set_patch:wrong-quad:after-" + "+".join(h[0] for h in hist)
        if impl.get("Pw") is not None:
            got_w = {}
            for x in impl["Pw"]:
                name, _, quad = x.partition(":")
                got_w[frozenset(map(int, quad.split("-")))] = name if quad else x
            if got_w != {frozenset(BM_SIDE[s]): n for s, n in exp_p.items()}:
                out.append({"site": "Operation.set_patch:wrong-quad-in-written-file:after-" + "+".join(h[0] for h in hist), "what": f"{base} {case['calls']} history {hist} -> boundary section {impl['Pw']}"})
        got_f = {frozenset(map(int, x.split(":")[1].split("-"))): x.split(":")[0] for x in impl["F"]}
        if got_f != {frozenset(BM_SIDE[s]): n for s, n in exp_f.items()}:
            out.append({"site": "Operation.project_side:wrong-quad", "what": f"{case['calls']} -> {impl['F']}"})
        got_e = {frozenset(map(int, x.split(":")[0].split("-"))): set(x.split(":")[1].split("+")) for x in impl["E"]}
        if got_e != exp_e:
            out.append({"site": "Operation.project_edge:wrong-edge", "what": f"{base} {case['calls']} -> {impl['E']}"})
        got_x = {frozenset(map(int, x.split(":")[0].split("-"))) for x in impl["X"]}
        if got_x != exp_x - set(exp_e) or any(not x.endswith(":edges.Angle") for x in impl["X"]):
            out.append({"site": f"{base.capitalize()}.side-edges:not-on-the-four-vertical-edges", "what": f"{base} {case['calls']} -> {impl['X']}"})
        want_side = ["right", "left", "back", "front", "top", "bottom"]
        for k, side in impl["facing"]:
            if side != want_side[k]:
                out.append({"site": "Operation.get_normal_face:not-the-side-facing-the-viewer", "what": f"{case['calls']}: viewer {k} got {side}"})
                break
        for g in impl["G"] + impl["G_all"]:
            side, quad = g.split(":")
            if set(map(int, quad.split("-"))) != BM_SIDE[side] or len(set(quad.split("-"))) != 4:
                out.append({"site": "Operation.get_face:wrong-corners", "what": f"{case['calls']}: get_face({side}) has corners {quad}"})
                break
        for k, v in impl["shared_lists"].items():
            if len(v) != 1:
                out.append({"site": "Operation.project_corner:callers-list-modified", "what": f"{case['calls']}: list {k} is now {v}"})
        for c in range(8):
            want = sorted({n for s_, n in exp_p.items() if c in BM_SIDE[s_]})
            if sorted(x for x in impl["K"][c].split("+") if x) != want:
                out.append(
                    {
                        "site": "Operation.get_patches_at_corner:wrong-patches",
                        "what": f"{case['calls']}: corner {c} reports {impl['K'][c]!r}, the sides through it carry {want}",
                    }
                )
                break
        got_c = {int(x.split(":")[0]): set(x.split(":")[1].split("+")) for x in impl["C"]}
        if got_c != exp_c:
            out.append({"site": "Operation.project_corner:wrong-corner", "what": f"{case['calls']} -> {impl['C']}"})
        return out

    def _oracle_geo(self, case: dict, impl: Any) -> List[dict]:
        import numpy as np

        out: List[dict] = []
        F = Fraction
        if case["kind"] == "box":
            p, q = [F(c) for c in case["p"]], [F(c) for c in case["q"]]
            got = [[F(x) for x in pt] for pt in impl["points"]]
            for c in range(8):
                bits = (c % 4 in (1, 2), c % 4 in (2, 3), c >= 4)
                want = [max(p[i], q[i]) if bits[i] else min(p[i], q[i]) for i in range(3)]
                if got[c] != want:
                    out.append({"site": "Box.__init__:corner-not-in-blockMesh-order", "what": f"Box({case['p']}, {case['q']}): corner {c} is {got[c]}", "expected": [str(x) for x in want]})
                    break
            return out
        if case["kind"] in ("revolvegeo", "wedgegeo"):
            base = np.array([[float(F(c)) for c in pt] for pt in case["points"]])
            got = np.array(impl["pf"])

            def turn(p, ang, ax, org):
                ax = np.array(ax, dtype=float)
                u = ax / np.linalg.norm(ax)
                r = np.array(p) - np.array(org)
                return np.array(org) + np.cos(ang) * r + np.sin(ang) * np.cross(u, r) + (1 - np.cos(ang)) * np.dot(u, r) * u

            if case["kind"] == "revolvegeo":
                ax, org = [float(F(c)) for c in case["axis"]], [float(F(c)) for c in case["origin"]]
                for i in range(4):
                    if np.linalg.norm(got[i] - base[i]) > 1e-9 or np.linalg.norm(got[i + 4] - turn(base[i], impl["angle"], ax, org)) > 1e-9:
                        out.append({"site": "Revolve.__init__:top-face-is-not-the-base-turned-by-the-angle", "what": f"{case}: corner {i} {got[i].tolist()} -> {got[i + 4].tolist()}"})
                        break
                for i, (cls, ang, dax) in enumerate(impl["data"]):
                    # the datum on side edge i must describe the arc from corner i to corner i+4: turning corner i by the
                    # datum's angle about the datum's axis (through the revolve's origin) gives corner i+4
                    ok = cls == "Angle" and np.linalg.norm(turn(got[i], ang, dax, org) - got[i + 4]) < 1e-9
                    if not ok:
                        out.append({"site": "Revolve.side-edge-data:not-the-arc-between-its-two-corners", "what": f"{case}: side edge {i} holds {cls} angle {ang} axis {dax}"})
                        break
            else:
                half = impl["angle"] / 2
                for i in range(4):
                    lo, hi = turn(base[i], -half, [1, 0, 0], [0, 0, 0]), turn(base[i], half, [1, 0, 0], [0, 0, 0])
                    if np.linalg.norm(got[i] - lo) > 1e-9 or np.linalg.norm(got[i + 4] - hi) > 1e-9:
                        out.append({"site": "Wedge.__init__:not-symmetric-about-the-given-face", "what": f"{case}: corner {i} {got[i].tolist()}, corner {i + 4} {got[i + 4].tolist()}"})
                        break
            return out
        if case["kind"] == "extrude":
            base = np.array([[float(F(c)) for c in pt] for pt in case["points"]])
            am = case["amount"]
            if isinstance(am, list):
                vec = np.array([float(F(c)) for c in am])
            else:
                fc = base.mean(axis=0)
                nrm = sum(np.cross(base[i] - fc, base[(i + 1) % 4] - fc) for i in range(4))
                vec = nrm / np.linalg.norm(nrm) * float(F(am))
            got = np.array(impl["pf"])
            for i in range(4):
                if np.linalg.norm(got[i] - base[i]) > 1e-9 or np.linalg.norm(got[i + 4] - base[i] - vec) > 1e-9:
                    out.append({"site": "Extrude.__init__:corner-i+4-is-not-corner-i-displaced", "what": f"corner {i}: {got[i].tolist()} -> {got[i + 4].tolist()}, amount {am}"})
                    break
            return out
        if case["kind"] == "connector":
            if "skipped" in impl:
                return out
            p1, p2, pc = np.array(impl["p1"]), np.array(impl["p2"]), np.array(impl["pc"])
            ax, sign = case["axis"], case["sign"]
            # the face of the first box towards the second one, and the face of the second towards the first
            lim1 = p1[:, ax].max() if sign > 0 else p1[:, ax].min()
            lim2 = p2[:, ax].min() if sign > 0 else p2[:, ax].max()
            want = {tuple(np.round(x, 9)) for x in p1 if abs(x[ax] - lim1) < 1e-12} | {tuple(np.round(x, 9)) for x in p2 if abs(x[ax] - lim2) < 1e-12}
            # the choice of faces only: which corner becomes which is ViewpointReorienter's business (C18)
            if {tuple(np.round(x, 9)) for x in pc} != want or len(want) != 8:
                out.append({"site": "Connector.__init__:not-the-two-facing-sides", "what": f"{case}: connector corners {pc.tolist()}"})
            return out
        pts = [[F(c) for c in pt] for pt in case["points"]]
        key = lambda pt: tuple(F(x) for x in pt)
        index = {key(pt): i for i, pt in enumerate(pts)}
        fcs = {s_: [sum(pts[c][i] for c in q) / 4 for i in range(3)] for s_, q in BM_SIDE.items()}
        right_handed = F(case["det"]) > 0

        def side_of(points):
            cs = {index.get(key(pt), -1) for pt in points}
            return next((s_ for s_, q in BM_SIDE.items() if q == cs), "none:" + "-".join(map(str, sorted(cs))))

        for q, r in zip(case["queries"], impl["res"]):
            if q[0] in ("face", "closestface", "closest"):
                if q[0] == "face":
                    got, want = side_of(r), q[1]
                else:
                    v = [F(c) for c in q[1]]
                    d = {s_: sum((a - b) ** 2 for a, b in zip(v, fc)) for s_, fc in fcs.items()}
                    want = min(d, key=lambda k: d[k])
                    got = r if q[0] == "closest" else side_of(r)
                if got != want:
                    site = {"face": "Operation.get_face:wrong-corners", "closest": "Operation.get_closest_side:not-the-closest", "closestface": "Operation.get_closest_face:not-the-closest"}[q[0]]
                    out.append({"site": site, "what": f"{q} on {case['points']}: got {got}", "expected": want})
            elif q[0] == "nface" and right_handed:
                cs = _oracle_cosines(pts, [F(c) for c in q[1]])
                want = max(cs, key=lambda k: cs[k])
                got = side_of(r["points"])
                if got != want:
                    out.append({"site": "Operation.get_normal_face:not-the-side-facing-the-viewer", "what": f"viewer {q[1]} on {case['points']}: got {got}", "expected": want})
                elif np.dot(np.array(r["normal"]), np.array(r["center"]) - np.array(impl["centre"])) <= 0:
                    out.append({"site": "Operation.get_normal_face:returned-face-normal-points-inwards", "what": f"viewer {q[1]} on {case['points']}: {r}"})
        return out

    def nontrivial_key(self, case, impl):
        import json

        if case["kind"] == "addr" and isinstance(impl, dict) and "reject" in impl:
            return "reject:" + json.dumps(case["calls"])
        return json.dumps(case, sort_keys=True)

    def classify(self, case, impl):
        if case["kind"] == "face":
            return "face:" + "+".join(sorted({o[0] for o in case["ops"]}))
        if case["kind"] == "geo":
            return "geo:" + ("jittered" if case["jitter"] else "affine") + (":inside-out" if case["det"].startswith("-") else "")
        if case["kind"] in ("box", "extrude", "connector", "revolvegeo", "wedgegeo"):
            return case["kind"] + (":scalar-rational-normal" if case["kind"] == "extrude" and case.get("len") else "")
        if "reject" in impl:
            return "addr:rejected:" + impl["reject"]
        b = case.get("base", "loft")
        if case.get("history"):
            b += ":" + "+".join(h[0] for h in case["history"])
        return "addr:" + ("" if b == "loft" else b + ":") + "+".join(sorted({c[0] for c in case["calls"]}))


if __name__ == "__main__":
    sys.exit(core.main(C10()))
