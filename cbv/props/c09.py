"""C09 — transforming or copying an entity equals transforming its output geometry.

Three independent views of one case (an entity specification, a list of transformations, method calls or a
transformation list, on the entity itself or on a copy):

* implementation: the real classy_blocks object is built, its part tree is walked (`.parts`, objects identified
  by `id()`), the transformations are applied, the tree is walked again;
* model (`CBV.Model.C09`): the same tree over a heap of cells (one per Point / AxisVector / Array row) is sent
  through the line protocol; the model performs the recursive delegation, the overrides and the point primitives
  in exact rational arithmetic and answers with the resolved tree; compared leaf by leaf (correspondence);
* oracle: the *output geometry* (corner points, arc third points, spline/polyLine point lists, curve samples,
  edge lengths, assembled vertex/edge counts) of the transformed entity is compared with the affine image of the
  output geometry of an untouched twin, the affine map being computed here from the transformation parameters
  alone (quaternion / Householder formulas over Fractions) — no model, no repository code involved.
"""

from __future__ import annotations

import json
import math
import os
import random
import sys
import warnings
from fractions import Fraction as Fr
from typing import Any, Dict, List, Optional, Tuple

from .. import core

# the implementation runs in a pool of forked workers on tiny matrices: BLAS/OpenMP threads only get in the way
for _v in ("OMP_NUM_THREADS", "OPENBLAS_NUM_THREADS", "MKL_NUM_THREADS"):
    os.environ.setdefault(_v, "1")

REL_TOL = 1e-8  # correspondence and oracle tolerance, relative to the size of the geometry
CURVE_TOL = 2e-5  # OnCurve edges: parameters come out of scipy.optimize.minimize


# =========================================================================== exact affine maps (oracle side)
def V(x) -> List[Fr]:
    return [Fr(c) for c in x]


def dot(a, b):
    return a[0] * b[0] + a[1] * b[1] + a[2] * b[2]


def cross(a, b):
    return [a[1] * b[2] - a[2] * b[1], a[2] * b[0] - a[0] * b[2], a[0] * b[1] - a[1] * b[0]]


def mat_vec(m, v):
    return [dot(r, v) for r in m]


def mat_mul(a, b):
    return [[sum(a[i][k] * b[k][j] for k in range(3)) for j in range(3)] for i in range(3)]


IDENT = [[Fr(int(i == j)) for j in range(3)] for i in range(3)]


def quat_matrix(w, a):
    """Rotation by theta = 2*atan2(|a|, w) about a (right-handed), exact: I + 2(w K + K^2)/(w^2+|a|^2)."""
    w = Fr(w)
    a = V(a)
    n = w * w + dot(a, a)
    k = [[Fr(0), -a[2], a[1]], [a[2], Fr(0), -a[0]], [-a[1], a[0], Fr(0)]]
    k2 = mat_mul(k, k)
    return [[IDENT[i][j] + 2 * (w * k[i][j] + k2[i][j]) / n for j in range(3)] for i in range(3)]


def quat_theta(w, a) -> float:
    a = V(a)
    return 2.0 * math.atan2(math.sqrt(float(dot(a, a))), float(Fr(w)))


def householder(n):
    n = V(n)
    nn = dot(n, n)
    return [[IDENT[i][j] - 2 * n[i] * n[j] / nn for j in range(3)] for i in range(3)]


class Aff:
    """x -> M x + t, with the similarity ratio and the sign of the determinant."""

    def __init__(self, m=None, t=None, ratio=Fr(1), det=1, dm=None):
        self.m = m or IDENT
        self.t = t or [Fr(0)] * 3
        self.ratio = ratio
        self.det = det
        # action on axis directions (unit axial vectors): the rotational part, reversed by every reflection
        self.dm = dm or IDENT

    def pt(self, p):
        q = mat_vec(self.m, V(p))
        return [q[i] + self.t[i] for i in range(3)]

    def lin(self, v):
        return mat_vec(self.m, V(v))

    def then(self, other: "Aff") -> "Aff":
        """self first, then other"""
        m = mat_mul(other.m, self.m)
        t = [a + b for a, b in zip(mat_vec(other.m, self.t), other.t)]
        return Aff(m, t, self.ratio * other.ratio, self.det * other.det, mat_mul(other.dm, self.dm))

    @staticmethod
    def about(m, origin, ratio=Fr(1), det=1) -> "Aff":
        o = V(origin)
        mo = mat_vec(m, o)
        # direction action: m / ratio, times the sign of the determinant
        dm = [[c / ratio * det for c in r] for r in m] if ratio > 0 else IDENT
        return Aff(m, [o[i] - mo[i] for i in range(3)], ratio, det, dm)

    def fdir(self, v):
        import numpy as np

        m = np.array([[float(c) for c in r] for r in self.dm])
        return m @ np.asarray(v, dtype=float)

    def fpt(self, p):
        import numpy as np

        m = np.array([[float(c) for c in r] for r in self.m])
        return m @ np.asarray(p, dtype=float) + np.array([float(c) for c in self.t])

    def flin(self, v):
        import numpy as np

        m = np.array([[float(c) for c in r] for r in self.m])
        return m @ np.asarray(v, dtype=float)


def aff_of_step(step: dict, center) -> Aff:
    k = step["k"]
    if k == "T":
        return Aff(IDENT, V(step["d"]))
    o = step.get("o")
    if k == "R":
        return Aff.about(quat_matrix(step["w"], step["a"]), center if o is None else o)
    if k == "S":
        r = Fr(step["r"])
        m = [[IDENT[i][j] * r for j in range(3)] for i in range(3)]
        return Aff.about(m, center if o is None else o, abs(r), 1 if r > 0 else -1)
    if k == "M":
        return Aff.about(householder(step["n"]), [0, 0, 0] if o is None else o, Fr(1), -1)
    raise ValueError(k)


# =========================================================================== building entities from a specification
def F(x) -> float:
    return float(Fr(x))


def FV(x) -> List[float]:
    return [F(c) for c in x]


# point lists are handed to the library the way a user gets them from np.linspace / np.loadtxt: as float64 arrays
# the caller keeps; every array built for the entity under test is remembered here with a snapshot
CALLER_ARRAYS: List[Any] = []


def caller_array(pts):
    import numpy as np

    a = np.array(pts, dtype=np.float64)
    CALLER_ARRAYS.append((a, a.copy()))
    return a


def build_curve(s: dict):
    import classy_blocks as cb

    c = s["c"]
    if c == "line":
        return cb.LineCurve(FV(s["p1"]), FV(s["p2"]), tuple(FV(s.get("b", ["0", "1"]))))
    if c == "circle":
        b = s.get("b")
        bounds = (F(b[0]), F(b[1])) if b else (0, 2 * math.pi)
        return cb.CircleCurve(FV(s["o"]), FV(s["rim"]), FV(s["n"]), bounds)
    pts = caller_array([FV(p) for p in s["pts"]])
    if c == "discrete":
        return cb.DiscreteCurve(pts)
    if c == "linear":
        return cb.LinearInterpolatedCurve(pts)
    if c == "splinei":
        return cb.SplineInterpolatedCurve(pts)
    raise ValueError(c)


def build_edge(s: Optional[dict]):
    import classy_blocks as cb
    from classy_blocks.construct.edges import Line

    if s is None:
        return None
    k = s["k"]
    if k == "line":
        return Line()
    if k == "arc":
        return cb.Arc(FV(s["p"]))
    if k == "origin":
        return cb.Origin(FV(s["o"]), F(s.get("flat", "1")))
    if k == "angle":
        return cb.Angle(F(s["th"]), FV(s["ax"]))
    if k == "spline":
        return cb.Spline(caller_array([FV(p) for p in s["pts"]]))
    if k == "polyline":
        return cb.PolyLine(caller_array([FV(p) for p in s["pts"]]))
    if k == "project":
        return cb.Project(list(s["l"]))
    if k == "curve":
        return cb.OnCurve(build_curve(s["c"]), int(s.get("n", 6)), s.get("repr", "spline"))
    raise ValueError(k)


def build_face(s: dict):
    import classy_blocks as cb

    return cb.Face([FV(p) for p in s["pts"]], [build_edge(e) for e in s.get("edges", [None] * 4)])


def _arg(a):
    """JSON argument of a constructor: fraction string, list of them, nested entity spec, int"""
    if isinstance(a, dict):
        return build(a)
    if isinstance(a, list):
        return [_arg(x) for x in a]
    if isinstance(a, str):
        return F(a)
    return a


def build_step_objects(steps: List[dict]):
    import classy_blocks as cb
    import numpy as np

    out = []
    for s in steps:
        o = None if s.get("o") is None else np.array(FV(s["o"]))
        if s["k"] == "T":
            out.append(cb.Translation(np.array(FV(s["d"]))))
        elif s["k"] == "R":
            out.append(cb.Rotation(np.array(FV(s["a"])), quat_theta(s["w"], s["a"]), o))
        elif s["k"] == "S":
            out.append(cb.Scaling(F(s["r"]), o))
        else:
            out.append(cb.Mirror(np.array(FV(s["n"])), o))
    return out


def np_v(x):
    import numpy as np

    return np.array([F(c) for c in x])


def make_group(ops):
    """A user-side collection of operations (what one adds to a Mesh one by one), transformed as a whole."""
    import numpy as np
    from classy_blocks.base.element import ElementBase

    class Group(ElementBase):
        def __init__(self, operations):
            self.operations = operations

        @property
        def parts(self):
            return self.operations

        @property
        def center(self):
            return np.average([o.center for o in self.operations], axis=0)

    return Group(ops)


def build(s: dict):
    import classy_blocks as cb
    from classy_blocks.construct.array import Array
    from classy_blocks.construct.assemblies.joints import CuspCylinder
    from classy_blocks.construct.flat.sketches.annulus import Annulus
    from classy_blocks.construct.flat.sketches.disk import QuarterDisk
    from classy_blocks.construct.point import Point
    from classy_blocks.construct.shapes.sphere import EighthSphere

    t = s["t"]
    if t == "point":
        return Point(FV(s["p"]))
    if t == "array":
        return Array(caller_array([FV(p) for p in s["pts"]]))
    if t == "sharedspline":
        # two lofts side by side whose common vertical edge is a spline described ONCE, by one array
        fr = [np_v(x) for x in s["frame"]]
        pts = caller_array([FV(p) for p in s["pts"]])

        def box(x0):
            def P(x, y, z):
                return list(fr[0] + x * fr[1] + y * fr[2] + z * fr[3])

            return cb.Loft(
                cb.Face([P(x0, 0, 0), P(x0 + 1, 0, 0), P(x0 + 1, 1, 0), P(x0, 1, 0)]),
                cb.Face([P(x0, 0, 1), P(x0 + 1, 0, 1), P(x0 + 1, 1, 1), P(x0, 1, 1)]),
            )

        left, right = box(0), box(1)
        left.add_side_edge(1, (cb.PolyLine if s.get("poly") else cb.Spline)(pts))
        right.add_side_edge(0, (cb.PolyLine if s.get("poly") else cb.Spline)(pts))
        return make_group([left, right])
    if t == "edge":
        return build_edge(s["e"])
    if t == "curve":
        return build_curve(s)
    if t == "face":
        return build_face(s)
    if t == "loft":
        op = cb.Loft(build_face(s["bottom"]), build_face(s["top"]))
        for i, e in enumerate(s.get("sides", [None] * 4)):
            if e is not None:
                op.add_side_edge(i, build_edge(e))
        return op
    if t == "extrude":
        amount = s["amount"]
        return cb.Extrude(build_face(s["base"]), F(amount) if isinstance(amount, str) else FV(amount))
    if t == "revolve":
        return cb.Revolve(build_face(s["base"]), quat_theta(s["w"], s["ax"]), FV(s["ax"]), FV(s["o"]))
    if t == "wedge":
        return cb.Wedge(build_face(s["base"]), F(s["th"]))
    if t == "box":
        return cb.Box(FV(s["p1"]), FV(s["p2"]))
    if t == "assembly":
        from classy_blocks.construct.assemblies.assembly import Assembly

        class PlainAssembly(Assembly):  # the base class as it is: parts and center are inherited
            pass

        return PlainAssembly([build(x) for x in s["shapes"]])
    if t in ("sketch", "shape", "asm"):
        classes = {
            "Grid": cb.Grid,
            "OneCoreDisk": cb.OneCoreDisk,
            "FourCoreDisk": cb.FourCoreDisk,
            "HalfDisk": cb.HalfDisk,
            "QuarterDisk": QuarterDisk,
            "WrappedDisk": cb.WrappedDisk,
            "Oval": cb.Oval,
            "Annulus": Annulus,
            "MappedSketch": cb.MappedSketch,
            "SplineDisk": cb.SplineDisk,
            "SplineRing": cb.SplineRing,
            "Cylinder": cb.Cylinder,
            "SemiCylinder": cb.SemiCylinder,
            "Frustum": cb.Frustum,
            "Elbow": cb.Elbow,
            "ExtrudedRing": cb.ExtrudedRing,
            "RevolvedRing": cb.RevolvedRing,
            "Hemisphere": cb.Hemisphere,
            "EighthSphere": EighthSphere,
            "ExtrudedShape": cb.ExtrudedShape,
            "RevolvedShape": cb.RevolvedShape,
            "LoftedShape": cb.LoftedShape,
            "CuspCylinder": CuspCylinder,
            "TJoint": cb.TJoint,
            "LJoint": cb.LJoint,
            "NJoint": cb.NJoint,
        }
        args = [_arg(a) for a in s["args"]]
        if s["cls"] == "Grid":
            args[2:] = [int(a) for a in args[2:]]
        if s["cls"] == "MappedSketch":
            args[1] = [[int(i) for i in q] for q in args[1]]
        if s["cls"] in ("Annulus",) and len(args) > 4:
            args[4] = int(args[4])
        if s["cls"] in ("RevolvedRing",) and len(args) > 3:
            args[3] = int(args[3])
        if s["cls"] in ("ExtrudedRing",) and len(args) > 4:
            args[4] = int(args[4])
        if s["cls"] == "NJoint" and len(args) > 3:
            args[3] = int(args[3])
        return classes[s["cls"]](*args)
    if t == "stack":
        base = build(s["base"])
        if s["cls"] == "ExtrudedStack":
            return cb.ExtrudedStack(base, FV(s["amount"]), int(s["repeats"]))
        if s["cls"] == "RevolvedStack":
            return cb.RevolvedStack(base, quat_theta(s["w"], s["ax"]), FV(s["ax"]), FV(s["o"]), int(s["repeats"]))
        if s["cls"] == "TransformedStack":
            mid = s.get("mid")
            return cb.TransformedStack(
                base, build_step_objects(s["end"]), int(s["repeats"]), None if mid is None else build_step_objects(mid)
            )
    raise ValueError(t)


# =========================================================================== walking the part tree of a real object
def kind_of(e) -> str:
    """The model's node kind of an implementation object (only classes with behaviour of their own matter)."""
    import classy_blocks as cb
    from classy_blocks.construct import edges as ed
    from classy_blocks.construct.assemblies.assembly import Assembly
    from classy_blocks.construct.assemblies.joints import JointBase
    from classy_blocks.construct.curves.interpolated import InterpolatedCurveBase
    from classy_blocks.construct.flat.sketch import Sketch
    from classy_blocks.construct.flat.sketches.annulus import Annulus
    from classy_blocks.construct.flat.sketches.disk import DiskBase, WrappedDisk
    from classy_blocks.construct.flat.sketches.spline_round import SplineRound
    from classy_blocks.construct.shapes.sphere import EighthSphere
    from classy_blocks.construct.stack import Stack

    if isinstance(e, cb.Operation):
        return "op"
    if isinstance(e, cb.Face):
        return "face"
    if isinstance(e, ed.Angle):
        return "angle"
    if isinstance(e, ed.Spline):
        return "spline"
    if isinstance(e, ed.OnCurve):
        return "oncurve"
    if isinstance(e, ed.EdgeData):
        return "edge"
    if isinstance(e, cb.CircleCurve):
        return "circle"
    if isinstance(e, cb.LineCurve):
        return "lcurve"
    if isinstance(e, cb.DiscreteCurve):
        return "dcurve"
    if isinstance(e, InterpolatedCurveBase):
        return "icurve"
    if isinstance(e, Sketch):
        if isinstance(e, cb.Grid):
            return "grid"
        if isinstance(e, (WrappedDisk, cb.OneCoreDisk)):
            return "face0"
        if isinstance(e, cb.Oval):
            return "oval"
        if isinstance(e, DiskBase):
            return "firstpt"
        if type(e) in (cb.MappedSketch, Annulus):
            return "sketchavg"
        if isinstance(e, SplineRound) and _defining_class(e, "center") == "SplineRound" and _defining_class(e, "parts") == "Sketch":
            return "facept3"
        if isinstance(e, SplineRound) and _defining_class(e, "center") == "QuarterSplineRing" and _defining_class(e, "parts") == "QuarterSplineRing":
            return "ringc"
        return "other"
    if isinstance(e, EighthSphere):
        return "sphere"
    if isinstance(e, cb.Shape):
        return "shape"
    if isinstance(e, Stack):
        return "stack"
    if isinstance(e, JointBase):
        return "joint"
    if isinstance(e, Assembly):
        return "asm"
    if type(e).__name__ == "Group":  # the harness' own collection of operations: centre = average of theirs
        return "shape"
    return "other"


class Walk:
    """Assigns cells to the leaf objects of a part tree in first-visit order and produces the tree in post-order."""

    def __init__(self):
        self.buffers: Dict[int, int] = {}  # address of an Array's buffer -> first cell
        self.shared_buffers = 0
        self.cell_of: Dict[int, int] = {}  # id(object) -> first cell
        self.keep: List[Any] = []  # keeps the objects alive so that id() stays unique
        self.n_cells = 0
        self.visits: Dict[int, int] = {}

    def _cell(self, obj, n: int) -> int:
        k = id(obj)
        self.visits[k] = self.visits.get(k, 0) + 1
        if k not in self.cell_of:
            self.cell_of[k] = self.n_cells
            self.n_cells += n
            self.keep.append(obj)
        return self.cell_of[k]

    def tokens(self, e, values: bool) -> List[Any]:
        """Post-order token list.  values=False: ("P", cell) …; values=True: ("P", cell, [x,y,z]) …"""
        from classy_blocks.construct.array import Array
        from classy_blocks.construct.point import Point, Vector

        out: List[Any] = []

        def rec(x):
            if isinstance(x, Vector):
                c = self._cell(x, 1)
                out.append(("D", c, [float(v) for v in x.position]) if values else ("D", c))
            elif isinstance(x, Point):
                c = self._cell(x, 1)
                out.append(("P", c, [float(v) for v in x.position]) if values else ("P", c))
            elif isinstance(x, Array):
                n = len(x.points)
                addr = x.points.__array_interface__["data"][0]
                if id(x) not in self.cell_of and addr in self.buffers:
                    # a second Array object on the same memory: the same cells (it will be moved twice)
                    self.cell_of[id(x)] = self.buffers[addr]
                    self.keep.append(x)
                    self.shared_buffers += 1
                c = self._cell(x, n)
                self.buffers.setdefault(addr, c)
                rows = [[float(v) for v in r] for r in x.points]
                out.append(("A", c, rows) if values else ("A", c, n))
            else:
                k = kind_of(x)
                # InterpolatedCurveBase.parts invalidates the cached interpolation function: observe the flag
                # first and put it back afterwards, looking at the object must not change it
                valid = getattr(getattr(x, "function", None), "_valid", None) if k == "icurve" else None
                parts = list(x.parts)
                if valid is not None:
                    x.function._valid = valid
                for p in parts:
                    rec(p)
                attr = float(x.angle) if k == "angle" else (1.0 if valid else 0.0) if k == "icurve" else 0.0
                out.append(("N", k, attr, len(parts)))

        rec(e)
        return out

    def aliased(self) -> int:
        return sum(1 for v in self.visits.values() if v > 1) + self.shared_buffers


def heap_of(tokens_with_values, n_cells: int) -> List[Optional[List[float]]]:
    heap: List[Optional[List[float]]] = [None] * n_cells
    for t in tokens_with_values:
        if t[0] in ("P", "D"):
            heap[t[1]] = t[2]
        elif t[0] == "A":
            for i, r in enumerate(t[2]):
                heap[t[1] + i] = r
    return heap


def _defining_class(obj, name: str) -> str:
    """the class of the object's MRO whose own body defines the property `name` (the code that runs)"""
    for c in type(obj).__mro__:
        if name in c.__dict__:
            return "Shape" if c.__name__ == "Group" else c.__name__  # the harness' Group is a Shape by construction
    return "?"


def schema_tokens(e) -> List[str]:
    """Post-order tokens of the real part tree for the schema check of the model (`c09.wf`): leaves as in the run
    request (cell numbers do not matter), nodes with the class whose `parts` runs and the class whose `center` runs."""
    from classy_blocks.construct.array import Array
    from classy_blocks.construct.point import Point, Vector

    out: List[str] = []

    def rec(x):
        if isinstance(x, Vector):
            out.append("D0")
        elif isinstance(x, Point):
            out.append("P0")
        elif isinstance(x, Array):
            out.append("A" + ";".join("0" for _ in range(len(x.points))))
        else:
            k = kind_of(x)
            valid = getattr(getattr(x, "function", None), "_valid", None) if k == "icurve" else None
            parts = list(x.parts)
            if valid is not None:
                x.function._valid = valid
            for p in parts:
                rec(p)
            out.append(f"N:{k}:0/1:{len(parts)}:{_defining_class(x, 'parts')}:{_defining_class(x, 'center')}")

    rec(e)
    return out


# =========================================================================== output geometry of a real object
def _edge_geom(p1, p2, data) -> dict:
    """What a block edge from p1 to p2 with this edge data looks like (the item classes of the library compute it)."""
    import numpy as np
    from classy_blocks.items.edges.factory import factory
    from classy_blocks.items.vertex import Vertex

    g: Dict[str, Any] = {"kind": data.kind, "ends": [list(map(float, p1)), list(map(float, p2))]}
    try:
        edge = factory.create(Vertex(p1, 0), Vertex(p2, 1), data)
        if data.kind in ("arc", "origin", "angle"):
            g["third"] = [float(c) for c in edge.third_point.position]
            g["length"] = float(edge.length)
            g["valid"] = bool(edge.is_valid)
        elif data.kind in ("spline", "polyLine", "curve"):
            g["pts"] = [[float(c) for c in p] for p in np.asarray(edge.point_array)]
            g["length"] = float(edge.length)
            g["repr"] = edge.representation
        elif data.kind == "project":
            g["label"] = list(data.label)
    except Exception as e:  # an edge the library cannot evaluate: reported, compared as such
        g["error"] = type(e).__name__
    return g


def _face_unit(face) -> dict:
    pts = [[float(c) for c in p.position] for p in face.points]
    edges = [_edge_geom(face.points[i].position, face.points[(i + 1) % 4].position, face.edges[i]) for i in range(4)]
    return {"u": "face", "pts": pts, "edges": edges, "center": [float(c) for c in face.center]}


def _op_unit(op) -> dict:
    pts = [[float(c) for c in p] for p in op.point_array]
    edges = []
    for face in (op.bottom_face, op.top_face):
        for i in range(4):
            edges.append(_edge_geom(face.points[i].position, face.points[(i + 1) % 4].position, face.edges[i]))
    for i in range(4):
        edges.append(_edge_geom(op.bottom_face.points[i].position, op.top_face.points[i].position, op.side_edges[i]))
    return {"u": "op", "pts": pts, "edges": edges, "center": [float(c) for c in op.center]}


def _curve_unit(curve) -> dict:
    lo, hi = float(curve.bounds[0]), float(curve.bounds[1])
    n = 7
    if kind_of(curve) == "dcurve":
        params = list(range(int(lo), int(hi) + 1))
    else:
        params = [lo + (hi - lo) * i / (n - 1) for i in range(n)]
    g: Dict[str, Any] = {"u": "curve", "params": params}
    try:
        g["pts"] = [[float(c) for c in curve.get_point(t)] for t in params]
        g["length"] = float(curve.length)
    except Exception as e:
        g["error"] = type(e).__name__
    return g


def geometry(e, assemble: bool = True) -> dict:
    """Output geometry of an entity: its units (faces / operations / curves) and, for anything a Mesh accepts,
    the number of vertices and edges after assembling."""
    import classy_blocks as cb
    from classy_blocks.construct.curves.curve import CurveBase
    from classy_blocks.construct.flat.sketch import Sketch

    units: List[dict] = []
    mesh_counts = None
    if isinstance(e, cb.Operation):
        units = [_op_unit(e)]
    elif isinstance(e, cb.Face):
        units = [_face_unit(e)]
    elif isinstance(e, Sketch):
        units = [_face_unit(f) for f in e.faces]
    elif isinstance(e, CurveBase):
        units = [_curve_unit(e)]
    elif hasattr(e, "operations"):
        units = [_op_unit(o) for o in e.operations]
    if assemble and (hasattr(e, "operations") or isinstance(e, cb.Operation)):
        try:
            mesh = cb.Mesh()
            mesh.add(e)
            mesh.assemble()
            mesh_counts = {
                "vertices": len(mesh.vertices),
                "edges": len(mesh.edge_list.edges),
                "positions": sorted([round(float(c), 6) + 0.0 for c in v.position] for v in mesh.vertices),
            }
        except Exception as ex:
            mesh_counts = {"error": type(ex).__name__}
    g: Dict[str, Any] = {"units": units, "mesh": mesh_counts}
    geo = getattr(e, "geometry", None)
    spheres = []
    import re as _re

    for owner in [e, *list(getattr(e, "shapes", []) or [])]:
        og = getattr(owner, "geometry", None)
        for props in (og or {}).values():
            text = " ".join(props)
            c = _re.search(r"centre \(([^)]*)\)", text)
            r = _re.search(r"radius ([-+0-9.eE]+)", text)
            if "searchableSphere" in text and c and r:
                spheres.append({"centre": [float(x) for x in c.group(1).split()], "radius": float(r.group(1))})
    if spheres:
        g["spheres"] = spheres
    if geo:
        labels = set()
        for u in units:
            for ed in u.get("edges", []):
                labels.update(ed.get("label", []))
        g["geometry_keys"] = sorted(geo.keys())
        g["labels_used"] = sorted(labels)
        import re

        for props in geo.values():
            text = " ".join(props)
            c = re.search(r"centre \(([^)]*)\)", text)
            r = re.search(r"radius ([-+0-9.eE]+)", text)
            if "searchableSphere" in text and c and r:
                g["sphere"] = {"centre": [float(x) for x in c.group(1).split()], "radius": float(r.group(1))}
    return g


def _points_of(e, seen=None) -> List[Any]:
    """all Point objects (not axis vectors) reachable through .parts, each once"""
    from classy_blocks.construct.array import Array
    from classy_blocks.construct.point import Point, Vector

    seen = {} if seen is None else seen

    def rec(x):
        if isinstance(x, Vector) or isinstance(x, Array):
            return
        if isinstance(x, Point):
            seen.setdefault(id(x), x)
            return
        k = kind_of(x)
        valid = getattr(getattr(x, "function", None), "_valid", None) if k == "icurve" else None
        parts = list(x.parts)
        if valid is not None:
            x.function._valid = valid
        for p in parts:
            rec(p)

    rec(e)
    return list(seen.values())


def _arrays_of(e) -> List[Any]:
    """all Array objects reachable through .parts, each once (in first-visit order)"""
    from classy_blocks.construct.array import Array
    from classy_blocks.construct.point import Point

    seen: Dict[int, Any] = {}

    def rec(x):
        if isinstance(x, Array):
            seen.setdefault(id(x), x)
            return
        if isinstance(x, Point):
            return
        k = kind_of(x)
        valid = getattr(getattr(x, "function", None), "_valid", None) if k == "icurve" else None
        parts = list(x.parts)
        if valid is not None:
            x.function._valid = valid
        for p in parts:
            rec(p)

    rec(e)
    return list(seen.values())


def projection_probe(target, other) -> List[dict]:
    """Independence of the projections: projecting ONE point (of the entity, of its copy) to a probe label must put
    that label on this point only — not on another point of the entity (Extrude's top face is a copy of its base),
    not on a point of the copy / the original.  Run last: it changes projected_to."""
    pts = _points_of(target)
    n_target = len(pts)
    if other is not None:
        pts = pts + [p for p in _points_of(other) if id(p) not in {id(q) for q in pts}]
    leaks = []
    stride = max(1, len(pts) // 24)
    for i in range(0, len(pts), stride):
        label = f"c09probe{i}"
        pts[i].project(label)
        for j, q in enumerate(pts):
            if j != i and label in q.projected_to:
                leaks.append(
                    {
                        "projected": ("entity" if i < n_target else "other") + f" point {i}",
                        "also_on": ("entity" if j < n_target else "other") + f" point {j}",
                        "across_copy": (i < n_target) != (j < n_target),
                    }
                )
                break
        if len(leaks) >= 3:
            break
    return leaks


# =========================================================================== applying the steps to a real object
def apply_steps(e, steps: List[dict], mode: str, times: int = 1):
    """Applies the steps (`times` times; a list is then the SAME list object applied again); returns the centre
    observed before each call, the names of caller-owned arguments that were modified by the library, and the steps
    with aliased arguments resolved to the values they had at the time of the call.

    A step may name one of the entity's own points instead of giving a value (`alias_d` for a displacement,
    `alias_o` for an origin): the argument then IS the position array of that point."""
    import numpy as np

    centers: List[Optional[List[float]]] = []
    mutated: List[str] = []
    own_points = _points_of(e)
    own_arrays = _arrays_of(e)

    def alias(idx):
        if not own_points:  # an entity without Point parts (a bare point-list curve): nothing of its own to alias
            return np.array([1.0, -2.0, 0.5])
        return own_points[idx % len(own_points)].position

    def alias_row(idx):
        """a numpy VIEW of one row of one of the entity's own point arrays (what `array[i]`, `curve.get_point(i)` of a
        DiscreteCurve and `curve.discretize()[i]` hand out); a row that is not (nearly) the zero vector"""
        rows = [(a, i) for a in own_arrays for i in range(len(a.points))]
        rows = [(a, i) for a, i in rows if float(np.linalg.norm(a.points[i])) > 1e-3]
        if not rows:
            return alias(idx)
        a, i = rows[idx % len(rows)]
        return a.points[i]

    def exact(arr) -> List[str]:
        return [str(Fr(float(c))) for c in arr]

    ALIAS_KEYS = ("d", "o", "a", "n")

    def aliased_arg(s0, key):
        """the array that IS the argument `key` of step s0 (None: the argument is an ordinary value)"""
        if f"alias_{key}" in s0:
            return alias(s0[f"alias_{key}"])
        if f"alias_row_{key}" in s0:
            return alias_row(s0[f"alias_row_{key}"])
        return None

    resolved = []
    for s in steps:
        r = {k: v for k, v in s.items() if not k.startswith("alias")}
        for key in ALIAS_KEYS:
            arr = aliased_arg(s, key)
            if arr is not None:
                r[key] = exact(arr)
        resolved.append(r)

    def observe_center():
        try:
            with warnings.catch_warnings():
                warnings.simplefilter("ignore")
                c = e.center
            c = np.asarray(c, dtype=float)
            return [float(x) for x in c] if c.shape == (3,) else None
        except Exception:
            return None

    def same(a, b) -> bool:
        if isinstance(a, np.ndarray) or isinstance(b, np.ndarray):
            return a is not None and b is not None and np.array_equal(a, b)
        return a is b or a == b

    if mode == "list":
        objs = build_step_objects(resolved)
        aliased = set()
        field = {"d": "displacement", "o": "origin", "a": "axis", "n": "normal"}
        for i, (s, o) in enumerate(zip(steps, objs)):
            for key in ALIAS_KEYS:
                arr = aliased_arg(s, key)
                if arr is not None:
                    setattr(o, field[key], arr)
                    aliased.add((i, field[key]))
        snap = [{k: (np.copy(v) if isinstance(v, np.ndarray) else v) for k, v in vars(o).items()} for o in objs]
        for _ in range(times):
            centers.append(observe_center())
            e.transform(objs)
        for i, (o, sn) in enumerate(zip(objs, snap)):
            for k, v in sn.items():
                if (i, k) not in aliased and not same(getattr(o, k), v):
                    mutated.append(f"step{i}.{k}" + (" (was None)" if v is None else ""))
        return centers, mutated, resolved * times
    for _ in range(times):
        for i, (s0, s) in enumerate(zip(steps, resolved)):
            centers.append(observe_center())
            ao = aliased_arg(s0, "o")
            o = None if s.get("o") is None else (ao if ao is not None else np.array(FV(s["o"])))
            o0 = None if o is None else np.copy(o)
            vec_key = {"T": "d", "R": "a", "M": "n"}.get(s["k"])
            av = aliased_arg(s0, vec_key) if vec_key else None
            if s["k"] == "T":
                a = av if av is not None else np.array(FV(s["d"]))
                a0 = np.copy(a)
                e.translate(a)
            elif s["k"] == "R":
                a = av if av is not None else np.array(FV(s["a"]))
                a0 = np.copy(a)
                if o is None:
                    e.rotate(quat_theta(s["w"], s["a"]), a)
                else:
                    e.rotate(quat_theta(s["w"], s["a"]), a, o)
            elif s["k"] == "S":
                a = a0 = np.zeros(1)
                if o is None:
                    e.scale(F(s["r"]))
                else:
                    e.scale(F(s["r"]), o)
            else:
                a = av if av is not None else np.array(FV(s["n"]))
                a0 = np.copy(a)
                if o is None:
                    e.mirror(a)
                else:
                    e.mirror(a, o)
            if av is None and not np.array_equal(a, a0):
                mutated.append(f"step{i}.vector")
            if o is not None and ao is None and not np.array_equal(o, o0):
                mutated.append(f"step{i}.origin")
    return centers, mutated, resolved * times


ZERO_CENTER_KINDS = ("edge", "angle")  # EdgeData.center is the constant (0,0,0), with a warning


# =========================================================================== protocol encoding
def enc_v(v) -> str:
    return ",".join(core.rat(c) for c in v)


def enc_step(s: dict, oracle_center) -> str:
    o = "-" if s.get("o") is None else enc_v(FV(s["o"]))
    oc = "" if oracle_center is None else "@" + enc_v(oracle_center)
    if s["k"] == "T":
        return "T:" + enc_v(FV(s["d"]))
    if s["k"] == "R":
        return f"R:{core.rat(Fr(s['w']))}:{enc_v(V(s['a']))}:{o}{oc}"
    if s["k"] == "S":
        return f"S:{core.rat(F(s['r']))}:{o}{oc}"
    return f"M:{enc_v(FV(s['n']))}:{o}{oc}"


def enc_tree(tokens) -> List[str]:
    out = []
    for t in tokens:
        if t[0] in ("P", "D"):
            out.append(f"{t[0]}{t[1]}")
        elif t[0] == "A":
            out.append("A" + ";".join(str(t[1] + i) for i in range(t[2])))
        else:
            out.append(f"N:{t[1]}:{core.rat(t[2])}:{t[3]}")
    return out


def dec_answer(ans: str):
    """`ok <tokens…>` -> list of (tag, …) with Fractions, or None"""
    if not ans.startswith("ok"):
        return None
    out = []
    for tok in ans.split()[1:]:
        if tok == "|":
            out.append(("|",))
        elif tok[0] in "PD":
            c, v = tok[1:].split("=")
            out.append((tok[0], int(c), [core.parse_rat(x) for x in v.split(",")]))
        elif tok[0] == "A":
            body = tok[2:]
            rows = [[core.parse_rat(x) for x in r.split(",")] for r in body.split(";")] if body else []
            out.append(("A", rows))
        else:
            _, k, a, n = tok.split(":")
            out.append(("N", k, core.parse_rat(a), int(n)))
    return out


def _close(a, b, scale, tol=REL_TOL) -> bool:
    return abs(float(a) - float(b)) <= tol * (1.0 + scale)


def compare_tokens(model, impl, scale: float) -> Optional[str]:
    if len(model) != len(impl):
        return f"tree sizes differ: model {len(model)} tokens, implementation {len(impl)}"
    for i, (m, t) in enumerate(zip(model, impl)):
        if m[0] != t[0]:
            return f"token {i}: model {m[0]}, implementation {t[0]}"
        if m[0] in ("P", "D"):
            if m[1] != t[1]:
                return f"token {i}: model cell {m[1]}, implementation object {t[1]}"
            if not all(_close(a, b, scale) for a, b in zip(m[2], t[2])):
                return f"token {i} ({m[0]}{m[1]}): model {[float(x) for x in m[2]]}, implementation {t[2]}"
        elif m[0] == "A":
            if len(m[1]) != len(t[2]):
                return f"token {i}: array lengths differ"
            for r, (a, b) in enumerate(zip(m[1], t[2])):
                if not all(_close(x, y, scale) for x, y in zip(a, b)):
                    return f"token {i} (array row {r}): model {[float(x) for x in a]}, implementation {b}"
        elif m[0] == "N":
            if m[1] != t[1] or m[3] != t[3]:
                return f"token {i}: model node {m[1]}/{m[3]}, implementation {t[1]}/{t[3]}"
            if not _close(m[2], t[2], 1.0, 1e-12):
                return f"token {i} ({m[1]}): model attribute {float(m[2])}, implementation {t[2]}"
    return None


# =========================================================================== oracle helpers
def _scale_of(units: List[dict]) -> float:
    s = 1.0
    for u in units:
        for p in u.get("pts", []):
            s = max(s, max(abs(c) for c in p))
    return s


def _near(p, q, tol) -> bool:
    return all(abs(a - b) <= tol for a, b in zip(p, q))


def compare_units(u0: dict, u1: dict, aff: Aff, where: str, labels: bool = True) -> List[dict]:
    """u1 must be the image of u0 under aff.  Corner points as a multiset, edges keyed by unordered end points."""
    out: List[dict] = []
    k = float(aff.ratio)
    if "error" in u0 or "error" in u1:
        if u0.get("error") != u1.get("error"):
            out.append({"site": f"{where}:evaluation-differs", "what": f"{u0.get('error')} vs {u1.get('error')}"})
        return out
    pts0 = [list(aff.fpt(p)) for p in u0["pts"]]
    scale = max(_scale_of([u1]), max((abs(c) for p in pts0 for c in p), default=1.0))
    tol = REL_TOL * (1 + scale)
    if u0["u"] == "curve":
        for t, p, q in zip(u0["params"], pts0, u1["pts"]):
            if not _near(p, q, 100 * tol):
                out.append({"site": f"{where}:point-on-curve", "what": f"param {t}", "observed": q, "expected": p})
                break
        if abs(u1["length"] - k * u0["length"]) > 1e-6 * (1 + k * u0["length"]):
            out.append(
                {"site": f"{where}:curve-length", "what": "length not scaled by the ratio", "observed": u1["length"], "expected": k * u0["length"]}
            )
        return out
    # corner points: same multiset
    rest = list(u1["pts"])
    for p in pts0:
        hit = next((q for q in rest if _near(p, q, tol)), None)
        if hit is None:
            out.append({"site": f"{where}:corner-points", "what": "corner point is not the image of an original corner", "expected": p, "observed": u1["pts"]})
            return out
        rest.remove(hit)
    c0 = list(aff.fpt(u0["center"]))
    if not _near(c0, u1["center"], tol):
        out.append({"site": f"{where}:center", "what": "centre is not carried along", "expected": c0, "observed": u1["center"]})
    # edges
    for e0 in u0["edges"]:
        a, b = (list(aff.fpt(p)) for p in e0["ends"])
        cand = [
            (e1, False) for e1 in u1["edges"] if _near(a, e1["ends"][0], tol) and _near(b, e1["ends"][1], tol)
        ] + [(e1, True) for e1 in u1["edges"] if _near(b, e1["ends"][0], tol) and _near(a, e1["ends"][1], tol)]
        # several edges may share end points only in degenerate blocks (wedges): take the one of the same kind
        cand = [c for c in cand if c[0]["kind"] == e0["kind"]] or cand
        if not cand:
            out.append({"site": f"{where}:edge-missing", "what": f"no edge between the images of {e0['ends']}"})
            continue
        e1, rev = cand[0]
        ek = e0["kind"]
        if e1["kind"] != ek:
            out.append({"site": f"{where}:edge-kind", "what": f"{ek} became {e1['kind']}"})
            continue
        if e0.get("error") or e1.get("error"):
            if e0.get("error") != e1.get("error"):
                out.append({"site": f"{where}:{ek}:evaluation-differs", "what": f"{e0.get('error')} vs {e1.get('error')}"})
            continue
        if ek in ("arc", "origin", "angle"):
            if e0["valid"] != e1["valid"]:
                out.append({"site": f"{where}:{ek}:validity", "what": f"is_valid {e0['valid']} became {e1['valid']}"})
                continue
            if not e0["valid"]:
                continue
            t0 = list(aff.fpt(e0["third"]))
            if not _near(t0, e1["third"], 10 * tol):
                out.append({"site": f"{where}:{ek}:arc-point", "what": "arc point is not the image of the original arc point", "expected": t0, "observed": e1["third"]})
            elif abs(e1["length"] - k * e0["length"]) > 1e-6 * (1 + k * e0["length"]):
                out.append({"site": f"{where}:{ek}:length", "what": "edge length not scaled by the ratio", "expected": k * e0["length"], "observed": e1["length"]})
        elif ek in ("spline", "polyLine", "curve"):
            p0 = [list(aff.fpt(p)) for p in e0["pts"]]
            if rev:
                p0.reverse()
            ctol = tol if ek != "curve" else CURVE_TOL * (1 + scale)
            if len(p0) != len(e1["pts"]) or not all(_near(p, q, ctol) for p, q in zip(p0, e1["pts"])):
                out.append({"site": f"{where}:{ek}:points", "what": "curve points are not the images of the original ones (in edge direction)", "expected": p0, "observed": e1["pts"]})
            elif ek == "curve" and rev:
                pass  # curve.get_length(t1, t2) with t1 > t2 is C16's business (not symmetric for interpolated curves)
            elif abs(e1["length"] - k * e0["length"]) > (1e-6 if ek != "curve" else 1e-3) * (1 + k * e0["length"]):
                out.append({"site": f"{where}:{ek}:length", "what": "edge length not scaled by the ratio", "expected": k * e0["length"], "observed": e1["length"]})
        elif ek == "project":
            if labels and e0["label"] != e1["label"]:
                out.append({"site": f"{where}:project:label", "what": f"{e0['label']} became {e1['label']}"})
    return out


# =========================================================================== case generators
FRAMES = [
    ([1, 0, 0], [0, 1, 0], [0, 0, 1], 1),
    ([1, 2, 2], [2, 1, -2], [2, -2, 1], 3),
    ([2, 3, 6], [3, -6, 2], [6, 2, -3], 7),
    ([1, 4, 8], [4, 7, -4], [8, -4, 1], 9),
    ([0, 0, 1], [1, 0, 0], [0, 1, 0], 1),
]


def rq(rng: random.Random, lo: int, hi: int, den: int = 4) -> Fr:
    return Fr(rng.randint(lo * den, hi * den), den)


def rvec(rng, lo=-3, hi=3, den=4) -> List[Fr]:
    return [rq(rng, lo, hi, den) for _ in range(3)]


def rnz_int_vec(rng, m=3) -> List[int]:
    while True:
        v = [rng.randint(-m, m) for _ in range(3)]
        if any(v):
            return v


def S(v) -> List[str]:
    return [str(Fr(c)) for c in v]


def add(a, b):
    return [x + y for x, y in zip(a, b)]


def sub(a, b):
    return [x - y for x, y in zip(a, b)]


def mul(k, a):
    return [k * x for x in a]


class Frame:
    """A rational orthonormal frame in general position: P(x,y,z) = O + x e1 + y e2 + z e3."""

    def __init__(self, rng: random.Random, aligned: bool = False):
        e1, e2, e3, n = FRAMES[0] if aligned else rng.choice(FRAMES)
        self.e = [[Fr(c, n) for c in e] for e in (e1, e2, e3)]
        self.o = [Fr(0)] * 3 if aligned else rvec(rng, -2, 2, 2)

    def P(self, x, y, z):
        p = self.o
        for c, e in zip((x, y, z), self.e):
            p = add(p, mul(Fr(c), e))
        return p

    def D(self, x, y, z):
        p = [Fr(0)] * 3
        for c, e in zip((x, y, z), self.e):
            p = add(p, mul(Fr(c), e))
        return p


def gen_steps(rng: random.Random, n: int, allow_default_origin: bool = True) -> List[dict]:
    steps = []
    for _ in range(n):
        k = rng.choice("TRSM")
        o = None if (allow_default_origin and rng.random() < 0.35) else S(rvec(rng, -2, 2, 2))
        if k == "T":
            steps.append({"k": "T", "d": S(rvec(rng))})
        elif k == "R":
            w = rng.randint(-3, 3)
            steps.append({"k": "R", "w": str(w), "a": S(rnz_int_vec(rng)), "o": o})
        elif k == "S":
            steps.append({"k": "S", "r": rng.choice(["1/2", "2/3", "3/2", "2", "5/4", "3"]), "o": o})
        else:
            n = [Fr(c) for c in rnz_int_vec(rng)]
            if rng.random() < 0.12:
                # short but perfectly valid: e.g. the cross product of two sub-millimetre edge vectors (6e-8 long)
                n = mul(Fr(rng.choice([1, 2, 5]), 10**8), n)
            steps.append({"k": "M", "n": S(n), "o": o})
    return steps


EDGE_KINDS = ["arc", "origin", "origin-adjust", "angle", "angle-skew", "spline", "polyline", "project", "curve-line", "curve-circle", "curve-discrete", "curve-linear", "curve-spline"]


def gen_edge(rng: random.Random, p1, p2, kind: Optional[str] = None) -> Optional[dict]:
    """Edge data for the segment p1 -> p2 (Fractions)."""
    if kind is None:
        kind = rng.choice(EDGE_KINDS)
    chord = sub(p2, p1)
    mid = mul(Fr(1, 2), add(p1, p2))
    clen2 = dot(chord, chord)

    def perp():
        while True:
            u = cross(chord, [Fr(c) for c in rnz_int_vec(rng, 2)])
            if any(u):
                return u  # |u| up to ~ 3.5 |chord|

    if kind == "arc":
        u = perp()
        h = Fr(rng.choice([1, 2, 3]), 12)
        off = mul(h, u)
        return {"k": "arc", "p": S(add(add(mid, off), mul(Fr(rng.randint(-1, 1), 10), chord)))}
    if kind in ("origin", "origin-adjust"):
        u = perp()
        h = Fr(rng.choice([2, 3, 4]), 6) * rng.choice([1, -1])
        o = add(mid, mul(h, u))
        flat = "1"
        if kind == "origin-adjust":
            if rng.random() < 0.5:
                flat = rng.choice(["3/2", "5/4", "2"])
            else:
                o = add(o, mul(Fr(rng.choice([1, 2]), 8), chord))
        return {"k": "origin", "o": S(o), "flat": flat}
    if kind in ("angle", "angle-skew"):
        ax = perp()
        if kind == "angle-skew":
            ax = add(ax, mul(Fr(rng.choice([1, -1]), 3), chord))
        return {"k": "angle", "th": rng.choice(["1/2", "1", "3/2", "-1/2", "-1", "2", "-7/4"]), "ax": S(ax)}
    if kind in ("spline", "polyline"):
        n = rng.randint(2, 4)
        u = mul(Fr(1, 8), perp())
        pts = []
        for i in range(n):
            t = Fr(i + 1, n + 1)
            bump = mul(4 * t * (1 - t) * rng.choice([1, 1, 2]), u)
            pts.append(S(add(add(p1, mul(t, chord)), bump)))
        return {"k": kind, "pts": pts}
    if kind == "project":
        return {"k": "project", "l": rng.choice([["g1"], ["g2"], ["g1", "g2"]])}
    if kind == "curve-line":
        a = sub(p1, mul(Fr(1, 4), chord))
        b = add(p2, mul(Fr(1, 4), chord))
        return {"k": "curve", "c": {"c": "line", "p1": S(a), "p2": S(b), "b": ["0", "1"]}, "n": rng.randint(3, 6)}
    if kind == "curve-circle":
        u = perp()
        o = add(mid, mul(Fr(rng.choice([2, 3]), 6), u))
        r1, r2 = sub(p1, o), sub(p2, o)
        nrm = cross(r1, r2)
        # rim: p1 turned back by about 0.8 rad (tan(theta/2) = |nrm|/w = 5/12), so that neither end of the edge
        # sits at the wrap-around of the parameter, where the closest-parameter search is ambiguous
        rim = mat_vec(quat_matrix(Fr(math.sqrt(float(dot(nrm, nrm)))) * Fr(12, 5), mul(-1, nrm)), r1)
        b = rng.choice([None, ["0", "3"], ["-1/2", "4"]])
        c = {"c": "circle", "o": S(o), "rim": S(add(o, rim)), "n": S(nrm)}
        if b:
            c["b"] = b
        return {"k": "curve", "c": c, "n": rng.randint(3, 6)}
    # point-list curves through p1 … p2, extended on both sides
    u = mul(Fr(1, 8), perp())
    pts = [sub(p1, mul(Fr(1, 4), chord)), p1]
    for t in (Fr(1, 3), Fr(2, 3)):
        pts.append(add(add(p1, mul(t, chord)), mul(4 * t * (1 - t), u)))
    pts += [p2, add(p2, mul(Fr(1, 4), chord))]
    name = {"curve-discrete": "discrete", "curve-linear": "linear", "curve-spline": "splinei"}[kind]
    del clen2
    return {"k": "curve", "c": {"c": name, "pts": [S(p) for p in pts]}, "n": rng.randint(3, 5)}


def gen_quad(rng, fr: Frame, z=0, size=2) -> List[List[Fr]]:
    j = lambda: Fr(rng.randint(-2, 2), 8)  # noqa: E731
    s = size
    base = [(0, 0), (s, 0), (s, s), (0, s)]
    return [fr.P(x + j(), y + j(), z + j() / 2) for x, y in base]


def gen_face(rng, fr: Frame, z=0, p_line=0.45, kinds=None) -> dict:
    pts = gen_quad(rng, fr, z)
    edges = []
    for i in range(4):
        if rng.random() < p_line:
            edges.append(None)
        else:
            edges.append(gen_edge(rng, pts[i], pts[(i + 1) % 4], None if kinds is None else rng.choice(kinds)))
    return {"t": "face", "pts": [S(p) for p in pts], "edges": edges}


def gen_loft(rng, fr: Frame, p_line=0.5, kinds=None) -> dict:
    bottom = gen_face(rng, fr, 0, p_line, kinds)
    top = gen_face(rng, fr, 2, p_line, kinds)
    sides = []
    for i in range(4):
        if rng.random() < p_line:
            sides.append(None)
        else:
            a = [Fr(c) for c in bottom["pts"][i]]
            b = [Fr(c) for c in top["pts"][i]]
            # no skew Angle axis on a side edge: Operation.mirror reverses side edges, and blockMesh's angle/axis
            # construction (centre at the height of the *first* point) is reversible only for an axis normal to the chord
            kind = rng.choice([k for k in (kinds or EDGE_KINDS) if k != "angle-skew"] or ["angle"])
            sides.append(gen_edge(rng, a, b, kind))
    return {"t": "loft", "bottom": bottom, "top": top, "sides": sides}


def gen_entity(rng: random.Random, family: str) -> dict:
    fr = Frame(rng)
    if family == "point":
        return {"t": "point", "p": S(rvec(rng))}
    if family == "array":
        return {"t": "array", "pts": [S(rvec(rng)) for _ in range(rng.randint(2, 5))]}
    if family == "edge":
        p1, p2 = fr.P(0, 0, 0), fr.P(2, Fr(1, 2), 0)
        return {"t": "edge", "e": gen_edge(rng, p1, p2), "ends": [S(p1), S(p2)]}
    if family == "curve":
        p1, p2 = fr.P(0, 0, 0), fr.P(2, Fr(1, 2), 0)
        e = gen_edge(rng, p1, p2, rng.choice(["curve-line", "curve-circle", "curve-discrete", "curve-linear", "curve-spline"]))
        return {"t": "curve", **e["c"]}
    if family == "face":
        return gen_face(rng, fr)
    if family == "loft":
        return gen_loft(rng, fr)
    if family == "extrude":
        amount = str(rq(rng, 1, 2)) if rng.random() < 0.5 else S(fr.D(rq(rng, -1, 1), rq(rng, -1, 1), 2))
        return {"t": "extrude", "base": gen_face(rng, fr), "amount": amount}
    if family == "revolve":
        # the base quad sits at distance >= 3 from the axis (through fr.P(0,-3,0), along e1, not a unit vector)
        ax = fr.D(rng.choice([1, 2, 3]), 0, 0)
        return {"t": "revolve", "base": gen_face(rng, fr, 0, 0.7, ["arc", "spline", "project"]), "w": str(rng.choice([3, 4, 6, -5])), "ax": S(ax), "o": S(fr.P(0, -3, 0))}
    if family == "wedge":
        fa = Frame(rng, aligned=True)
        base = gen_face(rng, fa, 0, 0.7, ["arc", "spline"])
        base["pts"] = [S(add([Fr(c) for c in p], [Fr(0), Fr(2), Fr(0)])) for p in base["pts"]]
        base["edges"] = [None] * 4
        return {"t": "wedge", "base": base, "th": rng.choice(["1/10", "1/5", "1/2"])}
    if family == "box":
        p1 = rvec(rng, -2, 2, 2)
        return {"t": "box", "p1": S(p1), "p2": S(add(p1, [rq(rng, 1, 3), rq(rng, 1, 3), rq(rng, 1, 3)]))}
    if family == "sketch":
        cls = rng.choice(["Grid", "OneCoreDisk", "FourCoreDisk", "HalfDisk", "QuarterDisk", "WrappedDisk", "Oval", "Annulus", "MappedSketch", "SplineDisk", "SplineRing"])
        c, rp, n = fr.P(0, 0, 0), fr.P(rq(rng, 1, 2), 0, 0), fr.D(0, 0, rng.choice([1, 2, -3]))
        if cls == "Grid":
            p1 = rvec(rng, -2, 2, 2)
            args = [S(p1), S(add(p1, [rq(rng, 1, 3), rq(rng, 1, 3), Fr(0)])), rng.randint(1, 3), rng.randint(1, 3)]
        elif cls == "WrappedDisk":
            args = [S(c), S(fr.P(2, 2, 0)), str(rq(rng, 1, 1) * Fr(3, 4)), S(n)]
        elif cls == "Oval":
            args = [S(c), S(fr.P(0, 3, 0)), S(n), "1"]
        elif cls == "Annulus":
            args = [S(c), S(rp), S(n), "1/2", rng.choice([4, 6, 8])]
        elif cls == "MappedSketch":
            pos = [fr.P(x + Fr(rng.randint(-1, 1), 8), y + Fr(rng.randint(-1, 1), 8), 0) for y in (0, 1, 2) for x in (0, 1, 2)]
            args = [[S(p) for p in pos], [[0, 1, 4, 3], [1, 2, 5, 4], [3, 4, 7, 6], [4, 5, 8, 7]]]
        elif cls in ("SplineDisk", "SplineRing"):
            args = [S(c), S(fr.P(2, 0, 0)), S(fr.P(0, rng.choice([2, 3]), 0)), rng.choice(["0", "1/2"]), rng.choice(["0", "1/4"])]
            if cls == "SplineRing":
                args += ["1/2", "1/2"]
        else:
            args = [S(c), S(rp), S(n)]
        return {"t": "sketch", "cls": cls, "args": args}
    if family == "shape":
        cls = rng.choice(["Cylinder", "SemiCylinder", "Frustum", "Elbow", "ExtrudedRing", "RevolvedRing", "Hemisphere", "EighthSphere", "ExtrudedShape", "RevolvedShape", "LoftedShape"])
        a1, a2, r1 = fr.P(0, 0, 0), fr.P(0, 0, rq(rng, 1, 3)), fr.P(rq(rng, 1, 2), 0, 0)
        if cls in ("Cylinder", "SemiCylinder"):
            args = [S(a1), S(a2), S(r1)]
        elif cls == "Frustum":
            args = [S(a1), S(a2), S(r1), "1/2"] + (["1"] if rng.random() < 0.5 else [])
        elif cls == "Elbow":
            args = [S(a1), S(r1), S(fr.D(0, 0, 1)), rng.choice(["1/2", "1", "-3/4"]), S(fr.P(0, 3, 0)), S(fr.D(2, 0, 0)), "3/4"]
        elif cls == "ExtrudedRing":
            args = [S(a1), S(a2), S(r1), "1/2", rng.choice([4, 8])]
        elif cls == "RevolvedRing":
            fa = {"t": "face", "pts": [S(fr.P(0, 1, 0)), S(fr.P(1, 1, 0)), S(fr.P(1, 2, 0)), S(fr.P(0, 2, 0))], "edges": [None] * 4}
            args = [S(fr.P(0, 0, 0)), S(fr.P(2, 0, 0)), fa, rng.choice([4, 6])]
        elif cls in ("Hemisphere", "EighthSphere"):
            args = [S(a1), S(r1), S(fr.D(0, 0, rng.choice([1, 2])))]
        elif cls == "ExtrudedShape":
            sk = gen_entity(rng, "sketch")
            while sk["cls"] in ("SplineRing", "SplineDisk"):
                sk = gen_entity(rng, "sketch")
            args = [sk, S(rvec(rng, 1, 2, 2))]
        elif cls == "RevolvedShape":
            sk = {"t": "sketch", "cls": "Grid", "args": [S([Fr(1), Fr(1), Fr(0)]), S([Fr(2), Fr(3), Fr(0)]), 1, 2]}
            args = [sk, "1/2", ["1", "0", "0"], ["0", "0", "0"]]
        else:
            sk1 = {"t": "sketch", "cls": "OneCoreDisk", "args": [S(a1), S(r1), S(fr.D(0, 0, 1))]}
            sk2 = {"t": "sketch", "cls": "OneCoreDisk", "args": [S(fr.P(0, 0, 2)), S(fr.P(Fr(3, 2), Fr(1, 2), 2)), S(fr.D(0, 0, 1))]}
            skm = {"t": "sketch", "cls": "OneCoreDisk", "args": [S(fr.P(0, Fr(1, 4), 1)), S(fr.P(Fr(3, 2), Fr(1, 4), 1)), S(fr.D(0, 0, 1))]}
            args = [sk1, sk2] + ([skm] if rng.random() < 0.6 else [])
        return {"t": "shape", "cls": cls, "args": args}
    if family == "stack":
        cls = rng.choice(["ExtrudedStack", "RevolvedStack", "TransformedStack"])
        base = {"t": "sketch", "cls": "Grid", "args": [S([Fr(1), Fr(1), Fr(0)]), S([Fr(2), Fr(3), Fr(0)]), rng.randint(1, 2), rng.randint(1, 2)]}
        if cls == "ExtrudedStack":
            return {"t": "stack", "cls": cls, "base": base, "amount": S([rq(rng, -1, 1), rq(rng, -1, 1), Fr(2)]), "repeats": rng.randint(1, 3)}
        if cls == "RevolvedStack":
            return {"t": "stack", "cls": cls, "base": base, "w": "3", "ax": ["1", "0", "0"], "o": ["0", "-1", "0"], "repeats": rng.randint(1, 3)}
        end = [{"k": "T", "d": ["0", "0", "1"]}, {"k": "R", "w": "5", "a": ["0", "0", "1"], "o": ["0", "0", "0"]}]
        mid = [{"k": "T", "d": ["0", "0", "1/2"]}, {"k": "R", "w": "10", "a": ["0", "0", "1"], "o": ["0", "0", "0"]}]
        return {"t": "stack", "cls": cls, "base": base, "end": end, "mid": mid if rng.random() < 0.6 else None, "repeats": rng.randint(1, 2)}
    if family == "assembly":
        # a cylinder with a hemispherical cap (and sometimes a second cap): shapes with parts besides their operations
        a1, a2, r1 = fr.P(0, 0, 0), fr.P(0, 0, rq(rng, 1, 3)), fr.P(rq(rng, 1, 2), 0, 0)
        rad = sub(r1, a1)
        shapes = [
            {"t": "shape", "cls": "Cylinder", "args": [S(a1), S(a2), S(r1)]},
            {"t": "shape", "cls": "Hemisphere", "args": [S(a2), S(add(a2, rad)), S(sub(a2, a1))]},
        ]
        if rng.random() < 0.4:
            shapes.append({"t": "shape", "cls": "Hemisphere", "args": [S(a1), S(r1), S(sub(a1, a2))]})
        if rng.random() < 0.3:
            shapes.reverse()
        return {"t": "assembly", "shapes": shapes}
    if family == "asm":
        cls = rng.choice(["TJoint", "LJoint", "NJoint"])
        args: List[Any] = [S(fr.P(0, 0, 0)), S(fr.P(2, 0, 0)), S(fr.P(0, 0, Fr(1, 2)))]
        if cls == "NJoint":
            args.append(rng.choice([3, 5]))
        return {"t": "asm", "cls": cls, "args": args}
    raise ValueError(family)


FAMILIES_QUICK = [
    ("point", 14), ("array", 14), ("edge", 36), ("curve", 24), ("face", 32), ("loft", 24), ("extrude", 10), ("revolve", 12),
    ("wedge", 6), ("box", 6), ("sketch", 22), ("shape", 22), ("stack", 6), ("asm", 3), ("assembly", 3),
]  # fmt: skip


# =========================================================================== the check
def _top_class(spec: dict) -> str:
    if spec["t"] in ("sketch", "shape", "asm", "stack"):
        return spec["cls"]
    if spec["t"] == "edge":
        return "Edge." + spec["e"]["k"]
    if spec["t"] == "curve":
        return "Curve." + spec["c"]
    if spec["t"] == "assembly":
        return "Assembly(" + "+".join(x["cls"] for x in spec["shapes"]) + ")"
    if spec["t"] == "sharedspline":
        return "TwoLoftsOneSplineArray"
    return spec["t"].capitalize()


class C09(core.Check):
    pid = "C09"
    props_module = "CBV.Props.C09"
    workers = 8
    rule = (
        "entity cases: an entity of one of 14 families (point, array, each edge-data kind alone, each curve kind alone, "
        "face and loft with random edge kinds on every edge, extrude, revolve, wedge, box, 11 sketch classes, 11 shape "
        "classes, 3 stack classes, 3 joint assemblies) placed in a rational orthonormal frame in general position, "
        "1-3 transformations (translate / rotate by a rational quaternion about a non-unit axis / scale by a positive "
        "ratio / mirror about a non-unit normal; explicit origins off zero or the default origin), applied by method "
        "calls or as one transformation list, to the entity or to a copy of it. primitive cases: functions.rotate/"
        "scale/mirror and Array/Point methods with caller-owned numpy arguments. Non-trivial = at least one "
        "transformation that is not the identity on the entity; distinct = different (entity, steps, mode)."
    )
    assumptions = [
        "scale ratios are positive (a negative ratio is a point reflection; Angle.scale deliberately ignores it)",
        "rotation angles are theta = 2*atan2(|a|, w) for small integer quaternions (w, a); float trigonometry of "
        "scipy.linalg.expm is compared with the exact rational rotation within 1e-8 relative",
        "default origins of opaque-centre kinds (interpolated curves, some sketches) are passed to the model as an "
        "oracle argument (observed centre); every other kind's centre rule is modelled",
        "NoAlias (no leaf object reachable twice through .parts) is validated on the real objects with id(); an aliased "
        "object is reported by the oracle, and the heap model reproduces the double move",
        "OnCurve edges re-derive their parameters with scipy.optimize.minimize: their points are compared with 2e-5 "
        "relative tolerance, all other geometry with 1e-8",
    ]
    partial_note = (
        "theorems cover the recursive delegation over an arbitrary part tree (heap model, NoAlias): transforming the "
        "entity and reading its output geometry = transforming the output geometry as a value, for single calls and for "
        "method chains / transformation lists of any length; the four point primitives as similarities; default-origin "
        "equivariance of every transcribed centre rule (all entity kinds but EdgeData's constant centre) under the "
        "entity schema, which is regenerated from the source's `parts` / `center` definitions; copy independence; "
        "equivariance of the Origin/Angle arc constructions with square roots as witnesses. Spline interpolation, "
        "closest-parameter search of OnCurve edges, float rounding, and the centres of "
        "interpolated curves (observed values) are checked by the oracle only"
    )

    # ------------------------------------------------------------------ generators
    def gen_cases(self, rng: random.Random, tier: str) -> List[dict]:
        mult = 1 if tier == "quick" else 24
        cases: List[dict] = []
        for fam, n in FAMILIES_QUICK:
            for _ in range(n * mult):
                spec = gen_entity(rng, fam)
                nsteps = rng.choice([1, 1, 2, 3])
                cases.append(
                    {
                        "kind": "ent",
                        "ent": spec,
                        "steps": gen_steps(rng, nsteps),
                        "mode": rng.choice(["method", "method", "list"]),
                        "copy": rng.random() < 0.3,
                    }
                )
        # every edge kind x every transformation kind on a face and on a loft side, single steps (the classic matrix)
        for kind in EDGE_KINDS:
            for tk in "TRSM":
                for holder in ("face", "loft"):
                    fr = Frame(rng)
                    if holder == "face":
                        spec = gen_face(rng, fr, 0, 0.0, [kind])
                    else:
                        spec = gen_loft(rng, fr, 0.6, [kind])
                    step = next(s for s in iter(lambda: gen_steps(rng, 1, False)[0], None) if s["k"] == tk)
                    cases.append({"kind": "ent", "ent": spec, "steps": [step], "mode": rng.choice(["method", "list"]), "copy": False})
        # Round 2: interpolated curves transformed directly, by list and by method, with default origins (the centre of
        # such a curve is an *evaluation* of its cached interpolation function), alone and inside compositions
        for ck in ("curve-linear", "curve-spline"):
            for steps_kinds in ("R", "S", "TRS", "MS", "RT", "SR"):
                for mode in ("list", "method"):
                    fr = Frame(rng)
                    p1, p2 = fr.P(0, 0, 0), fr.P(2, Fr(1, 2), 0)
                    e = gen_edge(rng, p1, p2, ck)
                    steps = []
                    for k in steps_kinds:
                        st = next(x for x in iter(lambda: gen_steps(rng, 1, False)[0], None) if x["k"] == k)
                        if k in "RS":
                            st["o"] = None
                        steps.append(st)
                    cases.append({"kind": "ent", "ent": {"t": "curve", **e["c"]}, "steps": steps, "mode": mode, "copy": False})
        # Round 2: point arrays owned by the caller (float64 ndarrays) and translations, which work in place:
        # spline / polyLine / point-list curves alone, on faces, and ONE array describing the common edge of two lofts
        for _ in range(4 * mult):
            fr = Frame(rng)
            z = [Fr(i, 6) for i in range(1, 6)]
            pts = [fr.P(1 + Fr(rng.randint(1, 3), 10) * (1 - (2 * t - 1) ** 2), -Fr(rng.randint(1, 3), 10) * (1 - (2 * t - 1) ** 2), t) for t in z]
            spec = {"t": "sharedspline", "frame": [S(fr.o)] + [S(e) for e in fr.e], "pts": [S(p) for p in pts], "poly": rng.random() < 0.4}
            steps = gen_steps(rng, rng.choice([1, 2]))
            steps.insert(rng.randrange(len(steps) + 1), {"k": "T", "d": S(rvec(rng))})
            cases.append({"kind": "ent", "ent": spec, "steps": steps, "mode": rng.choice(["method", "list"]), "copy": rng.random() < 0.3})
        for fam in ("array", "edge", "curve", "face"):
            for _ in range(3 * mult):
                spec = gen_entity(rng, fam)
                if fam == "edge":
                    fr = Frame(rng)
                    p1, p2 = fr.P(0, 0, 0), fr.P(2, Fr(1, 2), 0)
                    spec = {"t": "edge", "e": gen_edge(rng, p1, p2, rng.choice(["spline", "polyline", "curve-discrete", "curve-linear"])), "ends": [S(p1), S(p2)]}
                elif fam == "curve":
                    fr = Frame(rng)
                    e = gen_edge(rng, fr.P(0, 0, 0), fr.P(2, Fr(1, 2), 0), rng.choice(["curve-discrete", "curve-linear", "curve-spline"]))
                    spec = {"t": "curve", **e["c"]}
                elif fam == "face":
                    spec = gen_face(rng, Frame(rng), 0, 0.3, ["spline", "polyline", "curve-discrete"])
                cases.append({"kind": "ent", "ent": spec, "steps": [{"k": "T", "d": S(rvec(rng))}], "mode": rng.choice(["method", "list"]), "copy": rng.random() < 0.3})
        # Round 3: copy, then transform the ORIGINAL (translations work in place): the untouched copy must keep its
        # geometry — interpolated curves (cached function, valid at copy time) bare, under an OnCurve edge, on faces
        # and lofts, and a sample of every other family
        for i in range(10 * mult):
            fr = Frame(rng)
            which = i % 5
            if which == 0:
                e = gen_edge(rng, fr.P(0, 0, 0), fr.P(2, Fr(1, 2), 0), rng.choice(["curve-linear", "curve-spline"]))
                spec = {"t": "curve", **e["c"]}
            elif which == 1:
                p1, p2 = fr.P(0, 0, 0), fr.P(2, Fr(1, 2), 0)
                spec = {"t": "edge", "e": gen_edge(rng, p1, p2, rng.choice(["curve-linear", "curve-spline", "curve-discrete", "spline"])), "ends": [S(p1), S(p2)]}
            elif which == 2:
                spec = gen_face(rng, fr, 0, 0.4, ["curve-linear", "curve-spline", "curve-circle", "spline"])
            elif which == 3:
                spec = gen_loft(rng, fr, 0.6, ["curve-linear", "curve-line", "polyline", "arc"])
            else:
                spec = gen_entity(rng, rng.choice(["face", "loft", "extrude", "sketch", "shape", "curve"]))
            steps = gen_steps(rng, rng.choice([1, 2]))
            steps.insert(rng.randrange(len(steps) + 1), {"k": "T", "d": S(rvec(rng))})
            cases.append({"kind": "ent", "ent": spec, "steps": steps, "mode": rng.choice(["method", "list"]), "copy": True, "move": "original"})
        # Round 4: (a) the same transformation list object applied twice (default origins must be resolved afresh and
        # the caller's Rotation/Scaling/Mirror objects must stay as they are); (b) arguments that ARE the position
        # array of one of the entity's own points (displacement, origin)
        for i in range(10 * mult):
            fam = ["face", "loft", "curve", "sketch", "shape", "edge", "extrude", "stack", "face", "loft"][i % 10]
            steps = gen_steps(rng, rng.choice([1, 2]))
            k = rng.choice("RS")
            st = next(x for x in iter(lambda: gen_steps(rng, 1, False)[0], None) if x["k"] == k)
            st["o"] = None
            steps.insert(rng.randrange(len(steps) + 1), st)
            cases.append({"kind": "ent", "ent": gen_entity(rng, fam), "steps": steps, "mode": "list" if i % 3 else "method", "copy": rng.random() < 0.2, "times": 2})
        for i in range(10 * mult):
            fam = ["face", "loft", "curve", "face", "extrude", "shape", "sketch", "loft", "edge", "point"][i % 10]
            k = "T" if i % 2 == 0 else rng.choice("RSM")
            st = next(x for x in iter(lambda: gen_steps(rng, 1, False)[0], None) if x["k"] == k)
            if k == "T":
                del st["d"]
                st["alias_d"] = rng.randrange(8)
            else:
                st["o"] = None
                st["alias_o"] = rng.randrange(8)
            cases.append({"kind": "ent", "ent": gen_entity(rng, fam), "steps": [st] + gen_steps(rng, rng.choice([0, 1])), "mode": rng.choice(["method", "list"]), "copy": False})
        # Round 6b: arguments that are numpy VIEWS of a row of one of the entity's own point arrays (`curve.array[i]`,
        # `discrete_curve.get_point(i)`, `curve.discretize()[i]`: "scale the curve about its own first point") — origin of
        # a rotation / scaling / mirror, displacement, rotation axis, mirror normal; entities that carry point arrays
        # (point-list curves bare and under Spline / PolyLine / OnCurve edges, faces and lofts with such edges)
        row_ents = []
        for ck in ("curve-discrete", "curve-linear", "curve-spline"):
            fr = Frame(rng)
            row_ents.append({"t": "curve", **gen_edge(rng, fr.P(0, 0, 0), fr.P(2, Fr(1, 2), 0), ck)["c"]})
        row_ents.append({"t": "array", "pts": [S(rvec(rng)) for _ in range(4)]})
        for ek in ("spline", "polyline", "curve-discrete"):
            fr = Frame(rng)
            p1, p2 = fr.P(0, 0, 0), fr.P(2, Fr(1, 2), 0)
            row_ents.append({"t": "edge", "e": gen_edge(rng, p1, p2, ek), "ends": [S(p1), S(p2)]})
        row_ents.append(gen_face(rng, Frame(rng), 0, 0.0, ["spline", "polyline"]))
        row_ents.append(gen_loft(rng, Frame(rng), 0.0, ["spline", "polyline", "curve-discrete"]))
        row_forms = [("S", "o"), ("S", "o"), ("R", "o"), ("M", "o"), ("T", "d"), ("R", "a"), ("M", "n")]
        for i in range((16 if tier == "quick" else 64)):
            k, key = row_forms[i % len(row_forms)] if i >= len(row_ents) else ("S", "o")
            st = next(x for x in iter(lambda: gen_steps(rng, 1, False)[0], None) if x["k"] == k)
            if key == "o":
                st["o"] = ["0", "0", "0"]  # placeholder: the value at call time is recorded by the harness
            st[f"alias_row_{key}"] = rng.randrange(12)
            ent = row_ents[i % len(row_ents)]
            cases.append({"kind": "ent", "ent": json.loads(json.dumps(ent)), "steps": [st] + gen_steps(rng, rng.choice([0, 1])), "mode": ["method", "list"][(i // len(row_ents)) % 2], "copy": False})
        # Round 4: analytic curves that have been measured before, scaled through a transformation list (the list
        # transforms the curve's parts, not the curve: nothing curve.scale() does on the side happens)
        for ck in ("curve-line", "curve-circle"):
            for kinds in ("S", "TS", "SR", "MS"):
                fr = Frame(rng)
                e = gen_edge(rng, fr.P(0, 0, 0), fr.P(2, Fr(1, 2), 0), ck)
                steps = [next(x for x in iter(lambda: gen_steps(rng, 1)[0], None) if x["k"] == k) for k in kinds]
                cases.append({"kind": "ent", "ent": {"t": "curve", **e["c"]}, "steps": steps, "mode": "list", "copy": rng.random() < 0.5})
        # copies without any transformation
        for fam in ("face", "loft", "shape", "sketch", "curve", "edge"):
            for _ in range(2 * mult):
                cases.append({"kind": "ent", "ent": gen_entity(rng, fam), "steps": [], "mode": "method", "copy": True})
        # boundary stream: a zero axis / zero normal (the library divides by the norm: NaN, no guard); the model must
        # not invent a value there (`degenerate`), and nothing is claimed about the geometry
        for fam in ("point", "array", "face"):
            for step in ({"k": "R", "w": "2", "a": ["0", "0", "0"], "o": ["1", "0", "0"]}, {"k": "M", "n": ["0", "0", "0"], "o": ["1", "0", "0"]}):
                cases.append({"kind": "ent", "ent": gen_entity(rng, fam), "steps": [step], "mode": rng.choice(["method", "list"]), "copy": False, "degenerate": True})
        # primitives with caller-owned arrays
        for _ in range(40 * mult):
            fn = rng.choice(["f.rotate", "f.scale", "f.mirror", "Point", "Array"])
            step = gen_steps(rng, 1, False)[0]
            if fn == "f.rotate":
                step = next(s for s in iter(lambda: gen_steps(rng, 1, False)[0], None) if s["k"] == "R")
            elif fn == "f.scale":
                step = next(s for s in iter(lambda: gen_steps(rng, 1, False)[0], None) if s["k"] == "S")
            elif fn == "f.mirror":
                step = next(s for s in iter(lambda: gen_steps(rng, 1, False)[0], None) if s["k"] == "M")
            cases.append({"kind": "prim", "fn": fn, "pts": [S(rvec(rng)) for _ in range(rng.randint(2, 4))], "step": step})
        # Round 6c: Point.shear / Array.shear / ElementBase.shear (a Face): points on both sides of the plane and on it,
        # non-unit normal and direction, in-plane and oblique directions
        for i in range(9 * mult):
            fr = Frame(rng)
            o = fr.P(rq(rng, -2, 2), rq(rng, -2, 2), rq(rng, -2, 2))
            n = fr.D(0, 0, rng.choice([1, 2, -3, Fr(1, 2)]))
            d = fr.D(rq(rng, 1, 3), rq(rng, -2, 2), 0 if i % 3 else rq(rng, -1, 1))
            hs = [Fr(0), rq(rng, 1, 8) / 4, -rq(rng, 1, 8) / 4, rq(rng, 2, 6)]
            rng.shuffle(hs)
            pts = [add(o, fr.D(rq(rng, -3, 3), rq(rng, -3, 3), h)) for h in hs]
            cases.append({"kind": "shear", "fn": ["Point", "Array", "Face"][i % 3], "n": S(n), "o": S(o), "d": S(d),
                          "cot": str(Fr(rng.choice([-7, -3, -1, 1, 2, 5, 9]), rng.choice([2, 3, 4]))), "pts": [S(p) for p in pts]})
        return cases

    # ------------------------------------------------------------------ implementation
    def run_impl(self, case: dict) -> Any:
        import numpy as np

        with warnings.catch_warnings():
            warnings.simplefilter("ignore")
            if case["kind"] == "prim":
                return self._run_prim(case)
            if case["kind"] == "shear":
                return self._run_shear(case)
            spec, steps = case["ent"], case["steps"]
            twin = build(spec)
            CALLER_ARRAYS.clear()
            ent = build(spec)
            owned = list(CALLER_ARRAYS)
            # a second entity made from each of the caller's arrays: it must stay where it is
            from classy_blocks.construct.curves.discrete import DiscreteCurve

            siblings = [DiscreteCurve(a) for a, _ in owned]
            out: Dict[str, Any] = {"cls": type(ent).__name__, "top": kind_of(ent) if not _is_leaf(ent) else "leaf"}
            # the entity is used before it is transformed or copied: every lazily computed quantity (curve lengths,
            # interpolation functions, …) has been asked for once
            geometry(ent, assemble=False)
            walk = Walk()
            t0 = walk.tokens(ent, True)
            out["tree0"] = enc_tree([(t[0], t[1], len(t[2])) if t[0] == "A" else t for t in t0])
            out["aliased"] = walk.aliased()
            out["schema0"] = schema_tokens(ent)
            n0 = walk.n_cells
            out["cells0"] = heap_of(t0, n0)
            try:
                c0 = np.asarray(twin.center, dtype=float)
                out["center0"] = [float(x) for x in c0] if c0.shape == (3,) else None
            except Exception:
                out["center0"] = None
            target = ent
            rev = bool(case["copy"]) and case.get("move") == "original"
            dup = None
            if case["copy"]:
                dup = ent.copy()
                walk.tokens(dup, False)  # cells of the copy, in first-visit order at copy time
                # either the copy is transformed and the original must stay, or the other way round
                target = ent if rev else dup
            other = None if dup is None else (dup if rev else ent)
            out["n_cells"] = walk.n_cells
            try:
                centers, mutated, eff = apply_steps(target, steps, case["mode"], int(case.get("times", 1)))
            except Exception as e:
                out["raised"] = f"{type(e).__name__}: {e}"[:300]
                return out
            out["steps"] = eff  # what was really applied: aliases resolved, repetitions unrolled
            out["centers"] = centers
            out["mutated"] = mutated
            out["caller_arrays_modified"] = [
                {"array": i, "was": snap.tolist(), "is": a.tolist()} for i, (a, snap) in enumerate(owned) if not np.array_equal(a, snap)
            ]
            out["siblings_moved"] = [
                {"array": i, "was": snap.tolist(), "is": sib.array.points.tolist()}
                for i, ((a, snap), sib) in enumerate(zip(owned, siblings))
                if not np.array_equal(sib.array.points, snap)
            ]
            unknown_before = len(walk.cell_of)
            after = walk.tokens(ent, True)
            if case["copy"]:
                after = after + [("|",)] + walk.tokens(dup, True)
            out["new_objects"] = len(walk.cell_of) - unknown_before
            out["tree1"] = after
            out["geom0"] = geometry(twin)
            out["geom1"] = geometry(target)
            if case["copy"]:
                out["geomE"] = geometry(other)
            out["projection_leaks"] = projection_probe(target, other)
            return out

    def _run_shear(self, case: dict) -> Any:
        """Point.shear / Array.shear / Face.shear (ElementBase.shear: every part) on the real objects"""
        import numpy as np
        import classy_blocks as cb
        from classy_blocks.construct.array import Array
        from classy_blocks.construct.point import Point

        n, o, d = (np.array(FV(case[k])) for k in ("n", "o", "d"))
        snap = [np.copy(x) for x in (n, o, d)]
        angle = math.atan2(1.0, float(Fr(case["cot"])))  # cot(angle) = case["cot"], angle in (0, pi)
        pts = [FV(p) for p in case["pts"]]
        if case["fn"] == "Point":
            objs = [Point(p) for p in pts]
            for ob in objs:
                ob.shear(n, o, d, angle)
            res = [ob.position for ob in objs]
        elif case["fn"] == "Array":
            arr = Array(pts)
            arr.shear(n, o, d, angle)
            res = list(arr.points)
        else:
            face = cb.Face(pts[:4])
            face.shear(n, o, d, angle)
            res = list(face.point_array)
        mutated = [k for k, a, b in zip(("normal", "origin", "direction"), (n, o, d), snap) if not np.array_equal(a, b)]
        return {"res": [[float(c) for c in r] for r in res], "mutated": mutated,
                "sn": float(np.linalg.norm(snap[0])), "sd": float(np.linalg.norm(snap[2]))}

    def _run_prim(self, case: dict) -> Any:
        import numpy as np
        from classy_blocks.construct.array import Array
        from classy_blocks.construct.point import Point
        from classy_blocks.util import functions as f

        s = case["step"]
        pts = np.array([FV(p) for p in case["pts"]])
        args = {
            "o": np.array(FV(s["o"])) if s.get("o") is not None else None,
            "v": np.array(FV(s["d"] if s["k"] == "T" else s["a"] if s["k"] == "R" else s["n"])) if s["k"] != "S" else None,
        }
        snap = {k: None if v is None else np.copy(v) for k, v in args.items()}
        pts0 = np.copy(pts)
        fn = case["fn"]
        res = []
        theta = quat_theta(s["w"], s["a"]) if s["k"] == "R" else None
        if fn.startswith("f."):
            for p in pts:
                if fn == "f.rotate":
                    res.append(f.rotate(p, theta, args["v"], args["o"]))
                elif fn == "f.scale":
                    res.append(f.scale(p, F(s["r"]), args["o"]))
                else:
                    res.append(f.mirror(p, args["v"], args["o"]))
        else:
            objs = [Point(p) for p in pts] if fn == "Point" else [Array(pts)]
            for ob in objs:
                if s["k"] == "T":
                    ob.translate(args["v"])
                elif s["k"] == "R":
                    ob.rotate(theta, args["v"], args["o"])
                elif s["k"] == "S":
                    ob.scale(F(s["r"]), args["o"])
                else:
                    ob.mirror(args["v"], args["o"])
            res = [ob.position for ob in objs] if fn == "Point" else list(objs[0].points)
        mutated = [k for k, v in args.items() if v is not None and not np.array_equal(v, snap[k])]
        if fn.startswith("f.") and not np.array_equal(pts, pts0):
            mutated.append("point")
        return {"res": [[float(c) for c in r] for r in res], "mutated": mutated}

    # ------------------------------------------------------------------ model
    def requests(self, case: dict, impl: Any) -> List[str]:
        if case["kind"] == "shear":
            npts = 4 if case["fn"] == "Face" else len(case["pts"])
            head = (f"{enc_v(FV(case['n']))} {enc_v(FV(case['o']))} {enc_v(FV(case['d']))} {core.rat(impl['sn'])} "
                    f"{core.rat(impl['sd'])} {core.rat(Fr(case['cot']))} ")
            cells = " ".join(enc_v(FV(p)) for p in case["pts"][:npts])
            reqs = ["c09.shear " + head + cells]
            if case["fn"] == "Face":
                # the same through the entity recursion of the model (`shearE`): the face as a part tree — four corner
                # cells and four straight edges without parts
                tree = "P0 P1 P2 P3 " + " ".join(["N:edge:0/1:0"] * 4) + " N:face:0/1:8"
                reqs.append(f"c09.shearent {head}4 {cells} {tree}")
            return reqs
        if case["kind"] == "prim":
            s = case["step"]
            return [f"c09.prim {enc_step(s, None)} " + " ".join(enc_v(FV(p)) for p in case["pts"])]
        if "raised" in impl:
            return []
        steps = self._steps(case, impl)
        # oracle centre for kinds without a modelled rule: observed (method mode) or predicted from the first one
        ocs = self._centres_for_model(case, impl)
        mode = ("m" if case["mode"] == "method" else "l") + (("o" if case.get("move") == "original" else "c") if case["copy"] else "")
        cells = " ".join(enc_v(c) for c in impl["cells0"])
        req = f"c09.run {mode} {len(impl['cells0'])} {cells} {len(impl['tree0'])} " + " ".join(impl["tree0"])
        if steps:
            req += " " + " ".join(enc_step(s, oc) for s, oc in zip(steps, ocs))
        # the real tree against the model's entity schema (classes, slots, kinds): hypothesis `wfV` of the theorems
        return [req, "c09.wf " + " ".join(impl["schema0"])]

    @staticmethod
    def _steps(case: dict, impl: Any) -> List[dict]:
        """the steps as they were really applied (aliased arguments resolved, repetitions unrolled)"""
        return impl.get("steps", case["steps"]) if isinstance(impl, dict) else case["steps"]

    def _expected_centres(self, case: dict, impl: Any) -> Tuple[List[Optional[List[Fr]]], Aff]:
        """Centre before each step and the total affine map, from the parameters and the twin's centre alone."""
        c0 = impl.get("center0")
        # EdgeData.center is the constant (0,0,0); Point/Array *methods* default to the origin (0,0,0) as well,
        # while a transformation list resolves a missing origin to .center for every entity
        zero = impl["top"] in ZERO_CENTER_KINDS or (impl["top"] == "leaf" and case["mode"] == "method")
        aff = Aff()
        centres: List[Optional[List[Fr]]] = []
        for s in self._steps(case, impl):
            if zero:
                c = [Fr(0)] * 3
            elif c0 is None:
                c = None
            else:
                c = aff.pt([Fr(x) for x in c0])
            centres.append(c)
            needs = s["k"] in "RS" and s.get("o") is None
            a = aff_of_step(s, c if (needs and c is not None) else [0, 0, 0])
            aff = aff.then(a)
        return centres, aff

    def _centres_for_model(self, case, impl):
        if case.get("degenerate"):
            return [None] * len(case["steps"])
        exp, _ = self._expected_centres(case, impl)
        out = []
        for i, s in enumerate(self._steps(case, impl)):
            if not (s["k"] in "RS" and s.get("o") is None):
                out.append(None)
            elif case["mode"] == "method" and impl["centers"][i] is not None:
                out.append(impl["centers"][i])
            elif i == 0 and impl["centers"] and impl["centers"][0] is not None:
                out.append(impl["centers"][0])
            else:
                out.append(None if exp[i] is None else [float(c) for c in exp[i]])
        return out

    def compare(self, case: dict, impl: Any, model: List[str]) -> Optional[str]:
        ans = model[0]
        if case["kind"] == "shear":
            toks = ans.split()
            if toks[0] != "ok" or len(toks) - 1 != len(impl["res"]):
                return f"model answers {ans[:80]}"
            for t, r_ in zip(toks[1:], impl["res"]):
                m = [core.parse_rat(x) for x in t.split(",")]
                scale = 1.0 + max(abs(c) for c in r_)
                if not all(_close(a, b, scale) for a, b in zip(m, r_)):
                    return f"{case['fn']}.shear cot={case['cot']}: model {[float(x) for x in m]}, implementation {r_}"
            if len(model) > 1:
                ptoks = [t for t in model[1].split() if t.startswith("P") and "=" in t]
                if not model[1].startswith("ok") or len(ptoks) != len(impl["res"]) or not model[1].rstrip().endswith("N:face:0/1:8"):
                    return f"Face.shear through the part tree: model answers {model[1][:100]}"
                for t, r_ in zip(ptoks, impl["res"]):
                    m = [core.parse_rat(x) for x in t.split("=")[1].split(",")]
                    scale = 1.0 + max(abs(c) for c in r_)
                    if not all(_close(a, b, scale) for a, b in zip(m, r_)):
                        return f"Face.shear (entity recursion) cot={case['cot']}: model {[float(x) for x in m]}, implementation {r_}"
            return None
        if case["kind"] == "prim":
            toks = ans.split()
            if toks[0] != "ok" or len(toks) - 1 != len(impl["res"]):
                return f"model answers {ans[:80]}"
            for t, r in zip(toks[1:], impl["res"]):
                m = [core.parse_rat(x) for x in t.split(",")]
                scale = max(abs(c) for c in r)
                if not all(_close(a, b, scale) for a, b in zip(m, r)):
                    return f"{case['fn']} {case['step']}: model {[float(x) for x in m]}, implementation {r}"
            return None
        if case.get("degenerate") or ans == "degenerate":
            nan = any(c != c for t in impl.get("tree1", []) if t[0] in "PD" for c in t[2]) or any(
                c != c for t in impl.get("tree1", []) if t[0] == "A" for r in t[2] for c in r
            )
            if ans == "degenerate" and (nan or "raised" in impl):
                return None
            return f"degenerate parameters: model answers {ans[:60]}, implementation " + ("produces NaN" if nan else "produces finite values")
        if len(model) > 1 and model[1] != "ok":
            return f"the part tree of {impl['cls']} does not follow the model's entity schema: {model[1][:160]}"
        dec = dec_answer(ans)
        if dec is None:
            return f"model answers {ans[:120]}"
        scale = max([1.0] + [abs(c) for cell in impl["cells0"] if cell for c in cell])
        # steps may scale the geometry up
        for t in impl["tree1"]:
            if t[0] in "PD":
                scale = max(scale, max(abs(c) for c in t[2]))
        if impl.get("new_objects"):
            return f"{impl['new_objects']} leaf objects of the transformed entity are not those of the original"
        return compare_tokens(dec, impl["tree1"], scale)

    # ------------------------------------------------------------------ oracle
    def oracle(self, case: dict, impl: Any) -> List[dict]:
        out: List[dict] = []
        if case["kind"] == "shear":
            # independent of the model: every point moves along the unit direction by |distance from the plane| * cot(angle)
            for m in impl["mutated"]:
                out.append({"site": f"{case['fn']}.shear:argument-modified:{m}", "what": "a caller-owned array was modified in place"})
            n, o, d = ([Fr(c) for c in V(case[k])] for k in ("n", "o", "d"))
            sn, sd = math.sqrt(float(dot(n, n))), math.sqrt(float(dot(d, d)))
            for p, r_ in zip(case["pts"], impl["res"]):
                pf = [Fr(c) for c in V(p)]
                dist = abs(float(dot(sub(pf, o), n))) / sn
                amount = dist * float(Fr(case["cot"])) if dist > 1e-7 else 0.0
                exp = [float(pf[i]) + amount * float(d[i]) / sd for i in range(3)]
                if not _near(exp, r_, 1e-9 * (1 + max(abs(c) for c in exp))):
                    out.append({"site": f"{case['fn']}.shear:wrong-image", "what": f"point {FV(p)} at distance {dist} from the plane", "expected": exp, "observed": r_})
                    break
            return out
        if case["kind"] == "prim":
            for m in impl["mutated"]:
                out.append({"site": f"{case['fn']}.{case['step']['k']}:argument-modified:{m}", "what": "a caller-owned array was modified in place"})
            s = case["step"]
            aff = aff_of_step(s, [0, 0, 0])
            for p, r in zip(case["pts"], impl["res"]):
                e = [float(c) for c in aff.pt(V(p))]
                if not _near(e, r, REL_TOL * (1 + max(abs(c) for c in e))):
                    out.append({"site": f"{case['fn']}.{s['k']}:wrong-image", "what": f"{case['fn']} of {p} under {s}", "observed": r, "expected": e})
                    break
            return out
        if case.get("degenerate"):
            return out
        cls = _top_class(case["ent"])
        kinds = "+".join(sorted({s["k"] for s in case["steps"]})) or "none"
        rev_copy = bool(case["copy"]) and case.get("move") == "original"
        via = ("transform" if case["mode"] == "list" else "method") + ((":original-of-a-copy" if rev_copy else ":copy") if case["copy"] else "")
        if int(case.get("times", 1)) > 1:
            via += ":applied-twice"
        if any(k.startswith("alias_row") for st in case["steps"] for k in st):
            via += ":argument-is-view-of-own-array"
        elif any(k.startswith("alias") for st in case["steps"] for k in st):
            via += ":argument-is-own-point"
        where = f"{cls}:{kinds}:{via}"
        if "raised" in impl:
            return [{"site": f"{where}:raised", "what": impl["raised"]}]
        for m in impl["mutated"]:
            out.append({"site": f"{where}:argument-modified", "what": f"an argument owned by the caller ({m}: array or field of a transformation object) was modified by the library"})
        for m in impl.get("caller_arrays_modified", [])[:1]:
            out.append({"site": f"{cls}:{kinds}:callers-point-array-modified", "what": "the point array the entity was created from (owned by the caller) was modified by transforming the entity", "observed": m["is"], "expected": m["was"]})
        for m in impl.get("siblings_moved", [])[:1]:
            out.append({"site": f"{cls}:{kinds}:other-entity-moved", "what": "another curve created from the same point array moved when this entity was transformed", "observed": m["is"], "expected": m["was"]})
        if impl["aliased"]:
            out.append({"site": f"{cls}:shared-part", "what": f"{impl['aliased']} leaf objects are reachable twice through .parts (moved twice by every transformation)"})
        centres, aff = self._expected_centres(case, impl)
        if impl.get("center0") is None and any(s["k"] in "RS" and s.get("o") is None for s in self._steps(case, impl)):
            out.append({"site": f"{cls}:center-not-a-point", "what": "default origin requested but .center is not a point"})
            return out
        if case["mode"] == "method" and impl["top"] != "leaf":
            for i, (c, obs) in enumerate(zip(centres, impl["centers"])):
                if c is not None and obs is not None:
                    e = [float(x) for x in c]
                    if not _near(e, obs, 1e-6 * (1 + max(abs(x) for x in e))):
                        out.append({"site": f"{cls}:center-not-carried-along", "what": f"centre before step {i}", "observed": obs, "expected": e})
                        break
        # every leaf object on its own: point cells by the affine map, axis directions by its rotational part
        if not impl["aliased"]:
            cells0 = impl["cells0"]
            toks = impl["tree1"]
            if rev_copy:
                toks = toks[: toks.index(("|",))]
                shift = 0
            elif case["copy"]:
                toks = toks[toks.index(("|",)) + 1 :]
                first = min((t[1] for t in toks if t[0] in ("P", "D", "A")), default=0)
                base = min((t[1] for t in impl["tree1"] if t[0] in ("P", "D", "A")), default=0)
                shift = first - base
            else:
                shift = 0
            for t in toks:
                if t[0] in ("P", "D") and 0 <= t[1] - shift < len(cells0) and cells0[t[1] - shift] is not None:
                    src = cells0[t[1] - shift]
                    e = list(aff.fpt(src)) if t[0] == "P" else list(aff.fdir(src))
                    if not _near(e, t[2], REL_TOL * (1 + max(abs(c) for c in e))):
                        what = "a point of the entity is not the image of the original point" if t[0] == "P" else "an axis direction of the entity is not the rotated/reflected original direction (or was displaced)"
                        out.append({"site": f"{where}:{'point' if t[0] == 'P' else 'direction'}-cell", "what": what, "observed": t[2], "expected": e})
                        break
                elif t[0] == "A" and 0 <= t[1] - shift < len(cells0):
                    rows0 = [cells0[t[1] - shift + i] for i in range(len(t[2]))]
                    if any(r is None for r in rows0):
                        continue
                    e = [list(aff.fpt(r)) for r in rows0]
                    sc = 1 + max(abs(c) for r in e for c in r)
                    same = all(_near(a, b, REL_TOL * sc) for a, b in zip(e, t[2]))
                    rev = all(_near(a, b, REL_TOL * sc) for a, b in zip(reversed(e), t[2]))
                    if not (same or rev):
                        out.append({"site": f"{where}:array-cell", "what": "the rows of a point array are not the images of the original rows", "observed": t[2], "expected": e})
                        break
        g0, g1 = impl["geom0"], impl["geom1"]
        if len(g0["units"]) != len(g1["units"]):
            out.append({"site": f"{where}:unit-count", "what": f"{len(g0['units'])} units became {len(g1['units'])}"})
            return out
        for i, (u0, u1) in enumerate(zip(g0["units"], g1["units"])):
            v = compare_units(u0, u1, aff, where, labels="geometry_keys" not in g1)
            for x in v:
                x["what"] = f"unit {i}: " + x["what"]
            out.extend(v[:2])
            if len(out) > 6:
                break
        if case["copy"]:
            for i, (u0, u1) in enumerate(zip(g0["units"], impl["geomE"]["units"])):
                site = f"{cls}:{kinds}:copy-changed-with-original" if rev_copy else f"{cls}:copy:original-changed"
                v = compare_units(u0, u1, Aff(), site, labels="geometry_keys" not in g1)
                out.extend(v[:1])
                if v:
                    break
        for leak in impl.get("projection_leaks", [])[:1]:
            site = f"{cls}:copy:projection-shared-with-copy" if leak["across_copy"] else f"{cls}:projection-shared-between-points"
            out.append({"site": site, "what": f"projecting {leak['projected']} to a surface also projected {leak['also_on']} (projected_to is shared)"})
        m0, m1 = g0.get("mesh"), g1.get("mesh")
        if m0 and m1:
            if ("error" in m0) != ("error" in m1) or (("error" not in m0) and (m0["vertices"], m0["edges"]) != (m1["vertices"], m1["edges"])):
                out.append({"site": f"{where}:assembled-counts", "what": f"assembled mesh of the original {_counts(m0)}, of the transformed entity {_counts(m1)}"})
        for s0, s1 in zip(g0.get("spheres", []), g1.get("spheres", [])):
            ec = list(aff.fpt(s0["centre"]))
            er = float(aff.ratio) * s0["radius"]
            if not _near(ec, s1["centre"], 1e-6 * (1 + max(abs(c) for c in ec))) or abs(er - s1["radius"]) > 1e-6 * (1 + er):
                out.append({"site": f"{cls}:{kinds}:searchable-sphere", "what": "the searchableSphere declared for a sphere shape (centre, radius: what its outer faces are projected to) is not the image of the original one", "observed": s1, "expected": {"centre": ec, "radius": er}})
                break
        if "geometry_keys" in g1:
            missing = [l for l in g1["labels_used"] if l.startswith("sphere_") and l not in g1["geometry_keys"]]
            if missing:
                out.append({"site": f"{cls}:{'copy' if case['copy'] else 'transform'}:geometry-label", "what": f"projected to {missing} but defines {g1['geometry_keys']}"})
        # one report per site
        seen, uniq = set(), []
        for v in out:
            if v["site"] not in seen:
                seen.add(v["site"])
                uniq.append(v)
        return uniq

    # ------------------------------------------------------------------ bookkeeping
    def classify(self, case, impl):
        if case["kind"] == "shear":
            return "shear:" + case["fn"]
        if case["kind"] == "prim":
            return "prim:" + case["fn"] + ":" + case["step"]["k"]
        if case.get("degenerate"):
            return "degenerate:" + case["steps"][0]["k"]
        kinds = "+".join(sorted({s["k"] for s in case["steps"]})) or "none"
        return f"{_top_class(case['ent'])}:{kinds}:{case['mode']}" + ((":copy-then-original" if case.get("move") == "original" else ":copy") if case["copy"] else "")

    def nontrivial_key(self, case, impl):
        if case["kind"] == "ent" and not case["steps"] and not case["copy"]:
            return None
        return json.dumps(case, sort_keys=True)


def _counts(m):
    return m.get("error") or f"{m['vertices']} vertices / {m['edges']} edges"


def _is_leaf(e) -> bool:
    from classy_blocks.construct.array import Array
    from classy_blocks.construct.point import Point

    return isinstance(e, (Point, Array))


if __name__ == "__main__":
    sys.exit(core.main(C09()))
