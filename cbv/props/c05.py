"""C05 — one vertex per distinct point; duplicates only across merged patches."""

from __future__ import annotations

import itertools
import json
import random
import re
import sys
import warnings
from decimal import ROUND_HALF_EVEN, Decimal
from fractions import Fraction
from typing import Any, Dict, List, Optional, Tuple

from .. import core

# the blockMesh hexahedron convention, stated independently of the repository's tables:
# which of the six sides touch corner c
BM_SIDE = {
    "bottom": {0, 1, 2, 3},
    "top": {4, 5, 6, 7},
    "left": {0, 3, 4, 7},
    "right": {1, 2, 5, 6},
    "front": {0, 1, 4, 5},
    "back": {2, 3, 6, 7},
}
SIDES = ["bottom", "top", "front", "right", "back", "left"]
TOL = Fraction(1, 10**7)  # the library's merge tolerance, as documented
NAMES = ["pa", "pb", "pc", "pd", "Zed", "a1"]

# unit cube corners in blockMesh numbering
CUBE = [(0, 0, 0), (1, 0, 0), (1, 1, 0), (0, 1, 0), (0, 0, 1), (1, 0, 1), (1, 1, 1), (0, 1, 1)]
# two generators of the 24 orientation preserving renumberings of the hexahedron
ROT_Z = [1, 2, 3, 0, 5, 6, 7, 4]
ROT_X = [3, 2, 6, 7, 0, 1, 5, 4]


def _rotations() -> List[List[int]]:
    seen = {tuple(range(8))}
    todo = [list(range(8))]
    while todo:
        p = todo.pop()
        for g in (ROT_Z, ROT_X):
            q = [p[g[i]] for i in range(8)]
            if tuple(q) not in seen:
                seen.add(tuple(q))
                todo.append(q)
    return sorted(list(s) for s in seen)


ROTS = _rotations()
assert len(ROTS) == 24


def _fr(x) -> str:
    return core.rat(x)


def _jit(rng: random.Random) -> List[Fraction]:
    """offset inside a cluster: every coordinate in {0, ±1e-8, ±2e-8}; any two members of a cluster are
    closer than 4e-8·√3 < 0.7·TOL"""
    if rng.random() < 0.5:
        return [Fraction(0)] * 3
    return [Fraction(rng.choice([-2, -1, 0, 1, 2]), 10**8) for _ in range(3)]


HALF_CELL = [Fraction(5, 10**8), Fraction(12345675, 10**8), Fraction(100000015, 10**8), Fraction(-15, 10**8)]


def _scene_origin(rng: random.Random) -> Tuple[List[Fraction], str]:
    """Origin of a scene: the lattice itself, a geo-referenced one (round 2), or one whose nodes sit at odd multiples
    of TOL/2 (0.00000005, 0.12345675, 1.00000015, -0.00000015) in some coordinates, so that the members of a cluster
    (jitter of +-1e-8, +-2e-8) lie on both sides of the boundaries of a TOL-sized grid (round 3)."""
    r = rng.random()
    if r < 0.15:
        return [Fraction(500000), Fraction(4200000), Fraction(100)], "far"
    if r < 0.40:
        return [rng.choice(HALF_CELL) if rng.random() < 0.7 else Fraction(0) for _ in range(3)], "halfcell"
    return [Fraction(0)] * 3, ""


# the 12 edges of the hexahedron (blockMesh numbering), for collapsing
HEX_EDGES = [(0, 1), (1, 2), (2, 3), (3, 0), (4, 5), (5, 6), (6, 7), (7, 4), (0, 4), (1, 5), (2, 6), (3, 7)]


def _collapse(rng: random.Random, pts: List[List[Fraction]]) -> List[List[Fraction]]:
    """Collapsed block (prism / wedge / pyramid, which blockMesh supports): one or two edges of the hexahedron are
    shrunk to a point, i.e. corners of ONE operation coincide (identically or up to a jitter inside the tolerance)."""
    pts = [list(p) for p in pts]
    kind = rng.random()
    if kind < 0.5:
        edges = [rng.choice(HEX_EDGES)]
    elif kind < 0.85:
        # a prism: two opposite edges of one face, e.g. 4=5 and 7=6
        edges = rng.choice([[(4, 5), (7, 6)], [(0, 1), (3, 2)], [(0, 4), (1, 5)], [(1, 2), (5, 6)], [(3, 7), (2, 6)]])
    else:
        # a pyramid: the whole top face is one point
        edges = [(4, 5), (4, 6), (4, 7)]
    for a, b in edges:
        if rng.random() < 0.5:
            a, b = b, a
        pts[b] = [c + j for c, j in zip(pts[a], _jit(rng))]
    return pts


def gen_chain(rng: random.Random) -> dict:
    """A column of 2..4 cells built the usual way: every next operation is created on the top Face *object* of the
    previous one (shared Point objects, shared patch name of that face), plus 0..2 free-standing neighbours; sides carry
    slave names, so that corners on a shared face often have different slave-patch sets in the two operations."""
    n = rng.randint(2, 4)
    origin, tag = _scene_origin(rng)
    pool = rng.sample(NAMES, rng.randint(2, 3))
    ops = []
    for k in range(n):
        pts = [[Fraction(float(Fraction(CUBE[c][a] + (k if a == 2 else 0)) + origin[a])) for a in range(3)] for c in range(8)]
        patches = {side: rng.choice(pool) for side in ["front", "right", "back", "left"] if rng.random() < 0.45}
        if rng.random() < 0.3:
            patches["top"] = rng.choice(pool)  # the face shared with the next operation (its bottom)
        if k == 0 and rng.random() < 0.3:
            patches["bottom"] = rng.choice(pool)
        ops.append({"points": [[str(c) for c in p] for p in pts], "patches": patches, "on_top_of": k - 1 if k > 0 else None})
    for _ in range(rng.randint(0, 2)):
        k = rng.randrange(n)
        dx = rng.choice([-1, 1])
        pts = [[Fraction(float(Fraction(CUBE[c][a] + (k if a == 2 else 0) + (dx if a == 0 else 0)) + origin[a] + j)) for a, j in zip(range(3), _jit(rng))] for c in range(8)]
        patches = {side: rng.choice(NAMES) for side in SIDES if rng.random() < 0.4}
        ops.append({"points": [[str(c) for c in p] for p in pts], "patches": patches, "on_top_of": None})
    order = list(range(len(ops)))
    if rng.random() < 0.5:
        # any insertion order (the operation objects exist before they are added)
        rng.shuffle(order)
    masters = [x for x in NAMES if x not in pool]
    merged = [[rng.choice(masters), sl] for sl in pool if rng.random() < 0.8]
    return {"kind": "asm", "ops": ops, "merged": merged, "order": order, "chain": True, "tag": tag}


def gen_asm(rng: random.Random, n_ops: Optional[int] = None) -> dict:
    """Cells of a small lattice (random renumbering of the corners, so that any sides touch), jitter inside the
    tolerance at shared corners, some cells displaced by 1e-5 (= 100 TOL: near, but a different point), some 'wild'
    operations made of arbitrary lattice nodes; patches on random sides; 0..3 merged pairs."""
    n = n_ops or rng.randint(1, 7)
    # 15%: a geo-referenced scene (UTM-like coordinates): neighbouring nodes are 1 apart at |x| ~ 5e5, |y| ~ 4.2e6,
    # i.e. much closer than 1e-5 * |coordinate| (a relative tolerance would merge them), still >= 1e7 TOL apart
    origin, tag = _scene_origin(rng)
    # 25% of the scenes contain collapsed blocks (coincident corners inside one operation)
    collapsed_scene = rng.random() < 0.25
    dims = rng.choice([(2, 1, 1), (2, 2, 1), (3, 1, 1), (2, 2, 2), (3, 2, 1)])
    cells = [(i, j, k) for i in range(dims[0]) for j in range(dims[1]) for k in range(dims[2])]
    rng.shuffle(cells)
    names = rng.sample(NAMES, rng.randint(2, 5))
    ops = []
    for o in range(n):
        wild = rng.random() < 0.12
        if wild:
            nodes = [(i, j, k) for i in range(dims[0] + 1) for j in range(dims[1] + 1) for k in range(dims[2] + 1)]
            pts = [list(map(Fraction, p)) for p in rng.sample(nodes, 8)]
        else:
            cell = cells[o % len(cells)] if rng.random() < 0.9 else rng.choice(cells)
            rot = rng.choice(ROTS)
            pts = [[Fraction(cell[a] + CUBE[rot[c]][a]) for a in range(3)] for c in range(8)]
        shift = [Fraction(0)] * 3
        if rng.random() < 0.15:
            shift[rng.randrange(3)] = Fraction(rng.choice([-1, 1]), 10**5)
        collapsed = collapsed_scene and rng.random() < 0.5
        if collapsed:
            pts = _collapse(rng, pts)
        # the float64 nearest to origin + offset is what the implementation sees; keep it exactly
        pts = [[Fraction(float(c + s + j + o)) for c, s, j, o in zip(p, shift, ([Fraction(0)] * 3 if collapsed else _jit(rng)), origin)] for p in pts]
        patches: Dict[str, str] = {}
        for side in SIDES:
            if rng.random() < 0.45:
                patches[side] = rng.choice(names)
        ops.append({"points": [[str(c) for c in p] for p in pts], "patches": patches})
    merged = []
    for _ in range(rng.choice([0, 1, 1, 2, 2, 3])):
        m, s = rng.sample(names, 2)
        merged.append([m, s])
    return {"kind": "asm", "ops": ops, "merged": merged, "far": tag == "far", "tag": tag, "collapsed": collapsed_scene}


def gen_hist(rng: random.Random) -> dict:
    """A history of Mesh calls: 2..4 cells in a row whose interfaces carry master/slave names, operations added
    and pairs merged at different times, the slave set queried in between, clear() and re-assembly."""
    n = rng.randint(2, 4)
    origin, tag = _scene_origin(rng)
    far = tag == "far"
    ops = []
    pairs = []
    for o in range(n):
        rot = rng.choice(ROTS) if rng.random() < 0.25 else list(range(8))
        pts = [[Fraction(float(Fraction((o if a == 0 else 0) + CUBE[rot[c]][a]) + origin[a])) for a in range(3)] for c in range(8)]
        patches: Dict[str, str] = {}
        if o > 0 and rng.random() < 0.8:
            patches["left"] = f"s{o}"
        if o < n - 1 and rng.random() < 0.8:
            patches["right"] = f"m{o + 1}"
        for side in ("top", "bottom", "front", "back"):
            if rng.random() < 0.25:
                patches[side] = rng.choice(["pa", "pb", f"s{rng.randint(1, n)}"])
        ops.append({"points": [[str(c) for c in p] for p in pts], "patches": patches})
    for i in range(1, n):
        if rng.random() < 0.85:
            pairs.append([f"m{i}", f"s{i}"])
    if rng.random() < 0.3:
        pairs.append(["pa", "pb"])
    rng.shuffle(pairs)
    # distribute adds and merges over 2..3 phases; every phase ends with assemble
    phases = rng.randint(2, 3)
    steps: List[list] = []
    add_phase = [0 if rng.random() < 0.7 else rng.randrange(phases) for _ in ops]
    add_phase[0] = 0
    merge_phase = [rng.randrange(phases) for _ in pairs]
    for ph in range(phases):
        if ph > 0:
            if rng.random() < 0.5:
                steps.append(["query", rng.choice(["s1", "pb", "m1"])])
            steps.append(["clear"])
        todo = [["add", i] for i, a in enumerate(add_phase) if a == ph] + [["merge", *pairs[i]] for i, m in enumerate(merge_phase) if m == ph]
        if ph > 0:
            rng.shuffle(todo)
        steps += todo
        if rng.random() < 0.3:
            steps.append(["query", rng.choice(["s1", "s2", "pa"])])
        steps.append(["assemble"])
    return {"kind": "hist", "ops": ops, "steps": steps, "far": far, "tag": tag}


def gen_asm_dense(rng: random.Random) -> dict:
    """Neighbouring cells whose sides nearly all carry one of 2..3 patch names that are all slaves: most shared
    corners are touched by two or three slave patches, often by the same ones on both blocks."""
    n = rng.randint(2, 4)
    pool = rng.sample(NAMES, rng.randint(2, 3))
    cells = [(i, j, 0) for i in range(2) for j in range(2)]
    origin, tag = _scene_origin(rng)
    ops = []
    for o in range(n):
        rot = rng.choice(ROTS) if rng.random() < 0.5 else list(range(8))
        pts = [[Fraction(float(Fraction(cells[o][a] + CUBE[rot[c]][a]) + j + origin[a])) for a, j in zip(range(3), _jit(rng))] for c in range(8)]
        patches = {side: rng.choice(pool) for side in SIDES if rng.random() < 0.85}
        ops.append({"points": [[str(c) for c in p] for p in pts], "patches": patches})
    masters = [x for x in NAMES if x not in pool]
    merged = [[rng.choice(masters), s] for s in pool]
    rng.shuffle(merged)
    return {"kind": "asm", "ops": ops, "merged": merged, "tag": tag}


def gen_adds(rng: random.Random) -> dict:
    """Direct `VertexList.add` sequences: lists (unsorted, with repetitions) and `None`."""
    nodes = [[Fraction(i), Fraction(j), Fraction(0)] for i in range(2) for j in range(2)]
    calls = []
    for _ in range(rng.randint(1, 10)):
        p = [c + j for c, j in zip(rng.choice(nodes), _jit(rng))]
        if rng.random() < 0.35:
            s = None
        else:
            s = [rng.choice(NAMES[:4]) for _ in range(rng.choice([0, 0, 1, 1, 2, 3]))]
        calls.append({"point": [str(c) for c in p], "slaves": s})
    return {"kind": "adds", "calls": calls}


def gen_near_chain(rng: random.Random) -> dict:
    """Direct `VertexList.add` sequences on NEAR-CHAINS: points 0.6 TOL apart along a line (neighbours within the
    tolerance, second neighbours 1.2 TOL apart: closeness is not transitive there), in random insertion order, with
    slave lists from a small pool. Distances are multiples of ~0.6 TOL, so no comparison comes near the threshold.
    The clustering assumption of the key theorems does not hold here: the oracle states what `add` guarantees
    without it (first-match semantics, T_C05_first_match / _separated)."""
    step = rng.choice([
        [Fraction(6, 10**8), Fraction(0), Fraction(0)],
        [Fraction(0), Fraction(6, 10**8), Fraction(0)],
        [Fraction(0), Fraction(0), Fraction(-6, 10**8)],
        [Fraction(35, 10**9), Fraction(35, 10**9), Fraction(35, 10**9)],
    ])
    origin = rng.choice([[Fraction(0)] * 3, [Fraction(1), Fraction(2), Fraction(-3)], [Fraction(1, 8), Fraction(0), Fraction(5, 4)]])
    n = rng.randint(3, 6)
    pool = rng.choice([[[]], [[], ["pa"]], [["pa"], ["pa", "pb"], ["pb", "pa"]]])
    calls = []
    ks = list(range(n)) + [rng.randrange(n) for _ in range(rng.randint(0, 3))]
    rng.shuffle(ks)
    for k in ks:
        p = [o + k * d for o, d in zip(origin, step)]
        calls.append({"point": [str(c) for c in p], "slaves": list(rng.choice(pool))})
    if rng.random() < 0.4:  # a far point in between
        calls.insert(rng.randrange(len(calls) + 1), {"point": [str(o + 1) for o in origin], "slaves": list(rng.choice(pool))})
    return {"kind": "adds", "calls": calls, "nearchain": True}


def gen_shape(rng: random.Random) -> dict:
    """Built-in shapes next to each other (positions computed by the library), patches through the shape API."""
    return {
        "kind": "shape",
        "what": rng.choice(["cyl-cyl", "cyl-ring", "box-grid", "hemi", "cyl-merged"]),
        "r": rng.choice([1, 2]),
        "order": rng.random() < 0.5,
    }


class C05(core.Check):
    pid = "C05"
    props_module = "CBV.Props.C05"
    workers = 1
    rule = (
        "25% of the asm scenes contain collapsed blocks (an edge, two opposite edges of a face or the whole top face shrunk "
        "to a point: coincident corners inside one operation). "
        "chain: columns of 2..4 cells where every next operation is built on the top Face object of the previous one "
        "(shared Point objects) plus free neighbours, slave names on the sides; 25% of all scenes shifted so that nodes sit at "
        "odd multiples of TOL/2 (coincident corners straddle the boundaries of a TOL-sized grid). "
        "hist: histories of Mesh calls on 2..4 cells in a row (operations added and pairs merged in 2..3 phases, is_slave "
        "queries, clear() and re-assembly; every assembly compared and judged with the pairs declared so far); 15% of the asm "
        "and hist cases geo-referenced (origin 5e5 / 4.2e6 / 100, nodes 1 apart). "
        "asm: 1..7 operations on cells of a small lattice (random one of the 24 corner renumberings; 12% 'wild' "
        "operations on 8 arbitrary lattice nodes), shared corners jittered inside the tolerance (cluster diameter "
        "< 0.7 TOL), 15% of the operations displaced by 1e-5 = 100 TOL (near but distinct), patch names from a pool on "
        "random sides, 0..3 merged pairs (a name may be master and slave of different pairs, several pairs may meet at a "
        "point); thorough: additionally all insertion orders of assemblies with <= 4 operations. adds: direct "
        "VertexList.add sequences with unsorted/repeated name lists and None. shape: built-in shapes chained together. "
        "Non-trivial = at least one shared position or one slave patch; distinct = different canonical case."
    )
    assumptions = [
        "closeness `norm(p - q) < TOL` is an equivalence on the points of one assembly (clusters of diameter < TOL, "
        "different clusters >= 100 TOL apart); the key theorems state this as a hypothesis, the generators respect it -- "
        "except the near-chain cases, which are judged by first-match semantics (T_C05_first_match*, no such hypothesis)",
        "float64 evaluation of the norm agrees with the exact rational evaluation away from the threshold",
        "python `sorted` on `str` = lexicographic order by code point = Lean `String` order (names are ASCII)",
    ]
    partial_note = (
        "Exact characterisation proved: two corners share a vertex iff same position class and same slave-patch set. "
        "Blocks whose slave-patch sets at a common point differ but overlap are therefore not connected there; the "
        "property text can be read either way (see notes/C05.md). Without separated clusters only first-match semantics "
        "holds (proved); the partition then depends on the insertion order (witness proved and replayed)."
    )

    # ------------------------------------------------------------------ generators
    def gen_cases(self, rng: random.Random, tier: str) -> List[dict]:
        n = 170 if tier == "quick" else 1500
        cases: List[dict] = [gen_asm(rng) for _ in range(n)]
        cases += [gen_asm_dense(rng) for _ in range(n // 5)]
        cases += [gen_hist(rng) for _ in range(n // 4)]
        cases += [gen_chain(rng) for _ in range(n // 5)]
        cases += [gen_adds(rng) for _ in range(n // 3)]
        cases += [gen_near_chain(rng) for _ in range(n // 6)]
        for what in ["cyl-cyl", "cyl-ring", "box-grid", "hemi", "cyl-merged"]:
            for order in (False, True):
                cases.append({"kind": "shape", "what": what, "r": rng.choice([1, 2]), "order": order})
        # malformed stream: ill-formed requests are answered `bad-op`, never with a default value
        for req in ["c05.asm", "c05.asm - 0,0,0|-|-|-,-,-,-", "c05.asm - 0,0,0;1,0,0;1,1,0;0,1,0;0,0,1;1,0,1;1,1,1;0,1,1|-|-|-,-,-",
                    "c05.adds 0,0|a", "c05.adds 0,0,0", "c05.corner 0,0,0;1,0,0;1,1,0;0,1,0;0,0,1;1,0,1;1,1,1;0,1,1|-|-|-,-,-,- 8", "c05.x"]:
            cases.append({"kind": "protocol", "req": req})
        if tier == "thorough":
            for _ in range(60):
                base = gen_asm(rng, rng.randint(2, 4))
                for perm in itertools.permutations(range(len(base["ops"]))):
                    cases.append({"kind": "asm", "ops": [base["ops"][i] for i in perm], "merged": base["merged"], "perm_of": True})
        else:
            for _ in range(12):
                base = gen_asm(rng, 3)
                for perm in itertools.permutations(range(3)):
                    cases.append({"kind": "asm", "ops": [base["ops"][i] for i in perm], "merged": base["merged"], "perm_of": True})
        return cases

    # ------------------------------------------------------------------ implementation
    def _build_shape(self, case: dict):
        import classy_blocks as cb

        r = case["r"]
        what = case["what"]
        merged = []
        if what == "cyl-cyl":
            a = cb.Cylinder([0, 0, 0], [1, 0, 0], [0, r, 0])
            b = cb.Cylinder.chain(a, 1)
            a.set_end_patch("pa")
            b.set_outer_patch("pb")
            ents = [a, b]
        elif what == "cyl-ring":
            a = cb.Cylinder([0, 0, 0], [1, 0, 0], [0, r, 0])
            b = cb.ExtrudedRing.expand(a, 0.5 * r)
            b.set_outer_patch("pa")
            ents = [a, b]
        elif what == "box-grid":
            ents = [cb.Box([i, j, 0], [i + 1, j + 1, r]) for i in range(2) for j in range(2)]
            ents[0].set_patch("top", "pa")
            ents[1].set_patch("top", "pa")
        elif what == "hemi":
            a = cb.Cylinder([0, 0, 0], [1, 0, 0], [0, r, 0])
            b = cb.Hemisphere.chain(a)
            b.set_outer_patch("pa")
            ents = [a, b]
        else:  # two cylinders face to face, the touching faces merged
            a = cb.Cylinder([0, 0, 0], [1, 0, 0], [0, r, 0])
            b = cb.Cylinder([1, 0, 0], [2, 0, 0], [1, r, 0])
            a.set_end_patch("pm")
            b.set_start_patch("ps")
            merged = [["pm", "ps"]]
            ents = [a, b]
        if case["order"]:
            ents.reverse()
        return ents, merged

    def run_impl(self, case: dict) -> Any:
        import numpy as np

        import classy_blocks as cb
        from classy_blocks.construct.point import Point
        from classy_blocks.lists.vertex_list import VertexList

        if case["kind"] == "protocol":
            return {"protocol": True}
        if case["kind"] == "adds":
            vl = VertexList()
            res = []
            for c in case["calls"]:
                p = Point([float(Fraction(x)) for x in c["point"]])
                s = None if c["slaves"] is None else list(c["slaves"])
                res.append(vl.add(p, s).index)
            return {
                "R": res,
                "I": [v.index for v in vl.vertices],
                "D": [[d.vertex.index, list(d.patches)] for d in vl.duplicated],
            }

        if case["kind"] == "hist":
            return self._run_hist(case)
        mesh = cb.Mesh()
        if case["kind"] == "shape":
            ents, merged = self._build_shape(case)
        else:
            ents = []
            merged = case["merged"]
            for o in case["ops"]:
                pts = [[float(Fraction(x)) for x in p] for p in o["points"]]
                if o.get("on_top_of") is not None:
                    # the usual chaining: built on the top Face object of the previous operation (shared Points)
                    op = cb.Loft(ents[o["on_top_of"]].top_face, cb.Face(pts[4:]))
                else:
                    op = cb.Loft(cb.Face(pts[:4]), cb.Face(pts[4:]))
                ents.append(op)
            for o, op in zip(case["ops"], ents):
                for side, name in o["patches"].items():
                    op.set_patch(side, name)
            if "order" in case:
                ents = [ents[i] for i in case["order"]]
        for e in ents:
            mesh.add(e)
        for m, s in merged:
            mesh.merge_patches(m, s)
        # the declaration, read from the depot before assembly
        decl = []
        for op in mesh.operations:
            decl.append(
                {
                    "points": [[_fr(float(x)) for x in p.position] for p in op.points],
                    "patches": {
                        **({"bottom": op.bottom_face.patch_name} if op.bottom_face.patch_name is not None else {}),
                        **({"top": op.top_face.patch_name} if op.top_face.patch_name is not None else {}),
                        **{s: n for s, n in zip(["front", "right", "back", "left"], op.side_patches) if n is not None},
                    },
                }
            )
        with warnings.catch_warnings():
            warnings.simplefilter("ignore")
            mesh.assemble()
        return {
            "decl": decl,
            "merged": [list(p) for p in merged],
            "B": [list(b.indexes) for b in mesh.blocks],
            "I": [v.index for v in mesh.vertex_list.vertices],
            "pos": [[_fr(float(x)) for x in v.position] for v in mesh.vertex_list.vertices],
            "D": [[d.vertex.index, list(d.patches)] for d in mesh.vertex_list.duplicated],
            "text": mesh.vertex_list.description,
        }

    def _run_hist(self, case: dict) -> Any:
        import classy_blocks as cb

        mesh = cb.Mesh()
        snaps = []
        with warnings.catch_warnings():
            warnings.simplefilter("ignore")
            for st in case["steps"]:
                if st[0] == "add":
                    o = case["ops"][st[1]]
                    pts = [[float(Fraction(x)) for x in p] for p in o["points"]]
                    op = cb.Loft(cb.Face(pts[:4]), cb.Face(pts[4:]))
                    for side, name in o["patches"].items():
                        op.set_patch(side, name)
                    mesh.add(op)
                elif st[0] == "merge":
                    mesh.merge_patches(st[1], st[2])
                elif st[0] == "query":
                    mesh.patch_list.is_slave(st[1])
                elif st[0] == "clear":
                    mesh.clear()
                else:
                    mesh.assemble()
                    snaps.append(
                        {
                            "B": [list(b.indexes) for b in mesh.blocks],
                            "I": [v.index for v in mesh.vertex_list.vertices],
                            "pos": [[_fr(float(x)) for x in v.position] for v in mesh.vertex_list.vertices],
                            "D": [[d.vertex.index, list(d.patches)] for d in mesh.vertex_list.duplicated],
                            "written_pairs": [list(p) for p in mesh.patch_list.merged],
                        }
                    )
        return {"snaps": snaps}

    # ------------------------------------------------------------------ model
    @staticmethod
    def _op_req(o: dict) -> str:
        pts = ";".join(",".join(p) for p in o["points"])
        pa = o["patches"]
        return "|".join(
            [pts, pa.get("bottom", "-"), pa.get("top", "-"), ",".join(pa.get(s, "-") for s in ["front", "right", "back", "left"])]
        )

    def requests(self, case: dict, impl: Any) -> List[str]:
        if case["kind"] == "protocol":
            return [case["req"]]
        if case["kind"] == "hist":
            words = []
            for st in case["steps"]:
                if st[0] == "add":
                    o = case["ops"][st[1]]
                    words.append("A:" + self._op_req({"points": [[_fr(Fraction(x)) for x in p] for p in o["points"]], "patches": o["patches"]}))
                elif st[0] == "merge":
                    words.append(f"M:{st[1]},{st[2]}")
                else:
                    words.append({"query": "Q", "clear": "C", "assemble": "X"}[st[0]])
            return ["c05.hist " + " ".join(words)]
        if case["kind"] == "adds":
            calls = []
            for c in case["calls"]:
                p = ",".join(_fr(Fraction(x)) for x in c["point"])
                calls.append(p + "|" + ("!" if c["slaves"] is None else ",".join(c["slaves"])))
            return ["c05.adds " + " ".join(calls)]
        slaves = ",".join(s for _, s in impl["merged"]) or "-"
        return ["c05.asm " + slaves + " " + " ".join(self._op_req(o) for o in impl["decl"])]

    def compare(self, case: dict, impl: Any, model: List[str]) -> Optional[str]:
        ans = model[0]
        if case["kind"] == "protocol":
            return None if ans == "bad-op" else f"ill-formed request {case['req']!r} answered {ans[:80]!r}"
        if case["kind"] == "hist":
            if not ans.startswith("H "):
                return "unparsable model answer " + ans[:200]
            parts = ans[2:].split(" | ")
            if len(parts) != len(impl["snaps"]):
                return f"{len(impl['snaps'])} assemblies, model reports {len(parts)}"
            for k, (part, snap) in enumerate(zip(parts, impl["snaps"])):
                why = self._compare_one("asm", snap, part)
                if why:
                    return f"assembly {k} of the history: {why}"
            return None
        return self._compare_one(case["kind"], impl, ans)

    @staticmethod
    def _compare_one(kind: str, impl: Any, ans: str) -> Optional[str]:
        m = re.fullmatch(r"(?:(B|R)=(\S*) )n=(\d+) I=(\S*) D=(\S*)", ans)
        if not m:
            return "unparsable model answer " + ans[:200]
        n = int(m.group(3))
        idx = [int(x) for x in m.group(4).split("+") if x]
        dup = []
        for e in m.group(5).split(";"):
            if e:
                i, _, names = e.partition(":")
                dup.append([int(i), [x for x in names.split(",") if x]])
        if kind == "adds":
            res = json.loads(m.group(2))
            if res != impl["R"]:
                return f"vertices handed back: implementation {impl['R']}, model {res}"
        else:
            blocks = [json.loads(x) for x in m.group(2).split(";") if x]
            if blocks != impl["B"]:
                return f"Block.indexes: implementation {impl['B']}, model {blocks}"
        if n != len(impl["I"]) or idx != impl["I"]:
            return f"vertex indexes: implementation {impl['I']}, model {idx}"
        if dup != impl["D"]:
            return f"duplicated registry: implementation {impl['D']}, model {dup}"
        return None

    # ------------------------------------------------------------------ oracle
    def oracle(self, case: dict, impl: Any) -> List[dict]:
        out: List[dict] = []
        if case["kind"] == "protocol":
            return out
        if case["kind"] == "hist":
            added: List[int] = []
            pairs: List[List[str]] = []
            k = 0
            for st in case["steps"]:
                if st[0] == "add":
                    added.append(st[1])
                elif st[0] == "merge":
                    pairs.append([st[1], st[2]])
                elif st[0] == "assemble":
                    snap = impl["snaps"][k]
                    k += 1
                    decl = [{"points": [[_fr(Fraction(x)) for x in p] for p in case["ops"][i]["points"]], "patches": case["ops"][i]["patches"]} for i in added]
                    found = self._oracle_asm({"decl": decl, "merged": pairs, "B": snap["B"], "I": snap["I"], "pos": snap["pos"], "text": None})
                    for v in found:
                        v["site"] = v["site"] + ":after-reassembly" if k > 1 else v["site"]
                        v["what"] = f"assembly {k} of the history (pairs merged so far {pairs}): " + v["what"]
                    out += found
                    if snap["written_pairs"] != pairs:
                        out.append({"site": "PatchList.merge:pairs-lost", "what": f"declared {pairs}, kept {snap['written_pairs']}"})
                    if out:
                        return out
            return out
        if case["kind"] == "adds":
            if any(c["slaves"] is None for c in case["calls"]):
                return out  # the None branch is not reachable from Mesh; covered by the correspondence only
            keys = []
            for c in case["calls"]:
                # direct calls may repeat a name; the registry compares sorted lists (from Mesh the lists come from
                # sets, so the multiset is a set there)
                keys.append(([Fraction(x) for x in c["point"]], tuple(sorted(c["slaves"]))))
            if case.get("nearchain"):
                return self._check_first_match(keys, impl["R"], "VertexList.add")
            return self._check_partition(keys, impl["R"], "VertexList.add")
        return self._oracle_asm(impl)

    def _oracle_asm(self, impl: Any) -> List[dict]:
        out: List[dict] = []
        # ---- assembled mesh
        slaves = {s for _, s in impl["merged"]}
        keys = []
        flat = []
        for o, idx in zip(impl["decl"], impl["B"]):
            if len(idx) != 8:
                out.append({"site": "Mesh.assemble:block-without-8-vertices", "what": str(idx)})
                return out
            for c in range(8):
                here = {o["patches"][s] for s in BM_SIDE if c in BM_SIDE[s] and s in o["patches"]}
                keys.append(([core.parse_rat(x) for x in o["points"][c]], frozenset(here & slaves)))
                flat.append(idx[c])
        if len(impl["B"]) != len(impl["decl"]):
            out.append({"site": "Mesh.assemble:block-count", "what": f"{len(impl['B'])} blocks for {len(impl['decl'])} operations"})
            return out
        out += self._check_partition(keys, flat, "Mesh.assemble")
        # dense numbering = position in the list = position in the written section
        n = len(impl["I"])
        if impl["I"] != list(range(n)):
            out.append({"site": "VertexList.add:index-not-dense", "what": f"indexes {impl['I']}"})
        if sorted(set(flat)) != list(range(n)):
            out.append({"site": "Mesh.assemble:vertex-unused-or-out-of-range", "what": f"used {sorted(set(flat))}, listed {n}"})
        # every vertex sits where its corners are
        pos = [[core.parse_rat(x) for x in p] for p in impl["pos"]]
        for (p, _), v in zip(keys, flat):
            if 0 <= v < n and sum((a - b) ** 2 for a, b in zip(p, pos[v])) >= TOL**2:
                out.append({"site": "VertexList.add:vertex-away-from-corner", "what": f"corner at {list(map(float, p))} got vertex {v} at {list(map(float, pos[v]))}"})
                break
        # the written section
        if impl["text"] is None:
            return out
        lines = [l for l in impl["text"].split("\n")]
        if lines[:2] != ["vertices", "("] or lines[-3:] != [");", "", ""] or len(lines) != n + 5:
            out.append({"site": "VertexList.description:frame", "what": repr(impl["text"][:80])})
        else:
            for i, l in enumerate(lines[2:-3]):
                want = "\t(" + " ".join(format(Decimal(float(x)).quantize(Decimal("1e-8"), ROUND_HALF_EVEN), "f") for x in pos[i]) + f") // {i}"
                # python prints -0.00000000 for small negative numbers; Decimal does the same
                if l != want:
                    out.append({"site": "VertexList.description:line", "what": f"line {i}: {l!r}, expected {want!r}"})
                    break
        return out

    @staticmethod
    def _check_first_match(keys, got, where: str) -> List[dict]:
        """what `add(point, list)` guarantees on any points (no clustering assumed): vertices are numbered in creation
        order; a call gets a vertex within TOL of its point that was created for the same sorted list, namely the first
        such vertex; two vertices created for the same list are at least TOL apart"""
        out: List[dict] = []
        pos: Dict[int, list] = {}
        names: Dict[int, tuple] = {}

        def near(p, q):
            return sum((a - b) ** 2 for a, b in zip(p, q)) < TOL**2

        for i, ((p, s), v) in enumerate(zip(keys, got)):
            if v not in pos:
                if v != len(pos):
                    return [{"site": f"{where}:index-not-dense", "what": f"call {i} got the new vertex {v}, {len(pos)} exist"}]
                pos[v], names[v] = p, s
            if not near(p, pos[v]):
                return [{"site": f"{where}:vertex-away-from-point", "what": f"call {i} at {list(map(float, p))} got vertex {v} created at {list(map(float, pos[v]))}"}]
            if names[v] != s:
                return [{"site": f"{where}:vertex-of-another-slave-set", "what": f"call {i} with {list(s)} got vertex {v} created for {list(names[v])}"}]
            for u in range(v):
                if names[u] == s and near(p, pos[u]):
                    return [{"site": f"{where}:not-the-first-matching-vertex", "what": f"call {i} at {list(map(float, p))} {list(s)} got vertex {v}, but vertex {u} at {list(map(float, pos[u]))} matches too", "expected": f"vertex {u}"}]
        for u in pos:
            for v in pos:
                if u < v and names[u] == names[v] and near(pos[u], pos[v]):
                    return [{"site": f"{where}:two-vertices-within-tolerance", "what": f"vertices {u} and {v} for {list(names[u])} at {list(map(float, pos[u]))} / {list(map(float, pos[v]))}"}]
        return out

    @staticmethod
    def _check_partition(keys, got, where: str) -> List[dict]:
        """same vertex <=> same position (within TOL) and same slave-patch set"""
        out = []
        n = len(keys)
        for i in range(n):
            for j in range(i + 1, n):
                (p, s), (q, t) = keys[i], keys[j]
                near = sum((a - b) ** 2 for a, b in zip(p, q)) < TOL**2
                same = got[i] == got[j]
                if same and not near:
                    out.append({"site": f"{where}:distinct-points-merged", "what": f"calls {i},{j}: {list(map(float, p))} and {list(map(float, q))} share vertex {got[i]}"})
                elif near and s == t and not same:
                    out.append({"site": f"{where}:same-point-not-merged", "what": f"calls {i},{j} at {list(map(float, p))} slave sets {sorted(s)}: vertices {got[i]} and {got[j]}", "expected": "one vertex"})
                elif near and same and s != t:
                    if not s or not t:
                        site = f"{where}:slave-copy-shared-with-non-slave-corner"
                    else:
                        site = f"{where}:copies-of-different-slave-sets-shared"
                    out.append({"site": site, "what": f"calls {i},{j} at {list(map(float, p))}: slave sets {sorted(s)} / {sorted(t)} share vertex {got[i]}"})
                if out:
                    return out
        return out

    def nontrivial_key(self, case, impl):
        if not isinstance(impl, dict) or case["kind"] == "protocol":
            return None
        if case["kind"] in ("adds", "hist"):
            return json.dumps(case, sort_keys=True)
        flat = [i for b in impl.get("B", []) for i in b]
        shared = len(flat) != len(set(flat))
        if shared or any(d[1] for d in impl.get("D", [])):
            return json.dumps([impl["decl"], impl["merged"]], sort_keys=True)
        return None

    def classify(self, case, impl):
        if case["kind"] == "hist":
            n_merge_late = sum(1 for i, st in enumerate(case["steps"]) if st[0] == "merge" and any(x[0] == "assemble" for x in case["steps"][:i]))
            return f"hist:assemblies={sum(1 for st in case['steps'] if st[0] == 'assemble')}:late-merges={min(n_merge_late, 2)}" + (":" + case["tag"] if case.get("tag") else "")
        if case["kind"] == "adds" and case.get("nearchain"):
            return "adds:near-chain:vertices=" + str(min(len(impl.get("I", [])), 4))
        if case["kind"] != "asm":
            return case["kind"] + (":" + case["what"] if "what" in case else "")
        nd = sum(1 for d in impl.get("D", []) if d[1])
        multi = sum(1 for d in impl.get("D", []) if len(d[1]) > 1)
        if case.get("collapsed"):
            return "asm:collapsed-blocks" + (":" + case["tag"] if case.get("tag") else "")
        if case.get("chain"):
            return "asm:chain-on-shared-faces" + (":" + case["tag"] if case.get("tag") else "")
        if case.get("far"):
            return f"asm:far-origin:merged={len(case['merged'])}"
        if case.get("tag") == "halfcell":
            return f"asm:halfcell:merged={min(len(case['merged']), 1)}"
        return f"asm:ops={len(case['ops'])}:merged={len(case['merged'])}:slavecopies={'0' if nd == 0 else '1+'}:multi={'y' if multi else 'n'}"


if __name__ == "__main__":
    sys.exit(core.main(C05()))
