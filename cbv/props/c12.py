"""C12 — assemble / clear / backport / delete / write round trips of `Mesh`.

Cases are random histories over {add, delete, assemble, clear, backport, move / translate vertex, modify_patch,
set_default_patch, merge_patches, add_geometry, write} on 1..5 single-cell hexahedra of a lattice (random
corner numbering, patches, projections, arc / spline / polyLine / project edges, count-only chops that agree
on shared edges).  The model works on the exact rational coordinates and prints them with `%.8f`.

* correspondence: the history is replayed by the Lean state machine `CBV.C12` (c12.hist); every write
  (canonical form of the file, or the error) and every backport (corner points of all operations) is compared;
* oracle (direct, no model): (O1) a second write / a write after clear+assemble / after a backport without
  moved vertices reproduces the previous file byte for byte; (O2) whenever the mesh is in sync with its depot
  the file equals the file of a *freshly built equivalent mesh* (patch entries compared as a set, everything
  else byte for byte); (O3) backport moves exactly the corners that sat on a moved vertex, also with deleted
  operations; (O4) types/settings set by modify_patch are in the file.
"""

from __future__ import annotations

import itertools
import json
import os
import random
import re
import sys
import tempfile
import warnings
from typing import Any, Dict, List, Optional, Tuple

from .. import core

SIDES = ["bottom", "top", "left", "right", "front", "back"]
# blockMesh numbering of the corners of a hexahedron in local coordinates
LOCAL = [(0, 0, 0), (1, 0, 0), (1, 1, 0), (0, 1, 0), (0, 0, 1), (1, 0, 1), (1, 1, 1), (0, 1, 1)]
SPACING = (1.0, 1.25, 0.75)
# slots of the 12 edges as the user addresses them: bottom face edge i, top face edge i, side edge i
SLOTS = [f"b{i}" for i in range(4)] + [f"t{i}" for i in range(4)] + [f"s{i}" for i in range(4)]
SLOT_CORNERS = {**{f"b{i}": (i, (i + 1) % 4) for i in range(4)}, **{f"t{i}": (i + 4, (i + 1) % 4 + 4) for i in range(4)},
                **{f"s{i}": (i, i + 4) for i in range(4)}}


def _rotations() -> List[Tuple[Tuple[int, int], ...]]:
    """The 24 proper rotations of the cube as (axis, sign) per local axis."""
    out = []
    for perm in itertools.permutations(range(3)):
        for signs in itertools.product((1, -1), repeat=3):
            # determinant of the signed permutation matrix
            inv = sum(1 for a in range(3) for b in range(a + 1, 3) if perm[a] > perm[b])
            det = (-1) ** inv * signs[0] * signs[1] * signs[2]
            if det == 1:
                out.append(tuple((perm[a], signs[a]) for a in range(3)))
    return out


ROT = _rotations()


def fmt(p) -> str:
    """the way a coordinate triple is printed into blockMeshDict (`%.8f`, stated here independently)"""
    return "(%.8f %.8f %.8f)" % (p[0] + 0.0, p[1] + 0.0, p[2] + 0.0)


def corner_positions(op: dict) -> List[List[float]]:
    """Corner points of a lattice cell under one of the 24 numberings, in the frame of the model
    (`frame` = [origin, scale]: some models are drawn in millimetres far from the origin)."""
    cell, rot = op["cell"], ROT[op["rot"]]
    origin, scale = op.get("frame", [[0.0, 0.0, 0.0], 1.0])
    pts = []
    for lc in LOCAL:
        g = [0, 0, 0]
        for a in range(3):
            axis, sign = rot[a]
            g[axis] = lc[a] if sign == 1 else 1 - lc[a]
        pts.append([origin[d] + scale * (cell[d] + g[d]) * SPACING[d] for d in range(3)])
    return pts


def local_chops(op: dict, counts: dict) -> List[List[List]]:
    """Chops per local axis from the global per-direction, per-interval chops (reversed when the local axis
    runs against the global direction, so that shared edges agree)."""
    rot = ROT[op["rot"]]
    out = []
    for a in range(3):
        axis, sign = rot[a]
        ch = counts[str(axis)][op["cell"][axis]]
        out.append(list(ch) if sign == 1 else list(reversed(ch)))
    return out


def entities_of(case: dict) -> List[List[int]]:
    """depot entities as lists of operation indices (older cases: every operation is an entity of its own)"""
    return case.get("entities") or [[i] for i in range(len(case["ops"]))]


def make_group(ops: list):
    """A depot entity holding several operations: a minimal `Shape`."""
    import numpy as np

    from classy_blocks.construct.shape import Shape

    class OpGroup(Shape):
        def __init__(self, operations):
            self._operations = list(operations)

        @property
        def operations(self):
            return self._operations

        @property
        def grid(self):
            return [self._operations]

        @property
        def center(self):
            return np.average([o.center for o in self._operations], axis=0)

    return OpGroup(ops)


# ----------------------------------------------------------------------------------------- building real operations
def build_op(spec: dict, positions: List[List[float]], chops: List[List[List]]):
    import classy_blocks as cb

    op = cb.Loft(cb.Face(positions[:4]), cb.Face(positions[4:]))
    for side, name in spec.get("patches", {}).items():
        op.set_patch(side, name)
    for side, label in spec.get("proj", {}).items():
        op.project_side(side, label)
    for c, labels in spec.get("cproj", {}).items():
        for l in labels:
            op.project_corner(int(c), l)
    for slot, point in spec.get("arcs", {}).items():
        i = int(slot[1])
        if slot[0] == "b":
            op.bottom_face.add_edge(i, cb.Arc(point))
        elif slot[0] == "t":
            op.top_face.add_edge(i, cb.Arc(point))
        else:
            op.add_side_edge(i, cb.Arc(point))
    for slot, (kind, data) in spec.get("curved", {}).items():
        # spline / polyLine through points, an edge projected to surfaces
        edge = {"spline": cb.Spline, "polyLine": cb.PolyLine, "project": cb.Project}[kind](data)
        i = int(slot[1])
        if slot[0] == "b":
            op.bottom_face.add_edge(i, edge)
        elif slot[0] == "t":
            op.top_face.add_edge(i, edge)
        else:
            op.add_side_edge(i, edge)
    if spec.get("bad"):
        # edge data `factory.create` raises on when the mesh is assembled (an arc of angle 0)
        slot = spec["bad"]
        edge = cb.Angle(0.0, [0.0, 0.0, 1.0])
        i = int(slot[1])
        if slot[0] == "b":
            op.bottom_face.add_edge(i, edge)
        elif slot[0] == "t":
            op.top_face.add_edge(i, edge)
        else:
            op.add_side_edge(i, edge)
    for axis, chs in enumerate(chops):
        for ratio, count in chs:
            if isinstance(count, dict):
                # a chop whose cell count follows from cell sizes, i.e. from the length of the edges at the time of grading
                op.chop(axis, length_ratio=ratio, **count)
            else:
                op.chop(axis, count=count, length_ratio=ratio)
    if spec.get("zone"):
        op.set_cell_zone(spec["zone"])
    return op


# ----------------------------------------------------------------------------------------- parsing blockMeshDict
def _section(text: str, name: str, close: str = ");") -> List[str]:
    m = re.search(r"^" + name + r"\n[({]\n(.*?)^" + re.escape(close) + r"\n", text, re.S | re.M)
    if not m:
        return []
    return [l for l in m.group(1).split("\n") if l.strip()]


def _split_top(s: str) -> List[str]:
    """splits at spaces outside parentheses"""
    out, depth, cur = [], 0, ""
    for ch in s:
        if ch == "(":
            depth += 1
        if ch == ")":
            depth -= 1
        if ch == " " and depth == 0:
            if cur:
                out.append(cur)
            cur = ""
        else:
            cur += ch
    if cur:
        out.append(cur)
    return out


def parse_file(text: str) -> dict:
    """The sections of a blockMeshDict as lists of plain entries."""
    res: Dict[str, Any] = {}
    geo: List[list] = []
    for l in _section(text, "geometry", "};"):
        if l.startswith("\t\t"):
            geo[-1][1].append(l.strip().rstrip(";"))
        elif l.strip() not in ("{", "}"):
            geo.append([l.strip(), []])
    res["geometry"] = geo
    verts = []
    for l in _section(text, "vertices"):
        m = re.fullmatch(r"\t(project )?(\([^)]*\))(?: \(([^)]*)\))? // (\d+)", l)
        if not m:
            raise ValueError("vertex line: " + repr(l))
        verts.append((m.group(2), m.group(3).split(" ") if m.group(3) else []))
        if int(m.group(4)) != len(verts) - 1:
            raise ValueError("vertex index comment out of order: " + repr(l))
    res["vertices"] = verts
    blocks = []
    for n, l in enumerate(_section(text, "blocks")):
        m = re.fullmatch(r"\thex \( ([\d ]+) \) (\S*) \( ([\d ]+) \) (simpleGrading|edgeGrading) \( (.*) \) // (\d+) ", l)
        if not m:
            raise ValueError("block line: " + repr(l))
        if int(m.group(6)) != n:
            raise ValueError("block index comment out of order")
        blocks.append(
            {
                "verts": [int(x) for x in m.group(1).split()],
                "zone": m.group(2),
                "counts": [int(x) for x in m.group(3).split()],
                "kind": "simple" if m.group(4) == "simpleGrading" else "edge",
                "grading": [g.replace(" ", "_") for g in _split_top(m.group(5))],
            }
        )
    res["blocks"] = blocks
    edges = []
    for l in _section(text, "edges"):
        m = re.fullmatch(r"\t(\w+) (\d+) (\d+) (.*)", l)
        if not m:
            raise ValueError("edge line: " + repr(l))
        edges.append((m.group(1), int(m.group(2)), int(m.group(3)), m.group(4)))
    res["edges"] = edges
    faces = []
    for l in _section(text, "faces"):
        m = re.fullmatch(r"\tproject \(([\d ]+)\) (\S+)", l)
        if not m:
            raise ValueError("face line: " + repr(l))
        faces.append(([int(x) for x in m.group(1).split()], m.group(2)))
    res["faces"] = faces
    patches = []
    lines = _section(text, "boundary")
    i = 0
    while i < len(lines):
        name = lines[i].strip()
        assert lines[i + 1].strip() == "{", lines[i + 1]
        j = i + 2
        kind, settings, sides = None, [], []
        while lines[j].strip() != "faces":
            s = lines[j].strip().rstrip(";")
            if kind is None:
                assert s.startswith("type "), s
                kind = s[5:]
            else:
                settings.append(s)
            j += 1
        assert lines[j + 1].strip() == "(", lines[j + 1]
        j += 2
        while lines[j].strip() != ");":
            sides.append([int(x) for x in lines[j].strip()[1:-1].split()])
            j += 1
        assert lines[j + 1].strip() == "}", lines[j + 1]
        patches.append({"name": name, "kind": kind, "settings": settings, "sides": sides})
        i = j + 2
    res["patches"] = patches
    m = re.search(r"^defaultPatch\n\{\n\tname (\S+);\n\ttype (\S+);\n\}\n", text, re.M)
    res["default"] = [m.group(1), m.group(2)] if m else None
    res["merged"] = [l.strip()[1:-1].split(" ") for l in _section(text, "mergePatchPairs")]
    return res


class C12(core.Check):
    pid = "C12"
    props_module = "CBV.Props.C12"
    workers = 8
    rule = (
        "a case is a history (quick: 4..14 calls, thorough: up to 20) over add / delete / assemble / clear / backport / "
        "move vertex / modify_patch / set_default_patch / merge_patches / write on 1..5 single-cell hexahedra of a lattice "
        "(random one of the 24 corner numberings, patch names on 0..3 sides, side/corner projections, arc edges, a cell zone, "
        "one or two count-only chops per axis that agree on shared edges); a stream of single hexahedra with size-based chops "
        "(start_size / end_size / c2c_expansion) that are written, dragged at corners and written again (oracle only); a separate stream holds rejected calls "
        "(backport/write of a mesh without blocks, an operation without chops). Non-trivial = the history contains at "
        "least one successful write; distinct = different history or model."
    )
    assumptions = [
        "points are exact rational coordinates; same vertex iff equal coordinates: points closer than TOL are sent as one triple, distinct points of a case are at least 1e-3 apart (TOL = 1e-7)",
        "every operation carries chops on all three axes (count-only); propagation between blocks is C01/C02/C04",
        "python list/OrderedDict/set semantics of the modelled methods are validated by correspondence, not verified",
        "arc edges of the cases are valid (end points distinct, not collinear)",
    ]
    partial_note = (
        "theorems are about the state machine CBV.C12 (rational coordinates with %.8f rendering, arc / spline / polyLine / project edges, "
        "entities, geometry list, statements of clear / backport / write tied to the source by ast); vertex identity is exact equality "
        "of coordinates (implementation: within TOL; equal on separated points by T_C12_tol_assemble), chops are count-only on every axis, origin / angle / curve edges, size-based or "
        "graded chops and propagation are outside the model and only covered by the byte-for-byte oracle on the generated "
        "histories; an exception inside assemble() is modelled for invalid edge data only"
    )

    # ------------------------------------------------------------------ generators
    def _model(self, rng: random.Random, n_ops: int) -> dict:
        cells = [(0, 0, 0)]
        while len(cells) < n_ops:
            base = rng.choice(cells)
            d = rng.randrange(3)
            c = list(base)
            c[d] += rng.choice((1, 1, -1))
            if min(c) < 0 or max(c) > 2 or tuple(c) in cells:
                continue
            cells.append(tuple(c))
        names = ["pa", "pb", "pc", "pd"]
        # a third of the models is drawn large and far from the origin (e.g. millimetres at x = 1000)
        frame = [[0.0, 0.0, 0.0], 1.0]
        if rng.random() < 0.35:
            frame = [[rng.choice([1000.0, -2500.0, 700.0]), rng.choice([0.0, 300.0]), rng.choice([0.0, -1200.0])], 100.0]
        counts = {}
        for d in range(3):
            per = []
            for _ in range(3):
                if rng.random() < 0.25:
                    per.append([[0.5, rng.randint(1, 4)], [0.5, rng.randint(1, 4)]])
                else:
                    per.append([[1.0, rng.randint(1, 5)]])
            counts[str(d)] = per
        ops = []
        for i, cell in enumerate(cells):
            spec: Dict[str, Any] = {"id": i, "cell": list(cell), "rot": rng.randrange(24), "frame": frame}
            k = rng.choice((0, 1, 1, 2, 3))
            spec["patches"] = {s: rng.choice(names) for s in rng.sample(SIDES, k)}
            if rng.random() < 0.3:
                spec["proj"] = {s: rng.choice(["g0", "g1"]) for s in rng.sample(SIDES, rng.randint(1, 2))}
            if rng.random() < 0.25:
                spec["cproj"] = {str(rng.randrange(8)): rng.sample(["g0", "g1", "g2"], rng.randint(1, 2))}
            if rng.random() < 0.4:
                arcs = {}
                pos = corner_positions(spec)
                for slot in rng.sample(SLOTS, rng.randint(1, 3)):
                    a, b = SLOT_CORNERS[slot]
                    mid = [(pos[a][d] + pos[b][d]) / 2 for d in range(3)]
                    # push the mid point off the chord along a direction the edge does not run in
                    along = max(range(3), key=lambda d: abs(pos[a][d] - pos[b][d]))
                    off = (along + 1 + rng.randrange(2)) % 3
                    mid[off] += frame[1] * (rng.choice((-1, 1)) * (0.0625 + 0.015625 * rng.randrange(4)) + 0.001 * (i + 1))
                    arcs[slot] = [round(x, 6) for x in mid]
                spec["arcs"] = arcs
            if rng.random() < 0.3:
                # the other kinds of curved edges whose written form does not depend on the end points
                curved = {}
                pos = corner_positions(spec)
                free = [sl for sl in SLOTS if sl not in spec.get("arcs", {})]
                for slot in rng.sample(free, rng.randint(1, 2)):
                    kind = rng.choice(["spline", "polyLine", "project"])
                    if kind == "project":
                        curved[slot] = [kind, rng.sample(["g0", "g1", "g2"], rng.randint(1, 2))]
                        continue
                    a, b = SLOT_CORNERS[slot]
                    along = max(range(3), key=lambda d: abs(pos[a][d] - pos[b][d]))
                    off = (along + 1 + rng.randrange(2)) % 3
                    pts = []
                    n_pts = rng.randint(2, 3)
                    for k in range(n_pts):
                        t = (k + 1) / (n_pts + 1)
                        q = [pos[a][d] + t * (pos[b][d] - pos[a][d]) for d in range(3)]
                        q[off] += frame[1] * (0.03125 * (1 + k % 2) + 0.001 * (i + 1))
                        pts.append([round(x, 6) for x in q])
                    curved[slot] = [kind, pts]
                spec["curved"] = curved
            if rng.random() < 0.2:
                spec["zone"] = rng.choice(["z1", "z2"])
            ops.append(spec)
        # depot entities: consecutive operations, alone (an Operation) or grouped (a Shape holding several operations)
        entities: List[List[int]] = []
        i = 0
        while i < n_ops:
            k = 1 if rng.random() < 0.5 else rng.randint(2, 4)
            entities.append(list(range(i, min(n_ops, i + k))))
            i += k
        return {"ops": ops, "counts": counts, "entities": entities, "frame": frame}

    def _history(self, rng: random.Random, model: dict, max_len: int) -> List[list]:
        ents = model["entities"]
        origin, scale = model["frame"]
        names = ["pa", "pb", "pc", "pd", "px"]
        steps: List[list] = []
        added: List[int] = []  # operations in the depot
        n_ent = 0  # entities added so far
        move_no = 0
        first = rng.randint(1, len(ents))
        for _ in range(first):
            steps.append(["add", n_ent])
            added += ents[n_ent]
            n_ent += 1
        length = rng.randint(4, max_len)
        while len(steps) < length:
            r = rng.random()
            if r < 0.08 and n_ent < len(ents):
                steps.append(["add", n_ent])
                added += ents[n_ent]
                n_ent += 1
            elif r < 0.10 and added:
                singles = [e for e in range(n_ent) if len(ents[e]) == 1]
                if singles:
                    steps.append(["add", rng.choice(singles)])  # the same object once more
            elif r < 0.19 and added:
                if n_ent < len(ents) and rng.random() < 0.2:
                    # an operation of an entity that is added later: add() and delete() only collect input for assemble()
                    steps.append(["del", rng.choice(ents[rng.randrange(n_ent, len(ents))])])
                else:
                    steps.append(["del", rng.choice(added)])
            elif r < 0.27:
                steps.append(["asm"])
            elif r < 0.37:
                steps.append(["clr"])
                if rng.random() < 0.7:
                    steps.append(["asm"])
            elif r < 0.47:
                steps.append(["bkp"])
            elif r < 0.52:
                move_no += 1
                p = [
                    round(rng.uniform(-0.4, 3.4) + 0.0137 * move_no, 3) + 0.0005,
                    round(rng.uniform(-0.4, 3.4), 3) + 0.0005,
                    round(rng.uniform(-0.4, 2.4), 3) + 0.0005 + 0.001 * move_no,
                ]
                steps.append(["mv", rng.randrange(1000), [round(origin[d] + scale * p[d], 6) for d in range(3)]])
                if rng.random() < 0.6:
                    steps.append(["bkp"])
            elif r < 0.545:
                # one vertex is put where another one is (the position handed over as the other vertex' numpy array),
                # then shifted from there
                move_no += 1
                r1 = rng.randrange(1000)
                steps.append(["mvto", r1, rng.randrange(1000)])
                if True:  # always: two vertices of one block at the same place would give an edge of length zero (no grading)
                    steps.append(["tr", r1, [round(scale * (0.11 + 0.013 * move_no), 6), round(-scale * 0.07, 6), round(scale * 0.05, 6)]])
                if rng.random() < 0.8:
                    steps.append(["bkp"])
            elif r < 0.57:
                # a small adjustment of one coordinate (a few thousandths, whatever the size of the model)
                move_no += 1
                delta = [0.0, 0.0, 0.0]
                delta[rng.randrange(3)] = rng.choice((-1, 1)) * (0.002 + 0.001 * (move_no % 7))
                steps.append(["nudge", rng.randrange(1000), delta])
                if rng.random() < 0.8:
                    steps.append(["bkp"])
            elif r < 0.67:
                st = rng.choice([None, None, [], ["neighbourPatch pb"], ["transform none", "k v"]])
                name = rng.choice(names)
                steps.append(["mod", name, rng.choice(["wall", "patch", "cyclic", "empty"]), st])
                if st and rng.random() < 0.5:
                    # a later call that changes the type only: by contract the settings given before stay
                    steps.append(["mod", name, rng.choice(["wall", "patch", "cyclic"]), None])
            elif r < 0.70:
                # now and then the default patch is named like a patch of the model (which may be gone by the time of writing)
                steps.append(["def", rng.choice(["dflt", "rest"] + names), rng.choice(["wall", "patch"])])
            elif r < 0.74:
                # a searchable surface added by the user (faces / corners of the cases are projected to g0..g2)
                steps.append(
                    [
                        "geo",
                        rng.choice(["g0", "g1", "g2"]),
                        rng.choice(
                            [
                                ["type sphere", "origin (0 0 0)", "radius 1.5"],
                                ["type plane", "planeType pointAndNormal", "point (0 0 0)", "normal (0 0 1)"],
                                ["type triSurfaceMesh", "file \"terrain.stl\""],
                            ]
                        ),
                    ]
                )
            elif r < 0.78:
                a, b = rng.sample(names[:4], 2)
                steps.append(["mrg", a, b])
            else:
                steps.append(["wr"])
                if rng.random() < 0.3:
                    steps.append(["wr"])
        if not any(s[0] == "wr" for s in steps[-2:]):
            steps.append(["wr"])
        return steps

    def _prop_case(self, rng: random.Random) -> dict:
        d = rng.randrange(3)  # the row runs along this direction
        n_ops = rng.randint(2, 3)
        frame = [[0.0, 0.0, 0.0], 1.0]
        counts = {}
        for g in range(3):
            per = []
            for _ in range(3):
                if g != d and rng.random() < 0.8:
                    a = rng.randint(1, 4)
                    b = a + rng.randint(1, 3)
                    r = rng.choice([0.25, 0.3, 0.5])
                    per.append([[r, a], [1.0 - r, b]] if rng.random() < 0.5 else [[r, b], [1.0 - r, a]])
                else:
                    per.append([[1.0, rng.randint(1, 5)]])
            # across the row the divisions are the same for every block
            counts[str(g)] = per if g == d else [per[0]] * 3
        ops = []
        for i in range(n_ops):
            cell = [0, 0, 0]
            cell[d] = i
            spec: Dict[str, Any] = {"id": i, "cell": cell, "rot": rng.randrange(24), "frame": frame, "patches": {}}
            if i > 0:
                rot = ROT[spec["rot"]]
                spec["unchop"] = [a for a in range(3) if rot[a][0] != d]
            if rng.random() < 0.3:
                spec["patches"] = {rng.choice(SIDES): rng.choice(["pa", "pb"])}
            ops.append(spec)
        order = list(range(n_ops))
        if rng.random() < 0.4:
            rng.shuffle(order)  # the chopped block need not be the first in the depot
        steps = [["add", e] for e in order] + [["wr"], ["wr"], ["wr"], ["clr"], ["asm"], ["wr"], ["bkp"], ["wr"], ["wr"]]
        return {"kind": "prop", "ops": ops, "counts": counts, "entities": [[i] for i in range(n_ops)], "frame": frame, "steps": steps}

    def _sized_case(self, rng: random.Random) -> dict:
        """One hexahedron whose chops are size-based on one or two axes (the cell count follows from the edge lengths when
        the mesh is graded); it is written, vertices are moved on the assembled mesh, and it is written again — without and
        with backport() / clear()+assemble() in between."""
        model = self._model(rng, 1)
        model["entities"] = [[0]]
        origin, scale = model["frame"]
        for d in rng.sample(range(3), rng.randint(1, 2)):
            k = rng.randrange(4)
            size = scale * rng.choice([0.05, 0.08, 0.125, 0.2])
            if k == 0:
                ch = [[1.0, {"start_size": size}]]
            elif k == 1:
                ch = [[1.0, {"end_size": size}]]
            elif k == 2:
                ch = [[1.0, {"start_size": size, "c2c_expansion": rng.choice([1.1, 1.2])}]]
            else:
                ch = [[0.5, {"start_size": size}], [0.5, {"end_size": size}]]
            model["counts"][str(d)] = [ch, ch, ch]
        steps: List[list] = [["add", 0], ["wr"]]
        if rng.random() < 0.4:
            steps.append(["wr"])
        for round_no in range(rng.randint(1, 2)):
            for k in range(rng.randint(1, 3)):
                # a corner is dragged outwards by 0.3 .. 1.5 cell sizes: edge lengths change by tens of per cent
                delta = [0.0, 0.0, 0.0]
                delta[rng.randrange(3)] = scale * rng.choice((-1, 1)) * (0.3 + 0.2 * rng.randrange(7) + 0.013 * (3 * round_no + k))
                steps.append(["nudge", rng.randrange(8), delta])
            steps.append(["wr"])
            r = rng.random()
            if r < 0.35:
                steps += [["bkp"], ["wr"]]
            elif r < 0.5:
                steps += [["wr"]]
        return {"kind": "sized", **model, "steps": steps}

    def _exc_case(self, rng: random.Random) -> dict:
        """One operation carries edge data `factory.create` raises on: assemble() / write() / backport() are left in the
        middle; afterwards the operation is deleted and the mesh is cleared and assembled again (recovery)."""
        model = self._model(rng, rng.randint(2, 4))
        n = len(model["ops"])
        bad = rng.randrange(n)
        spec = model["ops"][bad]
        free = [sl for sl in SLOTS if sl not in spec.get("arcs", {}) and sl not in spec.get("curved", {})]
        spec["bad"] = rng.choice(free)
        if bad > 0 and rng.random() < 0.4:
            # the invalid data sits on an edge an earlier operation has already defined (an arc): EdgeList.add finds that
            # edge first and never creates the invalid one — nothing is raised
            pos_b = corner_positions(spec)
            done = False
            for sl in free:
                ends = {fmt(pos_b[c]) for c in SLOT_CORNERS[sl]}
                for a_spec in model["ops"][:bad]:
                    if a_spec.get("bad"):
                        continue
                    pos_a = corner_positions(a_spec)
                    for sa in SLOTS:
                        if {fmt(pos_a[c]) for c in SLOT_CORNERS[sa]} == ends and sa not in a_spec.get("curved", {}):
                            c1, c2 = SLOT_CORNERS[sa]
                            mid = [(pos_a[c1][d] + pos_a[c2][d]) / 2 for d in range(3)]
                            along = max(range(3), key=lambda d: abs(pos_a[c1][d] - pos_a[c2][d]))
                            mid[(along + 1) % 3] += model["frame"][1] * 0.0703125
                            a_spec.setdefault("arcs", {})[sa] = [round(x, 6) for x in mid]
                            spec["bad"] = sl
                            done = True
                            break
                    if done:
                        break
                if done:
                    break
        ents = model["entities"]
        steps: List[list] = [["add", e] for e in range(len(ents))]
        k = rng.randrange(4)
        if k == 0:
            steps += [["asm"], ["wr"], ["del", bad], ["clr"], ["asm"], ["wr"], ["wr"]]
        elif k == 1:
            steps += [["wr"], ["wr"], ["del", bad], ["clr"], ["wr"], ["bkp"], ["wr"]]
        elif k == 2:
            steps += [["mod", "pa", "wall", ["k v"]], ["asm"], ["clr"], ["asm"], ["del", bad], ["wr"], ["clr"], ["wr"]]
        else:
            steps += [["del", bad], ["asm"], ["wr"], ["again" if False else "mv", 3, [round(model["frame"][0][d] + model["frame"][1] * (2.6 + 0.1 * d), 6) for d in range(3)]], ["bkp"], ["wr"]]
        return {"kind": "exc", **model, "steps": steps}

    def gen_cases(self, rng: random.Random, tier: str) -> List[dict]:
        n = 220 if tier == "quick" else 3000
        cases = []
        for _ in range(n):
            model = self._model(rng, rng.randint(1, 5))
            cases.append({"kind": "hist", **model, "steps": self._history(rng, model, 14 if tier == "quick" else 20)})
        # gradings handed on between blocks: a row of blocks, only the first one chopped across the row, multigrading,
        # any mutual orientation; the same mesh is written several times and re-assembled (oracle only, no model)
        for _ in range(24 if tier == "quick" else 300):
            cases.append(self._prop_case(rng))
        # cell counts that follow from edge lengths: write, move vertices, write again (oracle only, no model)
        for _ in range(20 if tier == "quick" else 300):
            cases.append(self._sized_case(rng))
        # an exception inside assemble(): state left behind (model) and recovery by delete + clear + assemble (fresh-mesh oracle)
        for _ in range(16 if tier == "quick" else 200):
            cases.append(self._exc_case(rng))
        # rejected calls / boundary
        for _ in range(12 if tier == "quick" else 120):
            model = self._model(rng, rng.randint(1, 3))
            model.pop("entities")
            k = rng.randrange(5)
            if k == 0:
                steps = [["bkp"], ["add", 0], ["bkp"], ["wr"]]
            elif k == 1:
                steps = [["wr"], ["add", 0], ["wr"]]
            elif k == 2:
                steps = [["add", 0], ["del", 0], ["wr"], ["asm"], ["bkp"], ["wr"]]
            elif k == 3:
                model["ops"][0]["nochop"] = rng.randrange(3)
                model["ops"] = model["ops"][:1]
                steps = [["add", 0], ["wr"], ["wr"]]
            else:
                steps = [["add", 0], ["mv", 3, [9.5, 9.25, 9.125]], ["wr"], ["clr"], ["mv", 1, [8.5, 8.25, 8.125]], ["bkp"], ["wr"]]
            cases.append({"kind": "reject", **model, "steps": steps})
        return cases

    # ------------------------------------------------------------------ implementation
    def run_impl(self, case: dict) -> Any:
        import numpy as np

        import classy_blocks as cb

        warnings.simplefilter("ignore")
        specs = case["ops"]
        ops: Dict[int, Any] = {}

        def get_op(i: int):
            if i not in ops:
                chops = local_chops(specs[i], case["counts"])
                if "nochop" in specs[i]:
                    chops[specs[i]["nochop"]] = []
                for a in specs[i].get("unchop", []):
                    chops[a] = []  # this axis takes its divisions from the neighbouring block
                ops[i] = build_op(specs[i], corner_positions(specs[i]), chops)
            return ops[i]

        ents = entities_of(case)
        ent_objs: Dict[int, Any] = {}

        def get_entity(e: int):
            if e not in ent_objs:
                members = [get_op(i) for i in ents[e]]
                ent_objs[e] = members[0] if len(members) == 1 else make_group(members)
            return ent_objs[e]

        mesh = cb.Mesh()
        obs: List[Any] = []
        states: List[str] = []

        def state_digest() -> str:
            """internals of the Mesh object after a call (compared with the state of the model)"""
            ids = {id(op): i for i, op in ops.items()}
            pl = mesh.patch_list
            return (
                "A[" + ",".join(str(ids.get(id(op), "?")) for op in getattr(mesh, "assembled", [])) + "]"
                + "D[" + ",".join(str(i) for i in sorted(ids.get(id(op), -1) for op in mesh.deleted)) + "]"
                + "P[" + ",".join(f"{n}:{p.kind}:{len(p.sides)}" for n, p in pl.patches.items()) + "]"
                + "M[" + ",".join(sorted(getattr(pl, "modified", []))) + "]"
                + f"N[{len(mesh.vertex_list.vertices)},{len(mesh.block_list.blocks)},{len(mesh.edge_list.edges)},{len(mesh.face_list.faces)}]"
                + "G[" + ",".join(mesh.geometry_list.geometry.keys()) + "]"
                + ("d[" + (f"{pl.default['name']}:{pl.default['kind']}" if pl.default else "") + "]")
                + f"m[{len(pl.merged)}]"
                + f"dup[{len(mesh.vertex_list.duplicated) == len(mesh.vertex_list.vertices)}]"
            )

        fd, path = tempfile.mkstemp(prefix="cbv-c12-")
        os.close(fd)
        try:
            for st in case["steps"]:
                o: Any = "."
                if st[0] == "add":
                    mesh.add(get_entity(st[1]))
                elif st[0] == "del":
                    mesh.delete(get_op(st[1]))
                elif st[0] == "asm":
                    try:
                        mesh.assemble()
                    except ValueError as e:
                        o = {"err": type(e).__name__}
                elif st[0] == "clr":
                    mesh.clear()
                elif st[0] == "bkp":
                    # which vertices (by index) every block is made of, and the operation it belongs to
                    op_index = {id(op): i for i, op in ops.items()}
                    pre = [
                        [op_index.get(id(op), -1), [int(v.index) for v in block.vertices]]
                        for block, op in zip(mesh.blocks, getattr(mesh, "assembled", []))
                    ]
                    try:
                        mesh.backport()
                        o = {
                            "ok": {str(i): [[float(x) for x in p] for p in op.point_array] for i, op in sorted(ops.items())},
                            "pre": pre,
                        }
                    except Exception as e:
                        o = {"err": type(e).__name__}
                elif st[0] == "mv":
                    nv = len(mesh.vertices)
                    if nv:
                        v = mesh.vertices[st[1] % nv]
                        o = {"moved": [float(x) for x in v.position], "index": st[1] % nv}
                        v.move_to(st[2])
                elif st[0] == "nudge":
                    nv = len(mesh.vertices)
                    if nv:
                        v = mesh.vertices[st[1] % nv]
                        old = [float(x) for x in v.position]
                        new = [old[d] + st[2][d] for d in range(3)]
                        o = {"moved": old, "index": st[1] % nv, "to": new}
                        v.move_to(new)
                elif st[0] == "mvto":
                    nv = len(mesh.vertices)
                    if nv:
                        v1, v2 = mesh.vertices[st[1] % nv], mesh.vertices[st[2] % nv]
                        o = {
                            "moved": [float(x) for x in v1.position],
                            "index": st[1] % nv,
                            "onto": st[2] % nv,
                            "to": [float(x) for x in v2.position],
                        }
                        v1.move_to(v2.position)  # a float numpy array that stays alive
                elif st[0] == "tr":
                    nv = len(mesh.vertices)
                    if nv:
                        v = mesh.vertices[st[1] % nv]
                        old = [float(x) for x in v.position]
                        o = {"moved": old, "index": st[1] % nv, "to": [old[d] + st[2][d] for d in range(3)]}
                        v.translate(st[2])
                elif st[0] == "mod":
                    mesh.modify_patch(st[1], st[2], None if st[3] is None else list(st[3]))
                elif st[0] == "def":
                    mesh.set_default_patch(st[1], st[2])
                elif st[0] == "mrg":
                    mesh.merge_patches(st[1], st[2])
                elif st[0] == "geo":
                    mesh.add_geometry({st[1]: list(st[2])})
                elif st[0] == "wr":
                    try:
                        open(path, "w").close()
                        mesh.write(path)
                        op_index = {id(op): i for i, op in ops.items()}
                        o = {
                            "text": open(path, encoding="utf-8").read(),
                            "blocks": [
                                [op_index.get(id(op), -1), [int(v.index) for v in block.vertices]]
                                for block, op in zip(mesh.blocks, getattr(mesh, "assembled", []))
                            ],
                        }
                    except Exception as e:
                        o = {"err": type(e).__name__}
                obs.append(o)
                states.append(state_digest())
        finally:
            os.unlink(path)
        # the fresh, equivalent meshes the oracle wants are built by the oracle itself (it runs in the parent
        # process); to keep that cheap they are built here, in the worker, for every successful write
        fresh = self._fresh_texts(case, obs)
        return {"obs": obs, "fresh": fresh, "states": states}

    # -- expected geometry, tracked from the case and the observed moves only
    def _shadow(self, case: dict, obs: List[Any]):
        """Replays the history on a shadow that only knows the *specification* of the calls: yields, for every step,
        (flags, expected corner positions per op, deleted set, modifications, default, merges, depot)."""
        specs = case["ops"]
        pos = {i: corner_positions(s) for i, s in enumerate(specs)}
        depot: List[int] = []
        deleted: set = set()
        asm_ops: List[int] = []  # operations with a block
        assembled = False
        pending = False  # add / delete / merge since the last assembly
        moves: Dict[int, List[float]] = {}  # vertex index -> position it was moved to since the last assembly
        dup = False  # the same object added twice (sticky)
        twice = False  # assembled twice without clear (until the next clear / backport)
        broken = False  # an assemble() was left by an exception: partial lists until the next clear
        bad_ops = {i for i, sp in enumerate(specs) if sp.get("bad")}
        mods: Dict[str, list] = {}
        dflt = None
        merges: List[list] = []
        geometry: Dict[str, list] = {}
        n_vertices = 0  # vertices the last assembly must have created: one per (point, slave patches at the corner)
        out = []

        def corner_keys(i: int):
            spec = specs[i]
            pat = spec.get("patches", {})
            slaves = {m[1] for m in merges}
            side = ["front", "right", "back", "left"]  # blockMesh: corner c of a face lies on sides c and c-1
            keys = []
            for c in range(8):
                at = {pat.get("bottom" if c < 4 else "top"), pat.get(side[c % 4]), pat.get(side[(c % 4 + 3) % 4])}
                keys.append((fmt(pos[i][c]), tuple(sorted(x for x in at if x in slaves))))
            return keys
        for st, o in zip(case["steps"], obs):
            weird_before = dup or twice or broken

            def do_assemble():
                nonlocal asm_ops, assembled, pending, n_vertices, broken
                if any(i in bad_ops for i in depot if i not in deleted):
                    # whether it raised and what is left behind is the implementation's word here (the correspondence checks
                    # both against the model); the oracle clauses are suspended until the next clear()
                    broken = True
                    assembled = True
                    pending = False
                    return
                asm_ops = [i for i in depot if i not in deleted]
                assembled = len(asm_ops) > 0
                pending = False
                n_vertices = len({k for i in asm_ops for k in corner_keys(i)})

            if st[0] == "add":
                for i in entities_of(case)[st[1]]:
                    if i in depot:
                        dup = True
                    depot.append(i)
                pending = pending or assembled
            elif st[0] == "del":
                deleted.add(st[1])
                pending = pending or assembled
            elif st[0] == "asm":
                if broken:
                    pass
                elif assembled:
                    # assemble() does not clear: blocks are created once more on top of the existing ones
                    twice = True
                    asm_ops = asm_ops + [i for i in depot if i not in deleted]
                    pending = False
                else:
                    do_assemble()
            elif st[0] == "clr":
                assembled, asm_ops, moves, pending, twice, broken = False, [], {}, False, False, False
            elif st[0] == "mrg":
                merges.append([st[1], st[2]])
                pending = pending or assembled
            elif st[0] == "mod":
                if st[1] not in mods:
                    mods[st[1]] = [st[2], []]
                mods[st[1]][0] = st[2]
                if st[3] is not None:
                    mods[st[1]][1] = list(st[3])
            elif st[0] == "def":
                dflt = [st[1], st[2]]
            elif st[0] == "geo":
                geometry = {**geometry, st[1]: list(st[2])}
            elif st[0] == "mv":
                if isinstance(o, dict) and "moved" in o:
                    moves[o["index"]] = list(st[2])
            elif st[0] in ("nudge", "tr"):
                if isinstance(o, dict) and "moved" in o:
                    base = moves.get(o["index"], o["moved"])
                    moves[o["index"]] = [base[d] + st[2][d] for d in range(3)]
            elif st[0] == "mvto":
                if isinstance(o, dict) and "moved" in o:
                    moves[o["index"]] = list(moves.get(o["onto"], o["to"]))
            elif st[0] == "bkp":
                if isinstance(o, dict) and o.get("err") == "ValueError":
                    # depot updated, lists cleared, then the final assemble() was left by the exception
                    moves = {}
                    twice = False
                    broken = True
                    assembled = True
                if isinstance(o, dict) and "ok" in o:
                    # expected: corners of the operations that have a block follow the moved vertices
                    if weird_before:
                        # blocks exist twice / an object is in the depot twice: the implementation's word is taken for the
                        # geometry (the correspondence with the model still checks it)
                        for i in asm_ops:
                            pos[i] = [list(p) for p in o["ok"][str(i)]]
                    else:
                        # every corner follows the vertex (by index) its block holds there; a vertex that was not moved is
                        # where the operation's corner was when the vertex was created
                        for i, vidx in o.get("pre", []):
                            if i in pos:
                                pos[i] = [list(moves.get(v, pos[i][c])) for c, v in enumerate(vidx)]
                    moves = {}
                    twice = False
                    broken = False
                    do_assemble()
            elif st[0] == "wr":
                if not assembled:
                    do_assemble()
            out.append(
                {
                    "assembled": assembled,
                    "pending": pending,
                    "moved": bool(moves),
                    "moves": {k: list(v) for k, v in moves.items()},
                    "weird": dup or twice or broken,
                    "broken": broken,
                    "weird_before": weird_before,
                    "pos": {i: [list(p) for p in ps] for i, ps in pos.items()},
                    "depot": list(depot),
                    "deleted": set(deleted),
                    "asm_ops": list(asm_ops),
                    "mods": {k: [v[0], list(v[1])] for k, v in mods.items()},
                    "dflt": dflt,
                    "merges": [list(m) for m in merges],
                    "n_vertices": n_vertices,
                    "geometry": {k: list(v) for k, v in geometry.items()},
                }
            )
        return out

    def _fresh_texts(self, case: dict, obs: List[Any]) -> Dict[str, Any]:
        import classy_blocks as cb

        res: Dict[str, Any] = {}
        shadow = self._shadow(case, obs)
        fd, path = tempfile.mkstemp(prefix="cbv-c12f-")
        os.close(fd)
        try:
            for n, (st, o, sh) in enumerate(zip(case["steps"], obs, shadow)):
                if st[0] != "wr" or not (isinstance(o, dict) and "text" in o):
                    continue
                if sh["pending"] or sh["weird"]:
                    continue
                pos = sh["pos"]
                if sh["moved"]:
                    # vertices were moved on the assembled mesh and not back-ported: the equivalent model has the moved
                    # positions from the start (every corner is where the vertex its block holds there is now)
                    held = {i: vidx for i, vidx in o.get("blocks", [])}
                    if set(held) != {i for i in sh["depot"] if i not in sh["deleted"]} or len(held) != len(o.get("blocks", [])):
                        continue
                    pos = dict(pos)
                    for i, vidx in held.items():
                        pos[i] = [list(sh["moves"].get(v, pos[i][c])) for c, v in enumerate(vidx)]
                mesh = cb.Mesh()
                for i in sh["depot"]:
                    if i in sh["deleted"]:
                        continue
                    spec = case["ops"][i]
                    chops = local_chops(spec, case["counts"])
                    for a in spec.get("unchop", []):
                        chops[a] = []
                    mesh.add(build_op(spec, pos[i], chops))
                for name, props in sh["geometry"].items():
                    mesh.add_geometry({name: props})
                for m in sh["merges"]:
                    mesh.merge_patches(*m)
                if sh["dflt"]:
                    mesh.set_default_patch(*sh["dflt"])
                for name, (kind, settings) in sh["mods"].items():
                    mesh.modify_patch(name, kind, settings)
                try:
                    mesh.write(path)
                    res[str(n)] = open(path, encoding="utf-8").read()
                except Exception as e:
                    res[str(n)] = {"err": type(e).__name__}
        finally:
            os.unlink(path)
        return res

    # ------------------------------------------------------------------ model
    def _tables(self, case: dict, impl: Any):
        """canonical coordinates: every position the case names (corners of the operations, targets of the moves) is sent to
        the model as the exact rational value of the first float triple seen with the same `%.8f` image, so that points
        the implementation merges (closer than TOL) are equal in the model"""
        canon: Dict[str, List[float]] = {}

        def cp(p) -> List[float]:
            return canon.setdefault(fmt(p), [float(x) for x in p])

        for spec in case["ops"]:
            for p in corner_positions(spec):
                cp(p)
        for st, o in zip(case["steps"], (impl or {}).get("obs", [None] * len(case["steps"]))):
            if st[0] == "mv":
                cp(st[2])
            if st[0] == "nudge" and isinstance(o, dict) and "to" in o:
                cp(o["to"])
        return canon, None

    @staticmethod
    def _pt(p) -> str:
        return ",".join(core.rat(float(x)) for x in p)

    def requests(self, case: dict, impl: Any) -> List[str]:
        if case["kind"] in ("prop", "sized"):
            # gradings propagated between blocks (C01/C02/C04) and cell counts that follow from edge lengths (log / pow of
            # float lengths) are outside the model: oracle only
            return []
        loc, arcs = self._tables(case, impl)
        toks = []
        seen = set()
        ents = entities_of(case)
        obs = (impl or {}).get("obs", [None] * len(case["steps"]))

        def op_fields(spec: dict) -> str:
            cs = ";".join(self._pt(loc[fmt(p)]) for p in corner_positions(spec))
            pat = spec.get("patches", {})
            ps = ",".join(pat.get(s, "-") for s in ["bottom", "top", "front", "right", "back", "left"])
            prj = spec.get("proj", {})
            js = ",".join(prj.get(s, "-") for s in ["bottom", "top", "front", "right", "back", "left"])
            cp = spec.get("cproj", {})
            cps = ",".join("+".join(cp[str(c)]) if str(c) in cp else "-" for c in range(8))
            ar = spec.get("arcs", {})
            cu = spec.get("curved", {})

            def edge_field(slot: str) -> str:
                if spec.get("bad") == slot:
                    return "invalid"
                if slot in ar:
                    return "arc:" + self._pt(ar[slot])
                if slot in cu:
                    kind, data = cu[slot]
                    if kind == "project":
                        return "project:" + "+".join(data)
                    return kind + ":" + "|".join(self._pt(q) for q in data)
                return "-"

            es = ";".join(edge_field(s) for s in SLOTS)
            chops = local_chops(spec, case["counts"])
            if "nochop" in spec:
                chops[spec["nochop"]] = []
            chs = ",".join("+".join(f"{r}x{c}" for r, c in ch) if ch else "-" for ch in chops)
            return "!".join([str(spec["id"]), cs, ps, js, cps, es, chs, spec.get("zone") or "-"])

        for st, o in zip(case["steps"], obs):
            if st[0] == "add" and st[1] in seen:
                toks.append(f"again!{ents[st[1]][0]}")  # the same python object (a single operation) once more
            elif st[0] == "add":
                seen.add(st[1])
                members = ents[st[1]]
                if len(members) == 1:
                    toks.append("add!" + op_fields(case["ops"][members[0]]))
                else:
                    toks.append("ent@" + "@".join(op_fields(case["ops"][i]) for i in members))
            elif st[0] == "nudge":
                # move_to(position computed by the harness from the observed old position)
                to = loc[fmt(o["to"])] if isinstance(o, dict) and "to" in o else [0.0, 0.0, 0.0]
                toks.append(f"mv!{st[1]}!{self._pt(to)}")
            elif st[0] == "tr":
                # Vertex.translate(delta): the model adds the displacement itself
                toks.append(f"tr!{st[1]}!{self._pt(st[2])}")
            elif st[0] == "mvto":
                toks.append(f"mvto!{st[1]}!{st[2]}")
            elif st[0] == "del":
                toks.append(f"del!{st[1]}")
            elif st[0] in ("asm", "clr", "bkp", "wr"):
                toks.append(st[0])
            elif st[0] == "mv":
                toks.append(f"mv!{st[1]}!{self._pt(loc[fmt(st[2])])}")
            elif st[0] == "mod":
                s = "-" if st[3] is None else ("0" if not st[3] else "|".join(x.replace(" ", "~") for x in st[3]))
                toks.append(f"mod!{st[1]}!{st[2]}!{s}")
            elif st[0] == "def":
                toks.append(f"def!{st[1]}!{st[2]}")
            elif st[0] == "mrg":
                toks.append(f"mrg!{st[1]}!{st[2]}")
            elif st[0] == "geo":
                toks.append(f"geo!{st[1]}!" + ("|".join(x.replace(" ", "~") for x in st[2]) if st[2] else "0"))
        return ["c12.hist " + " ".join(toks)]

    @staticmethod
    def canonical(parsed: dict, loc=None, arcs=None) -> str:
        """the file as the token list the model renders: per section its name, the entries in order, `;`; coordinates are
        the `%.8f` text of the file itself"""

        def nats(xs):
            return "-".join(str(x) for x in xs)

        def sec(name, entries):
            return [name] + list(entries) + [";"]

        vs = [p + (" (" + " ".join(proj) + ")" if proj else "") for p, proj in parsed["vertices"]]
        bs = [f"{nats(b['verts'])}:{b['zone']}:{nats(b['counts'])}:{b['kind']},{','.join(b['grading'])}" for b in parsed["blocks"]]
        es = [f"{kind} {min(a, b)}-{max(a, b)} {rest}" for kind, a, b, rest in parsed["edges"]]
        fs = [f"{nats(v)}:{l}" for v, l in parsed["faces"]]
        ps = [
            f"{p['name']}:{p['kind']}:{'|'.join(s.replace(' ', '~') for s in p['settings'])}:{','.join(nats(s) for s in p['sides'])}"
            for p in parsed["patches"]
        ]
        ms = [f"{a}-{b}" for a, b in parsed["merged"]]
        gs = [f"{n}:{'|'.join(x.replace(' ', '~') for x in props)}" for n, props in parsed.get("geometry", [])]
        toks = (sec("geometry", gs) if gs else []) + sec("vertices", vs) + sec("blocks", bs) + sec("edges", es) + sec("faces", fs)
        toks += sec("boundary", ps)
        if parsed["default"]:
            toks += sec("defaultPatch", [":".join(parsed["default"])])
        toks += sec("mergePatchPairs", ms)
        return "\t".join(toks)

    ERR = {"RuntimeError": "err:notAssembled", "UndefinedGradingsError": "err:undefined", "ValueError": "err:create"}

    def compare(self, case: dict, impl: Any, model: List[str]) -> Optional[str]:
        loc, arcs = self._tables(case, impl)
        ans = model[0]
        if ans == "bad-op":
            return "model rejects the request (bad-op)"
        parts = ans.split("#")
        if len(parts) != len(case["steps"]):
            return f"model answered {len(parts)} observations for {len(case['steps'])} calls"
        for n, (st, o, a) in enumerate(zip(case["steps"], impl["obs"], parts)):
            a, _, digest = a.partition("@")
            why = self._compare_state(impl.get("states", [None] * (n + 1))[n], digest)
            if why:
                return f"call {n} ({st[0]}): state after the call: {why}"
            if st[0] == "wr":
                if "err" in o:
                    want = self.ERR.get(o["err"], "err:" + o["err"])
                else:
                    want = "ok:" + self.canonical(parse_file(o["text"]), loc, arcs)
                if a != want:
                    return f"call {n} (write): implementation {want[:700]} / model {a[:700]}"
            elif st[0] == "bkp":
                if "err" in o:
                    want = self.ERR.get(o["err"], "err:" + o["err"])
                else:
                    depot = []
                    for s in case["steps"][: n + 1]:
                        if s[0] == "add":
                            depot += entities_of(case)[s[1]]
                    why = self._compare_depot(a, depot, o["ok"])
                    if why:
                        return f"call {n} (backport): {why}"
                    want = a
                if a != want:
                    return f"call {n} (backport): implementation {want[:500]} / model {a[:500]}"
            elif st[0] == "asm":
                want = self.ERR.get(o["err"], "err:" + o["err"]) if isinstance(o, dict) and "err" in o else "."
                if a != want:
                    return f"call {n} (assemble): implementation {want} / model {a}"
            elif a != ".":
                return f"call {n} ({st[0]}): model observation {a}"
        return None

    @staticmethod
    def _compare_depot(ans: str, depot: List[int], points: dict) -> Optional[str]:
        """the corner points of every depot operation after backport(): model (exact rationals) vs implementation (floats)"""
        from fractions import Fraction

        if not ans.startswith("ok:"):
            return f"implementation back-ported, model answered {ans[:80]}"
        items = [x for x in ans[3:].split(";") if x]
        if len(items) != len(depot):
            return f"model lists {len(items)} depot operations, the depot holds {len(depot)}"
        for item, i in zip(items, depot):
            oid, _, pts = item.partition("=")
            if int(oid) != i:
                return f"depot order: model has operation {oid} where the implementation has {i}"
            mp = [[float(Fraction(c)) for c in q.split(",")] for q in pts.split("|")]
            ip = points[str(i)]
            if len(mp) != len(ip):
                return f"operation {i}: {len(mp)} points in the model"
            for c, (q, r) in enumerate(zip(mp, ip)):
                if max(abs(a - b) for a, b in zip(q, r)) > 1e-9:
                    return f"operation {i} corner {c}: implementation {r} / model {q}"
        return None

    @staticmethod
    def _compare_state(got: Optional[str], model: str) -> Optional[str]:
        """implementation internals vs. model state; sets (deleted, modified) are compared as sets"""
        if got is None:
            return None
        sec = lambda t: dict(re.findall(r"([A-Za-z]+)\[([^\]]*)\]", t))
        g, m = sec(got), sec(model)
        if g.pop("dup", "True") != "True":
            return "VertexList.duplicated does not hold one entry per vertex"
        for k in m:
            a, b = g.get(k), m[k]
            if k in ("D", "M"):
                a, b = sorted(set(x for x in a.split(",") if x)), sorted(set(x for x in b.split(",") if x))
            if a != b:
                names = {"A": "Mesh.assembled", "D": "Mesh.deleted", "P": "PatchList.patches (name:type:sides)", "M": "PatchList.modified",
                         "N": "sizes of vertex/block/edge/face lists", "G": "geometry names", "d": "default patch", "m": "merged pairs"}
                return f"{names.get(k, k)}: implementation {a} / model {b}"
        return None

    # ------------------------------------------------------------------ oracle
    def oracle(self, case: dict, impl: Any) -> List[dict]:
        out: List[dict] = []
        obs = impl["obs"]
        steps = case["steps"]
        shadow = self._shadow(case, obs)
        last_text = None  # text of the last successful write
        since: List[str] = []  # calls since then
        for n, (st, o, sh) in enumerate(zip(steps, obs, shadow)):
            if st[0] == "bkp" and isinstance(o, dict):
                if "err" in o and (shadow[n - 1]["assembled"] if n else False) and not sh.get("broken"):
                    out.append({"site": "Mesh.backport:raises-on-assembled-mesh", "what": f"call {n}: {o['err']}"})
                if "ok" in o and not sh["weird_before"]:
                    for i, want in sh["pos"].items():
                        got = o["ok"].get(str(i))
                        if got is None:
                            continue
                        if any(max(abs(a - b) for a, b in zip(p, q)) > 1e-9 for p, q in zip(got, want)):
                            prev = shadow[n - 1] if n else sh
                            site = (
                                "Mesh.backport:wrong-operation-updated"
                                if prev["deleted"] and prev["assembled"]
                                else "Mesh.backport:operation-points-differ"
                            )
                            out.append(
                                {
                                    "site": site,
                                    "what": f"call {n}: operation {i} has points {got}, expected {want}",
                                    "observed": got,
                                    "expected": want,
                                }
                            )
                            break
            if st[0] != "wr":
                since.append(st[0])
                continue
            if "err" in o:
                # a write may only fail when there is nothing to grade or chops are missing
                expect_fail = (not sh["assembled"]) or any("nochop" in s for s in case["ops"]) or sh.get("broken")
                if not expect_fail:
                    site = "Mesh.write:second-write-raises" if last_text is not None and not since else "Mesh.write:raises"
                    out.append({"site": site, "what": f"call {n}: {o['err']} after {since}", "observed": o["err"]})
                since = []
                last_text = None
                continue
            text = o["text"]
            # O1: round trips reproduce the previous file byte for byte
            if last_text is not None and text != last_text:
                site = None
                if not since:
                    site = "Mesh.write:second-write-differs"
                elif set(since) <= {"clr", "asm"} and since[0] == "clr":
                    if self._sync_before(shadow, steps, n):
                        site = "Mesh.clear:reassembled-text-differs"
                elif set(since) == {"bkp"}:
                    if self._sync_before(shadow, steps, n):
                        site = "Mesh.backport:unmoved-text-differs"
                if site:
                    out.append({"site": site, "what": f"call {n}: file differs from the previous write after {since}", "observed": _first_diff(last_text, text)})
            # O4: modify_patch shows in the file
            try:
                parsed = parse_file(text)
            except Exception as e:
                out.append({"site": "Mesh.write:unparsable-file", "what": f"call {n}: {e}"})
                since, last_text = [], text
                continue
            # the sections come in the order a blockMeshDict of classy_blocks has: geometry, vertices, blocks, edges, faces,
            # boundary, defaultPatch, mergePatchPairs
            where = [
                (m.start(), name)
                for name in ("geometry", "vertices", "blocks", "edges", "faces", "boundary", "defaultPatch", "mergePatchPairs")
                for m in [re.search(r"^" + name + r"\n[({]\n", text, re.M)]
                if m
            ]
            if [w[0] for w in where] != sorted(w[0] for w in where):
                out.append(
                    {
                        "site": "Mesh.write:section-order",
                        "what": f"call {n}: sections written in the order {[w[1] for w in sorted(where)]}",
                        "observed": [w[1] for w in sorted(where)],
                        "expected": [w[1] for w in where],
                    }
                )
            if [[k, v] for k, v in sh["geometry"].items()] != parsed["geometry"]:
                out.append(
                    {
                        "site": "Mesh.add_geometry:geometry-section-differs",
                        "what": f"call {n}: geometry written {parsed['geometry']}, added through the mesh {sh['geometry']} (calls since the last write: {since})",
                        "observed": parsed["geometry"],
                        "expected": sh["geometry"],
                    }
                )
            if sh["dflt"] is not None and parsed["default"] != sh["dflt"]:
                out.append(
                    {
                        "site": "PatchList.set_default:default-patch-not-written",
                        "what": f"call {n}: set_default_patch{tuple(sh['dflt'])} was called, defaultPatch in the file: {parsed['default']}",
                        "observed": parsed["default"],
                        "expected": sh["dflt"],
                    }
                )
            written_names = [p["name"] for p in parsed["patches"]]
            for name in sh["mods"]:
                if name not in written_names:
                    out.append({"site": "PatchList.modify:modified-patch-not-written", "what": f"call {n}: {name} was modified but is not in boundary ({written_names})"})
                    break
            for p in parsed["patches"]:
                if len({frozenset(x) for x in p["sides"]}) != len(p["sides"]):
                    out.append({"site": "Patch.add_side:face-listed-twice", "what": f"call {n}: patch {p['name']} lists {p['sides']}"})
                    break
            if not (sh["pending"] or sh["moved"] or sh["weird"]) and len(parsed["vertices"]) != sh["n_vertices"]:
                out.append(
                    {
                        "site": "VertexList.add:vertex-count",
                        "what": f"call {n}: {len(parsed['vertices'])} vertices written, {sh['n_vertices']} distinct (point, slave patches) corners",
                        "observed": len(parsed["vertices"]),
                        "expected": sh["n_vertices"],
                    }
                )
            for p in parsed["patches"]:
                if p["name"] in sh["mods"]:
                    kind, settings = sh["mods"][p["name"]]
                    if p["kind"] != kind or p["settings"] != settings:
                        out.append(
                            {
                                "site": "PatchList.clear:modify-lost",
                                "what": f"call {n}: patch {p['name']} written as {p['kind']} {p['settings']}, set to {kind} {settings}",
                                "observed": [p["kind"], p["settings"]],
                                "expected": [kind, settings],
                            }
                        )
                        break
            # O2: equal to the file of a freshly built equivalent mesh
            fresh = impl["fresh"].get(str(n))
            if fresh is not None:
                if isinstance(fresh, dict):
                    out.append({"site": "Mesh.write:fresh-equivalent-raises", "what": f"call {n}: {fresh}"})
                else:
                    why = _compare_fresh(text, fresh)
                    if why:
                        hist = [s[0] for s in steps[:n]]
                        site = "Mesh.delete:file-differs-from-mesh-without-operation" if "del" in hist and "bkp" not in hist and "clr" not in hist else "Mesh:file-differs-from-fresh-equivalent"
                        if "bkp" in hist and any(s[0] == "del" for s in steps[:n]):
                            site = "Mesh.backport:file-differs-from-fresh-equivalent"
                        if sh["moved"]:
                            # written after vertices were moved on the assembled mesh (no backport / clear in between)
                            site = "Mesh.write:file-after-moves-differs-from-fresh-model-at-moved-positions"
                        out.append({"site": site, "what": f"call {n}: {why}", "observed": why})
            # O3': one hex per operation that has a block
            if not sh["weird"] and len(parsed["blocks"]) != len(sh["asm_ops"]):
                out.append(
                    {
                        "site": "Mesh.delete:block-count",
                        "what": f"call {n}: {len(parsed['blocks'])} hex entries for {len(sh['asm_ops'])} operations",
                    }
                )
            since, last_text = [], text
        return out

    @staticmethod
    def _sync_before(shadow, steps, n) -> bool:
        """True when, at the previous write, nothing was pending / moved and nothing was added, deleted, merged,
        moved or modified since."""
        j = n - 1
        while j >= 0 and steps[j][0] != "wr":
            j -= 1
        if j < 0:
            return False
        sh = shadow[j]
        return not (sh["pending"] or sh["moved"] or sh["weird"]) and not shadow[n]["weird"]

    def nontrivial_key(self, case, impl):
        if not any(isinstance(o, dict) and "text" in o for o in impl["obs"]):
            return None if case["kind"] == "hist" else "reject:" + json.dumps(case["steps"])
        return json.dumps({k: case.get(k) for k in ("ops", "counts", "steps", "entities")}, sort_keys=True)

    def classify(self, case, impl):
        calls = sorted({s[0] for s in case["steps"]})
        errs = sorted({o["err"] for o in impl["obs"] if isinstance(o, dict) and "err" in o})
        key = case["kind"] + ":" + f"{len(case['ops'])}ops"
        if errs:
            key += ":" + "+".join(errs)
        if any(len(e) > 1 for e in entities_of(case)):
            key += ":groups"
        if case.get("frame", [[0, 0, 0], 1.0])[1] != 1.0:
            key += ":far"
        for flag in ("bkp", "clr", "del", "mv", "nudge", "mvto", "mrg", "geo"):
            if flag in calls:
                key += ":" + flag
        return key


def _first_diff(a: str, b: str) -> str:
    la, lb = a.splitlines(), b.splitlines()
    for i, (x, y) in enumerate(zip(la, lb)):
        if x != y:
            return f"line {i}: {x!r} -> {y!r}"
    return f"length {len(la)} -> {len(lb)}"


def _compare_fresh(text: str, fresh: str) -> Optional[str]:
    """byte for byte outside `boundary`; inside it the patch entries are compared as a set"""

    def split(t: str):
        m = re.search(r"^boundary\n\(\n(.*?)^\);\n", t, re.S | re.M)
        if not m:
            return t, []
        entries = re.findall(r"^\t(\S+)\n\t\{\n.*?^\t\}\n", m.group(1), re.S | re.M)
        blocks = re.findall(r"(^\t\S+\n\t\{\n.*?^\t\}\n)", m.group(1), re.S | re.M)
        del entries
        return t[: m.start(1)] + t[m.end(1) :], sorted(blocks)

    ta, pa = split(text)
    tb, pb = split(fresh)
    if ta != tb:
        return "outside boundary: " + _first_diff(ta, tb)
    if pa != pb:
        return f"patch entries differ: {[p.split()[0] for p in pa]} vs {[p.split()[0] for p in pb]}: " + _first_diff("".join(pa), "".join(pb))
    return None


if __name__ == "__main__":
    sys.exit(core.main(C12()))
