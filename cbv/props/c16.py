"""C16 — curve points, lengths and closest-parameter queries are mutually consistent."""

from __future__ import annotations

import json
import math
import random
import sys
import warnings
from fractions import Fraction
from typing import Any, List, Optional

from .. import core

EPS_WIT = Fraction(1, 10**12)
TOL = 1e-9  # exact relations (polyline arithmetic), relative to the scale of the case
TOL_MIN = 1e-6  # anything that went through scipy's minimiser (closest parameter)
TOL_ANALYTIC = 2e-3  # additivity of a 100-point discretisation of a smooth curve (discretisation error)
N_SCAN = 1000


def _sub(a, b):
    return [x - y for x, y in zip(a, b)]


def _add(a, b):
    return [x + y for x, y in zip(a, b)]


def _mul(k, a):
    return [k * x for x in a]


def _dist(a, b):
    return math.sqrt(sum((x - y) ** 2 for x, y in zip(a, b)))


def _poly(pts):
    return sum(_dist(a, b) for a, b in zip(pts[:-1], pts[1:]))


def _vec(p) -> str:
    return ",".join(core.rat(float(x)) for x in p)


def _vecs(pts) -> str:
    return ";".join(_vec(p) for p in pts)


def _parse_vec(s: str) -> List[float]:
    return [float(core.parse_rat(x)) for x in s.split(",")]


def _scale(pts) -> float:
    return max([1.0] + [abs(float(x)) for p in pts for x in p])


def _uneven_points(rng: random.Random, n: int, smooth: bool = False) -> List[List[float]]:
    """a point set with strongly uneven spacing (steps over two decades), not self-approaching"""
    d = [rng.gauss(0, 1) for _ in range(3)]
    nd = math.sqrt(sum(x * x for x in d))
    d = [x / nd for x in d]
    p = [rng.uniform(-3, 3) for _ in range(3)]
    pts = [p]
    for _ in range(n - 1):
        step = 10 ** rng.uniform(-1, 0.7)
        side = [rng.uniform(-1, 1) * step * (0.3 if smooth else 0.9) for _ in range(3)]
        p = _add(_add(p, _mul(step, d)), side)  # always advancing along d, so the curve does not fold back
        pts.append(p)
    return pts


def _own_linear(pts, equalize=True):
    """independent statement of the linear interpolant: (knots, point(t), total);
    chord-length parameters (equalize=True) or evenly spaced ones (equalize=False)"""
    seg = [_dist(a, b) for a, b in zip(pts[:-1], pts[1:])]
    total = sum(seg)
    knots = [0.0]
    for i, s in enumerate(seg):
        knots.append(knots[-1] + s / total if equalize else (i + 1) / len(seg))
    knots[-1] = 1.0

    def point(t):
        for i in range(len(seg)):
            if t <= knots[i + 1] or i == len(seg) - 1:
                lam = (t - knots[i]) / (knots[i + 1] - knots[i])
                return _add(pts[i], _mul(lam, _sub(pts[i + 1], pts[i])))

    return knots, point, total


def _own_arc(pts, equalize=True):
    """length along the polyline from its start to the point at parameter t"""
    knots, _, _ = _own_linear(pts, equalize)
    seg = [_dist(a, b) for a, b in zip(pts[:-1], pts[1:])]

    def arc(t):
        done = 0.0
        for i, s in enumerate(seg):
            if t <= knots[i + 1] or i == len(seg) - 1:
                return done + (t - knots[i]) / (knots[i + 1] - knots[i]) * s
            done += s

    return arc


def np_pt(p):
    return [float(x) for x in p]


def _unit_f(v):
    n = math.sqrt(sum(float(x) * float(x) for x in v))
    return [float(x) / n for x in v]


def _cos_sin(t: float):
    """an exact rational point of the unit circle within 1e-16 of (cos t, sin t), from u = tan(t/2)"""
    u = Fraction(math.tan(t / 2))
    return (1 - u * u) / (1 + u * u), 2 * u / (1 + u * u)


class C16(core.Check):
    pid = "C16"
    props_module = "CBV.Props.C16"
    rule = (
        "discrete: 3..9 points with steps over two decades, parameter pairs (integers and non-integers, both orders, equal), "
        "triples a<=b<=c, query points near and far (no near-ties); linear / spline: interpolated curves over such point "
        "sets, parameter pairs and triples in [0,1], splits at and between knots, near queries; analytic: LineCurve, "
        "CircleCurve (away from the seam) and a helix with recorded parameter calls; edge: OnCurveEdge over every curve "
        "type with vertices on the curve, Spline/PolyLine edges; tf: linear/spline curves right after translate/rotate/scale/"
        "mirror/shear (method or transformation list), every question asked on a newly transformed curve; edge_hist: a curve edge "
        "observed, its vertices moved along the curve, observed again; seq: hairpin curves (analytic and spline), closest-parameter "
        "queries alternating between the legs on one curve object, each compared with a fresh object and a 2001-point scan, and an "
        "edge around the bend; linear curves also with equalize=False; analytic curves also with bounds not starting at 0 and "
        "parameters exactly 0 / exactly the bounds / equal; qtq: one curve object (circle, arc of a circle, line, linear, spline, discrete) "
        "queried, then translated / rotated (also about its own axis) / scaled / mirrored in place, on a copy of the queried curve or "
        "inside a copied operation that carries it on an edge, then queried again near its new position; "
        "bad: parameters outside the bounds. Non-trivial = every "
        "case; distinct = different input."
    )
    assumptions = [
        "the driver's distance oracle is a double-precision sqrt of the exact squared distance, re-checked |w^2-x| <= 1e-12(1+x)",
        "T_C16_linear_exact is a theorem about the model (lerp over chord-length knots, exact distances); "
        "that scipy interp1d / numpy cumsum compute the same is validated by correspondence (c16.ipoint, c16.ilen at 1e-9)",
        "spline interpolation (scipy make_interp_spline) and scipy.optimize.minimize are oracles: only checked on the "
        "implementation (through points, closest parameter vs. a 1000-point scan, tolerance 1e-6)",
        "queries for the closest parameter are near the curve: spline and analytic curves are asked about points taken off the curve itself (at most 1% of its length away; the spline of unevenly spaced points can be far from their polyline), linear curves also about far points (exact algorithm); away from the seam of closed curves",
    ]
    partial_note = (
        "Theorems cover discrete curves, the polyline arithmetic of all lengths, the linear interpolant and curve edges. "
        "Spline curves: through-points/ends/closest parameter are validator checks; their length is not additive between "
        "knots (known finding). Analytic curves: the polyline of one discretisation is exactly additive at its sample points and "
        "monotone (theorems, every sample count), additivity between arbitrary parameters only up to the re-sampling with 100 points "
        "(2e-3, oracle; for circles bounded by r (c-a) h^2/24 over the reals: theorem); CircleCurve over the reals: chord sum <= arc length and closest parameter = the query's angle (theorems), the "
        "minimiser's answer is validated against the closed-form distance to the circle; scipy's minimiser and spline interpolation stay oracles."
    )

    # ------------------------------------------------------------------ generators
    def _pairs(self, rng, lo, hi, n, integer=False):
        out = []
        for _ in range(n):
            if integer and rng.random() < 0.6:
                a, b = float(rng.randint(int(lo), int(hi))), float(rng.randint(int(lo), int(hi)))
            else:
                a, b = rng.uniform(lo, hi), rng.uniform(lo, hi)
            r = rng.random()
            if r < 0.1:
                b = a
            elif r < 0.2:
                a, b = lo, hi
            elif r < 0.3:
                a, b = hi, lo
            out.append([a, b])
        return out

    def _triples(self, rng, lo, hi, n, integer=False, knots=None):
        out = []
        for _ in range(n):
            if integer and rng.random() < 0.6:
                t = sorted(float(rng.randint(int(lo), int(hi))) for _ in range(3))
            else:
                t = sorted(rng.uniform(lo, hi) for _ in range(3))
            if rng.random() < 0.2:
                t[0], t[2] = lo, hi
            out.append(t)
        return out

    def _queries(self, rng, pts, near_only=False):
        """points near the curve (on a segment, displaced by a small fraction of the local spacing) and far away"""
        qs = []
        for _ in range(4):
            i = rng.randrange(len(pts) - 1)
            lam = rng.uniform(0.15, 0.85)
            base = _add(pts[i], _mul(lam, _sub(pts[i + 1], pts[i])))
            h = 0.05 * _dist(pts[i], pts[i + 1])
            qs.append({"near": True, "p": _add(base, [rng.uniform(-h, h) for _ in range(3)])})
        if not near_only:
            for _ in range(2):
                qs.append({"near": False, "p": [rng.uniform(-20, 20) for _ in range(3)]})
        return qs

    def gen_cases(self, rng: random.Random, tier: str) -> List[dict]:
        n = 30 if tier == "quick" else 400
        cases: List[dict] = []
        for _ in range(n):
            k = rng.randint(3, 9)
            pts = _uneven_points(rng, k)
            qs = [q for q in self._queries(rng, pts) if self._no_tie(pts, q["p"])]
            cases.append(
                {
                    "kind": "discrete",
                    "points": pts,
                    "pairs": self._pairs(rng, 0, k - 1, 5, integer=True),
                    "triples": self._triples(rng, 0, k - 1, 3, integer=True),
                    "queries": qs,
                }
            )
            if rng.random() < 0.3:
                cases[-1]["alias"] = self._alias(rng)
        for kind in ("linear", "spline"):
            for _ in range(n):
                k = rng.randint(4 if kind == "spline" else 3, 9)
                pts = _uneven_points(rng, k, smooth=(kind == "spline"))
                cases.append(
                    {
                        "kind": kind,
                        "points": pts,
                        "equalize": (rng.random() < 0.5) if kind == "linear" else True,
                        "pairs": self._pairs(rng, 0.0, 1.0, 5),
                        "triples": self._triples(rng, 0.0, 1.0, 3),
                        "knot_split": rng.randrange(1, k - 1),
                        "queries": self._queries(rng, pts, near_only=(kind == "spline"))
                        + ([{"near": False, "p": _add(rng.choice(pts), [rng.uniform(-0.3, 0.3) for _ in range(3)])} for _ in range(2)] if kind == "linear" else []),
                        "count": rng.randint(2, 20),
                    }
                )
                if kind == "linear" and rng.random() < 0.3:
                    cases[-1]["alias"] = self._alias(rng)
                if kind == "spline":
                    g = rng.choice([1.0, 1.0, 1e-2, 1e-3])  # unit size or small (millimetres given in metres)
                    cases[-1]["points"] = [_mul(g, p) for p in pts]
                    # "near the curve" means near the spline itself: with uneven spacing it can swing far away from the
                    # polyline of its points, so the queries are taken off the curve (at most 1 % of its length away)
                    cases[-1]["queries"] = []
                    cases[-1]["tq"] = [rng.uniform(0.03, 0.97) for _ in range(4)]
                    cases[-1]["off"] = [[rng.uniform(-0.01, 0.01) for _ in range(3)] for _ in range(4)]
        for _ in range(n):
            which = rng.choice(["line", "circle", "helix"])
            c: dict = {"kind": "analytic", "curve": which, "count": rng.randint(2, 30)}
            if which == "line":
                c["p1"] = [rng.uniform(-5, 5) for _ in range(3)]
                c["p2"] = _add(c["p1"], [rng.uniform(0.5, 5) * rng.choice([1, -1]) for _ in range(3)])
                c["bounds"] = [0.0, 1.0] if rng.random() < 0.6 else sorted([rng.uniform(-2, 0), rng.uniform(1, 3)])
            elif which == "circle":
                c["origin"] = [rng.uniform(-5, 5) for _ in range(3)]
                R = 10 ** rng.uniform(-1, 1)
                c["rim"] = _add(c["origin"], _mul(R, self._unit(rng)))
                nrm = self._unit(rng)
                r = _sub(c["rim"], c["origin"])
                dot = sum(a * b for a, b in zip(nrm, r)) / (R * R)
                nrm = _sub(nrm, _mul(dot, r))  # make it orthogonal to the radius
                if math.sqrt(sum(x * x for x in nrm)) < 0.2:
                    nrm = [r[1], -r[0], 0.0] if abs(r[2]) > 0.5 * R else [0.0, r[2], -r[1]]
                c["normal"] = nrm
                c["bounds"] = [0.0, 2 * math.pi]
                if rng.random() < 0.5:  # an arc whose parameter range does not start at 0 (no seam inside)
                    lo_ = -rng.uniform(0.5, 2.0)
                    c["bounds"] = [lo_, lo_ + rng.uniform(2.5, 5.5)]
            else:
                c["r"], c["h"] = rng.uniform(0.5, 3), rng.uniform(0.1, 1)
                c["bounds"] = [0.0 if rng.random() < 0.5 else -rng.uniform(0.5, 2.0), rng.uniform(2, 9)]
            lo, hi = c["bounds"]
            m = 0.08 * (hi - lo)  # stay away from the seam / the ends
            c["pairs"] = self._pairs(rng, lo + m, hi - m, 4)
            c["triples"] = self._triples(rng, lo + m, hi - m, 3)
            # boundary values: exactly the bounds, equal parameters, and an explicit parameter of exactly 0
            x = rng.uniform(lo + m, hi - m)
            c["pairs"] += [[lo, hi], [hi, lo], [x, x]]
            if lo < 0.0 < hi:
                c["pairs"] += [[0.0, x], [x, 0.0], [0.0, 0.0], [0.0, hi]]
                c["triples"] += [[lo, 0.0, hi], sorted([0.0, x, hi])]
            else:
                c["triples"] += [[lo, x, hi]]
            c["tq"] = [rng.uniform(lo + m, hi - m) for _ in range(3)]
            c["off"] = [[rng.uniform(-0.02, 0.02) for _ in range(3)] for _ in range(3)]  # fractions of the curve's size
            # the whole geometry at unit size or small (millimetres given in metres)
            g = rng.choice([1.0, 1.0, 1e-2, 1e-3])
            for key in ("p1", "p2", "origin", "rim"):
                if key in c:
                    c[key] = _mul(g, c[key])
            for key in ("r", "h"):
                if key in c:
                    c[key] *= g
            c["size"] = _dist(c["p1"], c["p2"]) if which == "line" else (_dist(c["origin"], c["rim"]) if which == "circle" else c["r"])
            cases.append(c)
        for _ in range(n):
            which = rng.choice(["discrete", "linear", "spline", "circle", "line", "splinedata", "polylinedata"])
            c = {"kind": "edge", "curve": which, "n_points": rng.randint(1, 12)}
            if which in ("discrete", "linear", "spline", "splinedata", "polylinedata"):
                k = rng.randint(4, 9)
                c["points"] = _uneven_points(rng, k, smooth=(which == "spline"))
                if which == "discrete":
                    i, j = rng.sample(range(k), 2)
                    c["t"] = [float(i), float(j)]
                else:
                    c["t"] = [rng.uniform(0.02, 0.98), rng.uniform(0.02, 0.98)]
                if which in ("splinedata", "polylinedata"):
                    c["v"] = [_add(c["points"][0], [-1.0, 0.2, 0.1]), _add(c["points"][-1], [1.0, 0.1, -0.2])]
            elif which == "circle":
                c["origin"] = [rng.uniform(-5, 5) for _ in range(3)]
                c["rim"] = _add(c["origin"], [rng.uniform(0.5, 3), 0.0, 0.0])
                c["normal"] = [0.0, rng.uniform(-0.3, 0.3), 1.0]
                c["normal"][0] = 0.0
                c["normal"] = [0.0, 0.0, 1.0] if rng.random() < 0.5 else [0.0, 0.0, -1.0]
                c["t"] = [rng.uniform(0.5, 5.7), rng.uniform(0.5, 5.7)]
            else:
                c["p1"] = [rng.uniform(-5, 5) for _ in range(3)]
                c["p2"] = _add(c["p1"], [rng.uniform(0.5, 5) for _ in range(3)])
                c["t"] = [rng.uniform(0.05, 0.95), rng.uniform(0.05, 0.95)]
            if abs(c["t"][0] - c["t"][1]) < 0.02:
                c["t"][1] = c["t"][0] + (0.3 if c["t"][0] < 0.5 else -0.3) if which != "discrete" else c["t"][1]
            cases.append(c)
        # curves that were transformed; every question is asked first thing after the transformation
        for _ in range(n):
            kind = rng.choice(["linear", "linear", "spline"])
            k = rng.randint(4, 8)
            pts = _uneven_points(rng, k, smooth=(kind == "spline"))
            ops = []
            for _i in range(rng.randint(1, 2)):
                name = rng.choice(["translate", "rotate", "scale", "mirror", "shear", "shear", "shear"])
                if name == "translate":
                    ops.append(["translate", [rng.uniform(-5, 5) for _ in range(3)]])
                elif name == "rotate":
                    ops.append(["rotate", rng.uniform(-3, 3), self._unit(rng), [rng.uniform(-2, 2) for _ in range(3)]])
                elif name == "scale":
                    ops.append(["scale", rng.choice([0.3, 0.5, 1.7, 3.0]), [rng.uniform(-2, 2) for _ in range(3)]])
                elif name == "mirror":
                    ops.append(["mirror", self._unit(rng), [rng.uniform(-2, 2) for _ in range(3)]])
                else:
                    nrm = self._unit(rng)
                    d = self._unit(rng)
                    dot = sum(a * b for a, b in zip(nrm, d))
                    d = _sub(d, _mul(dot, nrm))  # shear direction in the plane
                    if math.sqrt(sum(x * x for x in d)) < 0.2:
                        d = [nrm[1], -nrm[0], 0.0] if abs(nrm[2]) < 0.9 else [0.0, nrm[2], -nrm[1]]
                    ops.append(["shear", nrm, [rng.uniform(-3, 3) for _ in range(3)], d, rng.uniform(0.5, 1.4)])
            cases.append(
                {
                    "kind": "tf",
                    "curve": kind,
                    "points": pts,
                    "ops": ops,
                    "mode": rng.choice(["method", "list"]),
                    "pairs": self._pairs(rng, 0.0, 1.0, 2),
                    "triple": sorted(rng.uniform(0, 1) for _ in range(3)),
                    "queries": [
                        {"seg": rng.randrange(k - 1), "lam": rng.uniform(0.15, 0.85), "off": [rng.uniform(-0.05, 0.05) for _ in range(3)]}
                        for _ in range(2)
                    ],
                }
            )
        # query sequences on ONE curve object: a hairpin (two nearly parallel legs joined by a bend), queries alternate between
        # the legs; every answer is compared with the answer of a fresh curve object and with a dense scan
        for _ in range(max(6, n // 3)):
            e1 = self._unit(rng)
            t_ = self._unit(rng)
            dot = sum(a * b for a, b in zip(e1, t_))
            e2 = _sub(t_, _mul(dot, e1))
            ne = math.sqrt(sum(x * x for x in e2))
            if ne < 0.2:
                continue
            e2 = _mul(1 / ne, e2)
            sc_ = 10 ** rng.uniform(-0.5, 0.5)
            B = rng.uniform(2.5, 2.9)
            c = {
                "kind": "seq",
                "curve": rng.choice(["hairpin", "hairpin_spline"]),
                "a": rng.uniform(6, 14) * sc_,
                "b": rng.uniform(0.3, 0.8) * sc_,
                "e1": e1,
                "e2": e2,
                "centre": [rng.uniform(-5, 5) for _ in range(3)],
                "B": B,
                "n_points": rng.randint(5, 15),
            }
            h = 2 * B / 14  # spacing of the 15 coarse samples of get_closest_param
            ts = []
            for _i in range(rng.randint(2, 3)):
                k = rng.choice([kk for kk in range(15) if 0.8 < -B + h * (kk + 0.5) < 2.3])
                ts.append(-B + h * (k + 0.5 + rng.uniform(-0.12, 0.12)))
            seq = []
            for t in ts:
                seq += [t, -t]
            if rng.random() < 0.5:
                seq.append(ts[0])
            c["seq"] = seq
            c["off"] = [[rng.uniform(-0.01, 0.01) * sc_ for _ in range(3)] for _ in seq]
            c["edge_t"] = rng.choice(ts)
            cases.append(c)
        # edge histories: observe, move the vertices along the curve (as optimizer clamps do), observe again
        for _ in range(n):
            which = rng.choice(["linear", "spline", "circle", "line", "helix"])
            c = {"kind": "edge_hist", "curve": which, "n_points": rng.randint(2, 10)}
            if which in ("linear", "spline"):
                c["points"] = _uneven_points(rng, rng.randint(4, 8), smooth=(which == "spline"))
                lo, hi = 0.0, 1.0
            elif which == "circle":
                c["origin"] = [rng.uniform(-5, 5) for _ in range(3)]
                c["rim"] = _add(c["origin"], [rng.uniform(0.5, 3), 0.0, 0.0])
                c["normal"] = [0.0, 0.0, rng.choice([1.0, -1.0])]
                lo, hi = 0.5, 5.7
            elif which == "line":
                c["p1"] = [rng.uniform(-5, 5) for _ in range(3)]
                c["p2"] = _add(c["p1"], [rng.uniform(0.5, 5) for _ in range(3)])
                lo, hi = 0.0, 1.0
            else:
                c["r"], c["h"] = rng.uniform(0.5, 3), rng.uniform(0.1, 1)
                c["bounds"] = [0.0, rng.uniform(3, 6)]
                lo, hi = c["bounds"]
            w = hi - lo
            steps = []
            for _i in range(rng.randint(2, 3)):
                a = rng.uniform(lo + 0.05 * w, lo + 0.45 * w)
                b = rng.uniform(lo + 0.55 * w, lo + 0.95 * w)
                steps.append([a, b] if rng.random() < 0.7 else [b, a])
            c["steps"] = steps
            cases.append(c)
        # malformed / boundary stream: parameters outside the bounds
        for _ in range(max(4, n // 10)):
            k = rng.randint(3, 6)
            pts = _uneven_points(rng, k)
            bad = rng.choice([-0.5, -1.0, k - 1 + 0.5, float(k), k + 3.0])
            cases.append({"kind": "bad", "curve": rng.choice(["discrete", "linear"]), "points": pts, "a": bad, "b": 0.0 if rng.random() < 0.5 else 1.0})
        # round 6b — histories query -> transform -> query on ONE curve object, every curve class, every kind of transform, in place,
        # on a copy of the queried curve, or as part of a copied operation that carries the curve on an edge
        # quick: 12 histories (8 on circles — the class whose distance function is not convex along the parameter —, one on each
        # other class; the three ways of transforming rotate through them); the bulk (100+) is in the thorough tier
        classes = ["circle", "circle", "line", "circle", "circle", "linear", "circle", "circle", "spline", "circle", "circle", "discrete"]
        for i in range(12 if tier == "quick" else max(36, n // 4)):
            which = classes[i % len(classes)]
            c = {"kind": "qtq", "curve": which, "via": ["inplace", "copy", "opcopy"][(i + i // len(classes) + i // 3) % 3]}
            if which == "circle":
                c["origin"] = [rng.uniform(-5, 5) for _ in range(3)]
                R = 10 ** rng.uniform(-0.5, 0.7)
                u = self._unit(rng)
                c["rim"] = _add(c["origin"], _mul(R, u))
                nrm = self._unit(rng)
                nrm = _sub(nrm, _mul(sum(a * b for a, b in zip(nrm, u)), u))
                if math.sqrt(sum(x * x for x in nrm)) < 0.2:
                    nrm = [u[1], -u[0], 0.0] if abs(u[2]) < 0.9 else [0.0, u[2], -u[1]]
                c["normal"] = nrm
                c["bounds"] = [0.0, 2 * math.pi] if rng.random() < 0.7 else [0.2, rng.uniform(2.5, 5.5)]
                c["size"] = R
            elif which == "line":
                c["p1"] = [rng.uniform(-5, 5) for _ in range(3)]
                c["p2"] = _add(c["p1"], [rng.uniform(0.5, 5) * rng.choice([1, -1]) for _ in range(3)])
                c["bounds"] = [0.0, 1.0] if rng.random() < 0.5 else [-1.0, 3.0]
                c["size"] = _dist(c["p1"], c["p2"])
            else:
                c["points"] = _uneven_points(rng, rng.randint(4, 8), smooth=(which == "spline"))
                c["bounds"] = [0.0, 1.0] if which != "discrete" else [0.0, float(len(c["points"]) - 1)]
                c["size"] = _poly(c["points"])
            lo, hi = c["bounds"]
            m = 0.08 * (hi - lo)
            steps = []
            names = ["translate", "rotate", "scale", "mirror"]
            rng.shuffle(names)
            for name in names[: rng.randint(1, 2)]:
                if name == "translate":
                    op = ["translate", [rng.uniform(-3, 3) * c["size"] for _ in range(3)]]
                elif name == "rotate":
                    # often about the curve's own axis / a point of its own, by angles on either side of pi
                    axis = c["normal"] if which == "circle" and rng.random() < 0.5 else self._unit(rng)
                    org = c["origin"] if which == "circle" and rng.random() < 0.5 else [rng.uniform(-3, 3) for _ in range(3)]
                    op = ["rotate", rng.choice([-1, 1]) * rng.uniform(0.7, 3.6), axis, org]
                elif name == "scale":
                    op = ["scale", rng.choice([0.3, 0.5, 2.5, 4.0]), [rng.uniform(-3, 3) for _ in range(3)]]
                else:
                    op = ["mirror", self._unit(rng), [rng.uniform(-3, 3) for _ in range(3)]]
                steps.append(op)
            c["ops"] = steps
            # the parameters near which the queries are placed, before and after each transform; offsets are fractions of the size
            c["tq"] = [[rng.uniform(lo + m, hi - m) for _ in range(3)] for _ in range(len(steps) + 1)]
            c["off"] = [[[rng.uniform(-0.01, 0.01) for _ in range(3)] for _ in range(3)] for _ in range(len(steps) + 1)]
            cases.append(c)
        return cases

    @staticmethod
    def _alias(rng):
        """another curve is built from the very same numpy array of points and then moved; the curve under test must not notice"""
        return {"other": rng.choice(["linear", "spline", "discrete"]), "translate": [rng.uniform(-5, 5) for _ in range(3)]}

    @staticmethod
    def _unit(rng):
        while True:
            v = [rng.gauss(0, 1) for _ in range(3)]
            n = math.sqrt(sum(x * x for x in v))
            if n > 0.3:
                return [x / n for x in v]

    @staticmethod
    def _no_tie(pts, q) -> bool:
        d = sorted(_dist(p, q) for p in pts)
        return d[1] - d[0] > 1e-6 * max(1.0, d[1])

    # ------------------------------------------------------------------ implementation
    def _curve(self, case, record=None):
        import numpy as np

        import classy_blocks as cb

        which = case.get("curve", case["kind"])
        if "alias" in case and which in ("discrete", "linear"):
            # the user's points are one numpy array of floats, given to two curves; the other one is then translated
            shared = np.array(case["points"], dtype=float)
            cls = {"linear": cb.LinearInterpolatedCurve, "spline": cb.SplineInterpolatedCurve, "discrete": cb.DiscreteCurve}
            curve = (
                cb.DiscreteCurve(shared)
                if which == "discrete"
                else cb.LinearInterpolatedCurve(shared, equalize=case.get("equalize", True))
            )
            name = case["alias"]["other"]
            other = cls["linear" if name == "spline" and len(shared) < 4 else name](shared)
            other.translate(case["alias"]["translate"])
            return curve
        if which in ("discrete", "splinedata", "polylinedata"):
            return cb.DiscreteCurve(case["points"])
        if which == "linear":
            return cb.LinearInterpolatedCurve(case["points"], equalize=case.get("equalize", True))
        if which == "spline":
            return cb.SplineInterpolatedCurve(case["points"])
        if which == "line":
            return cb.LineCurve(case["p1"], case["p2"], tuple(case.get("bounds", (0, 1))))
        if which == "circle":
            return cb.CircleCurve(case["origin"], case["rim"], case["normal"], tuple(case.get("bounds", (0, 2 * math.pi))))
        if which in ("hairpin", "hairpin_spline"):
            a, b, e1, e2, ctr, B = case["a"], case["b"], case["e1"], case["e2"], case["centre"], case["B"]

            def hp(t):
                return np.array(ctr) + a * math.cos(t) * np.array(e1) + b * math.sin(t) * np.array(e2)

            if which == "hairpin":
                return cb.AnalyticCurve(hp, (-B, B))
            us = [-1 + 2 * i / 40 for i in range(41)]
            return cb.SplineInterpolatedCurve([hp(B * math.copysign(abs(u) ** 1.3, u)) for u in us])
        if which == "helix":
            r, h = case["r"], case["h"]

            def fn(t):
                if record is not None:
                    record.append(float(t))
                return np.array([r * math.cos(t), r * math.sin(t), h * t])

            return cb.AnalyticCurve(fn, tuple(case["bounds"]))
        raise AssertionError(which)

    def run_impl(self, case: dict) -> Any:
        import numpy as np

        warnings.simplefilter("ignore")
        kind = case["kind"]
        fl = lambda p: [float(x) for x in p]

        if kind == "bad":
            curve = self._curve(case)
            out = {}
            for name, call in (
                ("discretize", lambda: curve.discretize(case["a"], case["b"])),
                ("get_length", lambda: curve.get_length(case["a"], case["b"])),
                ("get_point", lambda: curve.get_point(case["a"])),
            ):
                try:
                    call()
                    out[name] = "accepted"
                except ValueError:
                    out[name] = "ValueError"
                except Exception as e:  # noqa: BLE001
                    out[name] = type(e).__name__
            return out

        if kind == "edge":
            from classy_blocks.construct import edges
            from classy_blocks.items.edges.factory import factory
            from classy_blocks.items.vertex import Vertex

            curve = self._curve(case)
            which = case["curve"]
            if which in ("splinedata", "polylinedata"):
                data = edges.Spline(case["points"]) if which == "splinedata" else edges.PolyLine(case["points"])
                v = case["v"]
                ends = v
            else:
                data = edges.OnCurve(curve, n_points=case["n_points"], representation="spline")
                ends = [fl(curve.get_point(t)) for t in case["t"]]
            edge = factory.create(Vertex(ends[0], 0), Vertex(ends[1], 1), data)
            out = {
                "ends": ends,
                "pts": [fl(p) for p in edge.point_array],
                "length": float(edge.length),
                "desc": edge.description,
                "param_start": float(edge.param_start),
                "param_end": float(edge.param_end),
            }
            if which not in ("splinedata", "polylinedata"):
                out["expected_pts"] = [fl(p) for p in curve.discretize(case["t"][0], case["t"][1], case["n_points"] + 2)][1:-1]
                out["expected_len"] = float(curve.get_length(case["t"][0], case["t"][1]))
            return out

        if kind == "seq":
            return self._run_seq(case)
        if kind == "tf":
            return self._run_tf(case)
        if kind == "qtq":
            return self._run_qtq(case)
        if kind == "edge_hist":
            return self._run_edge_hist(case)

        record: List[float] = []
        curve = self._curve(case, record)
        out: dict = {"pairs": [], "triples": [], "queries": []}
        pts = case.get("points")

        def index_of(p):
            for i, q in enumerate(pts):
                if all(float(a) == float(b) for a, b in zip(p, q)):
                    return i
            return -1

        errors: List[str] = []
        out["errors"] = errors

        def length(a, b):
            try:
                return float(curve.get_length(a, b))
            except Exception as e:  # noqa: BLE001  (valid parameters: every exception is an observation)
                errors.append(f"get_length({a}, {b}): {type(e).__name__}: {e}"[:160])
                return float("nan")

        for a, b in case["pairs"]:
            if kind == "discrete":
                disc = curve.discretize(a, b)
                o = {"disc": [index_of(p) for p in disc]}
            else:
                del record[:]
                disc = curve.discretize(a, b, case["count"])
                o = {"n": len(disc), "recorded": list(record)}
            o["first"], o["last"] = fl(disc[0]), fl(disc[-1])
            o["pa"], o["pb"] = fl(curve.get_point(a)), fl(curve.get_point(b))
            o["len"] = length(a, b)
            o["len_rev"] = length(b, a)
            out["pairs"].append(o)
        for a, b, c in case["triples"]:
            out["triples"].append([length(a, b), length(b, c), length(a, c)])
        if kind in ("linear", "spline"):
            knots = [float(t) for t in curve.function.params]
            out["knots"] = knots
            out["through"] = [fl(curve.get_point(t)) for t in knots]
            t = knots[case["knot_split"]]
            out["knot_split"] = [length(0, t), length(t, 1), length(0, 1)]
            out["full"] = float(curve.length)
        lo, hi = curve.bounds
        if kind == "analytic":
            queries = [
                {"near": True, "p": _add(fl(curve.get_point(t)), _mul(case.get("size", 1.0), off))}
                for t, off in zip(case["tq"], case["off"])
            ]
        elif kind == "spline" and "tq" in case:
            L = _poly(case["points"])
            queries = [{"near": True, "p": _add(fl(curve.get_point(t)), _mul(L, off))} for t, off in zip(case["tq"], case["off"])]
        else:
            queries = case["queries"]
        scan = None
        for q in queries:
            t = float(curve.get_closest_param(q["p"]))
            o = {"t": t, "d": _dist(fl(curve.get_point(t)), q["p"])}
            if kind == "analytic":
                o["p"] = fl(q["p"])
            if kind != "discrete":
                if scan is None:
                    scan = [fl(curve.get_point(min(hi, lo + (hi - lo) * i / (N_SCAN - 1)))) for i in range(N_SCAN)]
                o["scan_min"] = min(_dist(p, q["p"]) for p in scan)
            out["queries"].append(o)
        out["bounds"] = [float(lo), float(hi)]
        if kind == "analytic" and case["curve"] == "helix":
            # argument handling of discretize(): omitted parameters, an explicit 0, the bounds themselves, out of bounds
            x = case["tq"][0]
            variants = [[None, None], [None, x], [x, None], [float(lo), float(hi)], [float(hi) + 1.0, x], [x, float(lo) - 0.5]]
            if lo <= 0.0 <= hi:
                variants += [[0.0, x], [x, 0.0], [0.0, None]]
            out["argcalls"] = []
            for a, b in variants:
                del record[:]
                try:
                    curve.discretize(a, b, case["count"])
                    out["argcalls"].append({"a": a, "b": b, "recorded": list(record)})
                except ValueError:
                    out["argcalls"].append({"a": a, "b": b, "recorded": "ValueError"})
        return out

    def _run_tf(self, case: dict) -> Any:
        import classy_blocks as cb

        fl = lambda p: [float(x) for x in p]

        def fresh():
            """a newly built and newly transformed curve: whatever is asked next is the first thing asked"""
            curve = self._curve(case)
            if case["mode"] == "method":
                for op in case["ops"]:
                    if op[0] == "translate":
                        curve.translate(op[1])
                    elif op[0] == "rotate":
                        curve.rotate(op[1], op[2], op[3])
                    elif op[0] == "scale":
                        curve.scale(op[1], op[2])
                    elif op[0] == "mirror":
                        curve.mirror(op[1], op[2])
                    else:
                        curve.shear(op[1], op[2], op[3], op[4])
            else:
                tfs = []
                for op in case["ops"]:
                    if op[0] == "translate":
                        tfs.append(cb.Translation(op[1]))
                    elif op[0] == "rotate":
                        tfs.append(cb.Rotation(op[2], op[1], op[3]))
                    elif op[0] == "scale":
                        tfs.append(cb.Scaling(op[1], op[2]))
                    elif op[0] == "mirror":
                        tfs.append(cb.Mirror(op[1], op[2]))
                    else:
                        tfs.append(cb.Shear(op[1], op[2], op[3], op[4]))
                curve.transform(tfs)
            return curve

        ref = fresh()
        moved = [fl(p) for p in ref.array.points]
        ref.get_point(0.5)  # settle the reference
        scan = [fl(ref.get_point(min(1.0, i / (N_SCAN - 1)))) for i in range(N_SCAN)]
        own_knots, _, _ = _own_linear(moved)
        out: dict = {"moved": moved}
        out["params"] = [float(t) for t in fresh().function.params]
        out["full"] = float(fresh().length)
        c = fresh()
        out["through"] = [fl(c.get_point(min(1.0, t))) for t in own_knots]
        out["pairs"] = [float(fresh().get_length(a, b)) for a, b in case["pairs"]]
        a, b, cc = case["triple"]
        out["triple"] = [float(fresh().get_length(a, b)), float(fresh().get_length(b, cc)), float(fresh().get_length(a, cc))]
        out["queries"] = []
        for q in case["queries"]:
            i = q["seg"]
            seg = _sub(moved[i + 1], moved[i])
            h = _dist(moved[i], moved[i + 1])
            p = _add(_add(moved[i], _mul(q["lam"], seg)), _mul(h, q["off"]))
            if case["curve"] == "spline":
                # near the spline itself, not near the polyline of its points (at most 1 % of the length away)
                tq = min(1.0, (i + q["lam"]) / (len(moved) - 1))
                p = _add(fl(ref.get_point(tq)), _mul(0.2 * _poly(moved), q["off"]))
            c = fresh()
            t = float(c.get_closest_param(p))
            out["queries"].append({"p": p, "t": t, "d": _dist(fl(c.get_point(t)), p), "scan_min": min(_dist(x, p) for x in scan)})
        return out

    def _run_qtq(self, case: dict) -> Any:
        """query -> transform -> query on one curve object (in place, on a copy, or through a copied operation)"""
        import classy_blocks as cb

        fl = lambda p: [float(x) for x in p]
        curve = self._curve(case)
        via = case["via"]
        discrete = case["curve"] == "discrete"
        op = None
        if via == "opcopy":
            # a loft whose first side edge lies on the curve; the curve travels with the operation
            lo, hi = curve.bounds
            ta, tb = lo + 0.2 * (hi - lo), lo + 0.6 * (hi - lo)
            pa, pb = np_pt(curve.get_point(ta)), np_pt(curve.get_point(tb))
            d = _sub(pb, pa)
            e = [d[1], -d[0], 0.0] if abs(d[0]) + abs(d[1]) > 1e-6 else [0.0, d[2], -d[1]]
            en = math.sqrt(sum(x * x for x in e))
            e = [x / en * case["size"] for x in e]
            g = [d[1] * e[2] - d[2] * e[1], d[2] * e[0] - d[0] * e[2], d[0] * e[1] - d[1] * e[0]]
            gn = math.sqrt(sum(x * x for x in g))
            g = [x / gn * case["size"] for x in g]
            bottom = [pa, _add(pa, e), _add(_add(pa, e), g), _add(pa, g)]
            top = [pb, _add(pb, e), _add(_add(pb, e), g), _add(pb, g)]
            op = cb.Loft(cb.Face(bottom), cb.Face(top))
            op.add_side_edge(0, cb.OnCurve(curve))

        def ask(c, k):
            lo, hi = c.bounds
            scan = None
            res = []
            for t, off in zip(case["tq"][k], case["off"][k]):
                t = float(int(round(t))) if discrete else t
                q = _add(fl(c.get_point(t)), _mul(case["size"], off))
                try:
                    tr = float(c.get_closest_param(q))
                except Exception as e:  # noqa: BLE001
                    res.append({"p": q, "error": f"{type(e).__name__}: {e}"[:120]})
                    continue
                if scan is None:
                    if discrete:
                        scan = [fl(p) for p in c.discretize()]
                    else:
                        scan = [fl(c.get_point(min(hi, lo + (hi - lo) * i / (N_SCAN - 1)))) for i in range(N_SCAN)]
                inb = lo <= tr <= hi
                res.append(
                    {
                        "p": q,
                        "t": tr,
                        "in_bounds": bool(inb),
                        "d": _dist(fl(c.get_point(min(hi, max(lo, tr)))), q),
                        "scan_min": min(_dist(x, q) for x in scan),
                    }
                )
            return res

        def apply(obj, o):
            if o[0] == "translate":
                obj.translate(o[1])
            elif o[0] == "rotate":
                obj.rotate(o[1], o[2], o[3])
            elif o[0] == "scale":
                obj.scale(o[1], o[2])
            else:
                obj.mirror(o[1], o[2])

        out = {"steps": [ask(curve, 0)]}
        for k, o in enumerate(case["ops"], start=1):
            if via == "inplace":
                apply(curve, o)
            elif via == "copy":
                curve = curve.copy()
                apply(curve, o)
            else:
                op = op.copy()
                apply(op, o)
                curve = op.side_edges[0].curve
            out["steps"].append(ask(curve, k))
        return out

    def _run_seq(self, case: dict) -> Any:
        from classy_blocks.construct import edges
        from classy_blocks.items.edges.factory import factory
        from classy_blocks.items.vertex import Vertex

        fl = lambda p: [float(x) for x in p]
        a, b, e1, e2, ctr = case["a"], case["b"], case["e1"], case["e2"], case["centre"]
        hp = lambda t: _add(ctr, _add(_mul(a * math.cos(t), e1), _mul(b * math.sin(t), e2)))
        shared = self._curve(case)
        lo, hi = shared.bounds
        scan = [fl(p) for p in self._curve(case).discretize(lo, hi, 2001)]
        out: dict = {"queries": []}
        for t, off in zip(case["seq"], case["off"]):
            q = _add(hp(t), off)
            ts = float(shared.get_closest_param(q))
            fresh = self._curve(case)
            tf = float(fresh.get_closest_param(q))
            out["queries"].append(
                {
                    "p": q,
                    "t": ts,
                    "d": _dist(fl(shared.get_point(ts)), q),
                    "t_fresh": tf,
                    "d_fresh": _dist(fl(fresh.get_point(tf)), q),
                    "scan_min": min(_dist(x, q) for x in scan),
                }
            )
        # an edge around the bend between two vertices that face each other across the gap
        t = case["edge_t"]
        p1, p2 = hp(t), hp(-t)
        curve = self._curve(case)
        edge = factory.create(Vertex(p1, 0), Vertex(p2, 1), edges.OnCurve(curve, n_points=case["n_points"]))
        pa = float(self._curve(case).get_closest_param(p1))
        pb = float(self._curve(case).get_closest_param(p2))
        ref = self._curve(case)
        out["edge"] = {
            "pts": [fl(p) for p in edge.point_array],
            "length": float(edge.length),
            "params": [float(edge.param_start), float(edge.param_end)],
            "expected_params": [pa, pb],
            "expected_pts": [fl(p) for p in ref.discretize(pa, pb, case["n_points"] + 2)][1:-1],
            "expected_len": float(ref.get_length(pa, pb)),
        }
        return out

    def _run_edge_hist(self, case: dict) -> Any:
        from classy_blocks.construct import edges
        from classy_blocks.items.edges.factory import factory
        from classy_blocks.items.vertex import Vertex

        fl = lambda p: [float(x) for x in p]
        curve = self._curve(case)
        t0 = case["steps"][0]
        v1, v2 = Vertex(fl(curve.get_point(t0[0])), 0), Vertex(fl(curve.get_point(t0[1])), 1)
        edge = factory.create(v1, v2, edges.OnCurve(curve, n_points=case["n_points"], representation="spline"))
        steps = []
        for k, (ta, tb) in enumerate(case["steps"]):
            if k > 0:
                v1.move_to(curve.get_point(ta))
                v2.move_to(curve.get_point(tb))
            steps.append(
                {
                    "length": float(edge.length),
                    "desc": edge.description,
                    "pts": [fl(p) for p in edge.point_array],
                    "param_start": float(edge.param_start),
                    "param_end": float(edge.param_end),
                    "expected_pts": [fl(p) for p in curve.discretize(ta, tb, case["n_points"] + 2)][1:-1],
                    "expected_len": float(curve.get_length(ta, tb)),
                }
            )
        return {"steps": steps}

    # ------------------------------------------------------------------ model
    def requests(self, case: dict, impl: Any) -> List[str]:
        kind = case["kind"]
        eps = core.rat(EPS_WIT)
        reqs: List[str] = []
        if kind == "discrete":
            n = len(case["points"])
            for a, b in case["pairs"]:
                reqs.append(f"c16.disc {n} {core.rat(a)} {core.rat(b)}")
                reqs.append(f"c16.dpoint {n} {core.rat(a)}")
                reqs.append(f"c16.dlen {_vecs(case['points'])} {core.rat(a)} {core.rat(b)} {eps}")
            for q in case["queries"]:
                reqs.append(f"c16.dclosest {_vecs(case['points'])} {_vec(q['p'])}")
        elif kind == "linear":
            e = "" if case.get("equalize", True) else "E"  # evenly spaced knots in the model for equalize=False
            for a, b in case["pairs"]:
                reqs.append(f"c16.ilen{e} {_vecs(case['points'])} {core.rat(a)} {core.rat(b)} {eps}")
                reqs.append(f"c16.ipoint{e} {_vecs(case['points'])} {core.rat(a)} {eps}")
            for q in case["queries"]:
                reqs.append(f"c16.lclosest{e} {_vecs(case['points'])} {_vec(q['p'])} {eps}")
        elif kind == "analytic" and case["curve"] == "helix":
            for (a, b), o in zip(case["pairs"], impl["pairs"]):
                reqs.append(f"c16.linspace {core.rat(a)} {core.rat(b)} {case['count']}")
            lo, hi = impl["bounds"]
            opt = lambda v: "none" if v is None else core.rat(v)
            for c in impl.get("argcalls", []):
                reqs.append(f"c16.params {core.rat(lo)} {core.rat(hi)} {opt(c['a'])} {opt(c['b'])} {case['count']}")
        elif kind == "analytic" and case["curve"] == "line":
            # round 6: LineCurve's function and AnalyticCurve.get_length (argument handling, 100 samples, polyline) in the model
            lo, hi = impl["bounds"]
            for a, b in case["pairs"]:
                reqs.append(
                    f"c16.linelen {_vec(case['p1'])} {_vec(case['p2'])} {core.rat(lo)} {core.rat(hi)} {core.rat(a)} {core.rat(b)} {eps}"
                )
        elif kind == "analytic" and case["curve"] == "circle":
            # round 6: CircleCurve's function (Rodrigues) with an exact rational (cos t, sin t), and its closest parameter
            # against the analytic optimum (T_C16_circle_closest_real)
            head = f"{_vec(case['origin'])} {_vec(case['rim'])} {_vec(_unit_f(case['normal']))}"
            for a, _b in case["pairs"]:
                ct, st = _cos_sin(a)
                reqs.append(f"c16.circle {head} {core.rat(ct)} {core.rat(st)}")
            for o in impl["queries"]:
                ct, st = _cos_sin(o["t"])
                reqs.append(f"c16.vcircle {head} {_vec(o['p'])} {core.rat(ct)} {core.rat(st)} {eps}")
        elif kind == "tf" and case["curve"] == "linear":
            for a, b in case["pairs"]:
                reqs.append(f"c16.ilen {_vecs(impl['moved'])} {core.rat(a)} {core.rat(b)} {eps}")
            for q in impl["queries"]:
                reqs.append(f"c16.lclosest {_vecs(impl['moved'])} {_vec(q['p'])} {eps}")
        elif kind == "edge":
            reqs.append(f"c16.parray {len(impl['pts']) + 2}")
        elif kind == "bad":
            n = len(case["points"])
            if case["curve"] == "discrete":
                reqs.append(f"c16.disc {n} {core.rat(case['a'])} {core.rat(case['b'])}")
                reqs.append(f"c16.dpoint {n} {core.rat(case['a'])}")
            else:
                reqs.append(f"c16.ilen {_vecs(case['points'])} {core.rat(case['a'])} {core.rat(case['b'])} {eps}")
        return reqs

    def compare(self, case: dict, impl: Any, model: List[str]) -> Optional[str]:
        kind = case["kind"]
        for m in model:
            if m.startswith("bad"):
                return f"model answers {m}"
        if kind == "discrete":
            it = iter(model)
            sc = _scale(case["points"])
            for (a, b), o in zip(case["pairs"], impl["pairs"]):
                disc, dpoint, dlen = next(it), next(it), next(it)
                want = "[" + ",".join(map(str, o["disc"])) + "]"
                if disc != want:
                    return f"discretize({a}, {b}): implementation {want}, model {disc}"
                ia = [i for i, p in enumerate(case["points"]) if [float(x) for x in p] == o["pa"]]
                if dpoint not in [str(i) for i in ia]:
                    return f"get_point({a}): implementation point #{ia}, model {dpoint}"
                if not dlen.startswith("ok "):
                    return f"get_length({a}, {b}): model {dlen}"
                ml = float(core.parse_rat(dlen.split()[1]))
                if not abs(ml - o["len"]) <= TOL * sc * 10:
                    return f"get_length({a}, {b}): implementation {o['len']}, model {ml}"
            for q, o in zip(case["queries"], impl["queries"]):
                ans = next(it)
                if float(ans) != o["t"]:
                    return f"get_closest_param({q['p']}): implementation {o['t']}, model {ans}"
            return None
        if kind == "linear":
            it = iter(model)
            sc = _scale(case["points"])
            for (a, b), o in zip(case["pairs"], impl["pairs"]):
                ilen, ipoint = next(it), next(it)
                if not ilen.startswith("ok "):
                    return f"get_length({a}, {b}): model {ilen}"
                ml = float(core.parse_rat(ilen.split()[1]))
                if not abs(ml - o["len"]) <= TOL * sc * 10:
                    return f"get_length({a}, {b}): implementation {o['len']}, model {ml}"
                if not abs(ml - o["len_rev"]) <= TOL * sc * 10:
                    return f"get_length({b}, {a}): implementation {o['len_rev']}, model {ml}"
                if not ipoint.startswith("ok "):
                    return f"get_point({a}): model {ipoint}"
                mp = _parse_vec(ipoint.split()[1])
                if not max(abs(x - y) for x, y in zip(mp, o["pa"])) <= TOL * sc * 10:
                    return f"get_point({a}): implementation {o['pa']}, model {mp}"
            for q, o in zip(case["queries"], impl["queries"]):
                ans = next(it).split()
                if ans[0] != "ok":
                    return f"get_closest_param({q['p']}): model {ans}"
                mt, md2 = float(core.parse_rat(ans[2])), float(core.parse_rat(ans[3]))
                # the parameter is compared through the distance it achieves (ties between segments are legitimate)
                if not abs(math.sqrt(md2) - o["d"]) <= TOL * sc * 10:
                    return f"get_closest_param({q['p']}): implementation t={o['t']} at distance {o['d']}, model t={mt} at {math.sqrt(md2)}"
                if not abs(mt - o["t"]) <= 1e-9 and not abs(math.sqrt(md2) - o["d"]) <= 1e-12 * sc:
                    return f"get_closest_param({q['p']}): implementation t={o['t']}, model t={mt}"
            return None
        if kind == "analytic" and case["curve"] == "helix":
            for (a, b), o, ans in zip(case["pairs"], impl["pairs"], model):
                want = [float(core.parse_rat(x)) for x in ans.strip("[]").split(",")]
                rec = o["recorded"]
                if len(rec) != len(want) or not max(abs(x - y) for x, y in zip(rec, want)) <= 1e-12 * max(1.0, abs(a), abs(b)):
                    return f"discretize({a}, {b}, {case['count']}) evaluates the curve at {rec[:3]}…, model linspace {want[:3]}…"
            for c, ans in zip(impl.get("argcalls", []), model[len(case["pairs"]) :]):
                call = f"discretize({c['a']}, {c['b']}, {case['count']}) with bounds {impl['bounds']}"
                if ans == "reject" or c["recorded"] == "ValueError":
                    if not (ans == "reject" and c["recorded"] == "ValueError"):
                        return f"{call}: implementation {str(c['recorded'])[:60]}, model {ans[:60]}"
                    continue
                want = [float(core.parse_rat(x)) for x in ans.split()[3].strip("[]").split(",")]
                rec = c["recorded"]
                if len(rec) != len(want) or not max(abs(x - y) for x, y in zip(rec, want)) <= 1e-12 * max(1.0, *map(abs, impl["bounds"])):
                    return f"{call} evaluates the curve at {rec[:2]}…{rec[-1:]}, model {want[:2]}…{want[-1:]}"
            return None
        if kind == "analytic" and case["curve"] == "line":
            sc = max(1.0, _dist(case["p1"], case["p2"]) * max(1.0, *map(abs, impl["bounds"])))
            for (a, b), o, ans in zip(case["pairs"], impl["pairs"], model):
                w = ans.split()
                if w[0] != "ok":
                    return f"LineCurve.get_length({a}, {b}): model answers {ans[:60]}"
                ml = float(core.parse_rat(w[1]))
                if not abs(ml - o["len"]) <= TOL * sc * 10:
                    return f"LineCurve.get_length({a}, {b}): implementation {o['len']}, model (100-point polyline) {ml}"
            return None
        if kind == "analytic" and case["curve"] == "circle":
            sc = max(1.0, *[abs(x) for x in case["origin"]], case.get("size", 1.0))
            it = iter(model)
            for (a, _b), o in zip(case["pairs"], impl["pairs"]):
                w = next(it).split()
                mp = [float(core.parse_rat(x)) for x in w[1].split(",")]
                if not _dist(mp, o["pa"]) <= TOL * sc * 10:
                    return f"CircleCurve.get_point({a}): implementation {o['pa']}, model {mp}"
            for o in impl["queries"]:
                w = next(it).split()
                if w[0] != "ok":
                    return f"CircleCurve.get_closest_param({o['p']}): model answers {w}"
                d, dmin = math.sqrt(float(core.parse_rat(w[1]))), math.sqrt(max(0.0, float(core.parse_rat(w[2]))))
                if not abs(d - o["d"]) <= TOL * sc * 10:
                    return f"CircleCurve.get_point({o['t']}): {o['d']} from the query, model's curve point {d}"
                if not d <= dmin + TOL_MIN * sc * 10:
                    return (
                        f"CircleCurve.get_closest_param({o['p']}) = {o['t']}: curve point {d} away, the circle is {dmin} away "
                        "(closest point = the point at the query's own angle)"
                    )
            return None
        if kind == "tf":
            it = iter(model)
            sc = _scale(impl["moved"])
            for (a, b), l in zip(case["pairs"], impl["pairs"]):
                ans = next(it).split()
                if ans[0] != "ok":
                    return f"get_length({a}, {b}) after {case['ops']}: model {ans}"
                ml = float(core.parse_rat(ans[1]))
                if not abs(ml - l) <= TOL * sc * 10:
                    return f"get_length({a}, {b}) right after {[o[0] for o in case['ops']]}: implementation {l}, model on the moved points {ml}"
            for q in impl["queries"]:
                ans = next(it).split()
                if ans[0] != "ok":
                    return f"get_closest_param after transform: model {ans}"
                md = math.sqrt(float(core.parse_rat(ans[3])))
                if not abs(md - q["d"]) <= TOL * sc * 10:
                    return f"get_closest_param({q['p']}) right after {[o[0] for o in case['ops']]}: implementation t={q['t']} at {q['d']}, model at {md}"
            return None
        if kind == "edge":
            k = len(impl["pts"]) + 2
            want = "[" + ",".join(str(i) for i in range(1, k - 1)) + "]"
            return None if model[0] == want else f"point_array keeps {model[0]} of {k} points in the model"
        if kind == "bad":
            rej_model = [m == "reject" for m in model]
            if case["curve"] == "discrete":
                if rej_model[0] != (impl["discretize"] == "ValueError") or rej_model[1] != (impl["get_point"] == "ValueError"):
                    return f"bounds check: implementation {impl}, model {model}"
            else:
                if rej_model[0] != (impl["get_length"] == "ValueError"):
                    return f"bounds check: implementation {impl}, model {model}"
            return None
        return None

    # ------------------------------------------------------------------ oracle (property stated on the implementation)
    def oracle(self, case: dict, impl: Any) -> List[dict]:
        out: List[dict] = []
        kind = case["kind"]

        def bad(site, what, observed=None, expected=None):
            out.append({"site": site, "what": what, "observed": observed, "expected": expected})

        if kind == "bad":
            for name, res in impl.items():
                if res != "ValueError":
                    bad(f"{case['curve']}.{name}:parameter-out-of-bounds:{res}", f"a={case['a']} b={case['b']}: {res}")
            return out

        cname = {"discrete": "DiscreteCurve", "linear": "LinearInterpolatedCurve", "spline": "SplineInterpolatedCurve"}.get(
            case.get("curve", kind), "AnalyticCurve"
        )

        if kind == "qtq":
            # the closest-point clause of the property, asked before and after every transform of one curve object
            name = {"circle": "CircleCurve", "line": "LineCurve"}.get(case["curve"], cname)
            for k, step in enumerate(impl["steps"]):
                when = "fresh" if k == 0 else f"after-{case['ops'][k - 1][0]}:{case['via']}"
                for q in step:
                    if "error" in q:
                        bad(f"{name}.get_closest_param:raises:{when}", f"query {q['p']}: {q['error']}")
                        continue
                    sc = max(1.0, *[abs(x) for x in q["p"]])
                    if not q["in_bounds"]:
                        bad(f"{name}.get_closest_param:out-of-bounds:{when}", f"parameter {q['t']} outside {case['bounds']}")
                    elif not q["d"] <= q["scan_min"] + TOL_MIN * sc * 10:
                        bad(
                            f"{name}.get_closest_param:not-closest:{when}",
                            f"history {[o[0] for o in case['ops'][:k]]} ({case['via']}) after an earlier query on the same object: "
                            f"query {q['p']}: parameter {q['t']} is {q['d']} away, a dense scan of the moved curve finds {q['scan_min']}",
                            q["d"],
                            q["scan_min"],
                        )
            return out

        if kind == "seq":
            name = "AnalyticCurve" if case["curve"] == "hairpin" else "SplineInterpolatedCurve"
            sc = max(1.0, case["a"], max(abs(x) for x in case["centre"]))
            tol = TOL_MIN * sc * 10
            for i, q in enumerate(impl["queries"]):
                # only what the call history spoils is reported here: a fresh curve object answers the same query better
                if not q["d"] <= q["scan_min"] + tol and not q["d"] <= q["d_fresh"] + tol:
                    bad(
                        f"{name}.get_closest_param:depends-on-previous-queries",
                        f"query {i} of a sequence on one curve object: parameter {q['t']} is {q['d']} away; a fresh curve object "
                        f"answers {q['t_fresh']} ({q['d_fresh']} away), a dense scan finds {q['scan_min']}",
                        q["d"],
                        q["scan_min"],
                    )
            e = impl["edge"]
            if len(e["pts"]) != len(e["expected_pts"]) or any(not _dist(p, q) <= tol for p, q in zip(e["pts"], e["expected_pts"])):
                bad(
                    f"OnCurveEdge.point_array:{case['curve']}:around-the-bend",
                    f"written points are not the curve between the parameters {e['expected_params']} of the two vertices "
                    f"(the edge used {e['params']})",
                    e["pts"],
                    e["expected_pts"],
                )
            if not abs(e["length"] - e["expected_len"]) <= 1e-5 * max(1.0, e["expected_len"]) + tol:
                bad(
                    f"OnCurveEdge.length:{case['curve']}:around-the-bend",
                    f"length {e['length']}, curve length between the vertices' parameters {e['expected_len']}",
                    e["length"],
                    e["expected_len"],
                )
            return out
        if kind == "tf":
            moved = impl["moved"]
            sc = _scale(moved)
            tol = TOL * sc * 10
            after = "after-" + "+".join(sorted({o[0] for o in case["ops"]}))
            knots, point, total_len = _own_linear(moved)
            if len(impl["params"]) != len(knots) or not max(abs(x - y) for x, y in zip(impl["params"], knots)) <= 1e-9:
                bad(f"InterpolatorBase.params:stale:{after}", f"parameters {impl['params']}, chord-length parameters of the moved points {knots}")
            if not abs(impl["full"] - total_len) <= tol:
                bad(f"{cname}.length:polyline:{after}", f"length {impl['full']}, polyline through the moved points {total_len}", impl["full"], total_len)
            for i, (p, q) in enumerate(zip(impl["through"], moved)):
                if not _dist(p, q) <= tol:
                    bad(f"{cname}.get_point:not-through-defining-point:{after}", f"point {i}: {p} instead of {q}")
                    break
            if case["curve"] == "linear":
                for (a, b), l in zip(case["pairs"], impl["pairs"]):
                    if not abs(l - abs(b - a) * total_len) <= tol:
                        bad(f"{cname}.get_length:polyline:{after}", f"get_length({a}, {b}) = {l}, polyline between the parameters {abs(b - a) * total_len}")
                l1, l2, l3 = impl["triple"]
                if not abs(l1 + l2 - l3) <= tol:
                    bad(f"{cname}.get_length:not-additive:{after}", f"{case['triple']}: {l1} + {l2} != {l3}")
            for q in impl["queries"]:
                slack = tol if case["curve"] == "linear" else TOL_MIN * sc * 10
                if not (0.0 <= q["t"] <= 1.0) or not q["d"] <= q["scan_min"] + slack:
                    bad(
                        f"{cname}.get_closest_param:not-closest:{after}",
                        f"query {q['p']}: parameter {q['t']} is {q['d']} away, a {N_SCAN}-point scan finds {q['scan_min']}",
                        q["d"],
                        q["scan_min"],
                    )
            return out
        if kind == "edge_hist":
            which = case["curve"]
            for k, (st, t) in enumerate(zip(impl["steps"], case["steps"])):
                when = "" if k == 0 else ":after-moving-vertices"
                sc = _scale(st["pts"] + st["expected_pts"]) if st["pts"] else 1.0
                tol = TOL_MIN * sc * 10
                first = st["desc"].split("\n")[-1]
                nums: List[float] = []
                ok = first.startswith("\tspline 0 1 (")
                if ok:
                    try:
                        nums = [float(x) for x in first[first.index("(") :].replace("(", " ").replace(")", " ").split()]
                    except ValueError:
                        ok = False
                flat = [x for p in st["expected_pts"] for x in p]
                if not ok or len(nums) != len(flat) or any(not abs(a - b) <= 1e-8 + tol for a, b in zip(nums, flat)):
                    bad(
                        f"CurveEdge.description:{which}{when}",
                        f"step {k}: written list {first[:100]!r} is not the curve between the vertices' parameters {t}",
                        first,
                        st["expected_pts"],
                    )
                if len(st["pts"]) != len(st["expected_pts"]) or any(
                    not _dist(p, q) <= tol for p, q in zip(st["pts"], st["expected_pts"])
                ):
                    bad(
                        f"OnCurveEdge.point_array:{which}{when}",
                        f"step {k}: points are not the curve points between the parameters {t} of the two vertices",
                        st["pts"],
                        st["expected_pts"],
                    )
                if not (
                    abs(st["param_start"] - t[0]) <= 1e-5 * max(1.0, abs(t[0]))
                    and abs(st["param_end"] - t[1]) <= 1e-5 * max(1.0, abs(t[1]))
                ):
                    bad(f"OnCurveEdge.param:{which}{when}", f"step {k}: vertex parameters {st['param_start']}, {st['param_end']} instead of {t}")
                if not abs(st["length"] - st["expected_len"]) <= max(TOL_MIN * 10, 1e-5) * max(1.0, st["expected_len"]):
                    bad(
                        f"OnCurveEdge.length:{which}{when}",
                        f"step {k}: length {st['length']}, curve length between the parameters {st['expected_len']}",
                        st["length"],
                        st["expected_len"],
                    )
            return out
        if kind == "edge":
            which = case["curve"]
            pts, ends = impl["pts"], impl["ends"]
            sc = _scale(ends + pts)
            # the written text
            first = impl["desc"].split("\n")[-1]
            rep = "polyLine" if which == "polylinedata" else "spline"
            ok = first.startswith(f"\t{rep} 0 1 (")
            nums: List[float] = []
            if ok:
                try:
                    nums = [float(x) for x in first[first.index("(") :].replace("(", " ").replace(")", " ").split()]
                except ValueError:
                    ok = False
            flat = [x for p in pts for x in p]
            if not ok or len(nums) != len(flat) or any(not abs(a - b) <= 1e-8 + 1e-9 * sc for a, b in zip(nums, flat)):
                bad(f"CurveEdge.description:{which}", f"written list {first[:120]!r} is not the point array", first, pts)
            if which in ("splinedata", "polylinedata"):
                if pts != [[float(x) for x in p] for p in case["points"]]:
                    bad(f"SplineEdge.point_array:{which}", "written points are not the given points", pts)
                exp = _poly([ends[0], *pts, ends[1]])
                if not abs(impl["length"] - exp) <= TOL * sc * 10:
                    bad(f"SplineEdge.length:{which}", f"length {impl['length']}, polyline through vertices and points {exp}")
                return out
            tol = TOL_MIN * sc * 10
            exp_pts = impl["expected_pts"]
            if which == "discrete":
                i, j = int(case["t"][0]), int(case["t"][1])
                rng_ = case["points"][min(i, j) : max(i, j) + 1]
                if i > j:
                    rng_ = rng_[::-1]
                exp_pts = [[float(x) for x in p] for p in rng_[1:-1]]
            if len(pts) != len(exp_pts) or any(not _dist(p, q) <= tol for p, q in zip(pts, exp_pts)):
                bad(
                    f"OnCurveEdge.point_array:{which}",
                    "written points are not the curve points between the parameters of the two vertices",
                    pts,
                    exp_pts,
                )
            if not (
                abs(impl["param_start"] - case["t"][0]) <= 1e-5 * max(1.0, abs(case["t"][0]))
                and abs(impl["param_end"] - case["t"][1]) <= 1e-5 * max(1.0, abs(case["t"][1]))
            ):
                bad(f"OnCurveEdge.param:{which}", f"vertex parameters {impl['param_start']}, {impl['param_end']} instead of {case['t']}")
            if not abs(impl["length"] - impl["expected_len"]) <= max(TOL_MIN * 10, 1e-5) * max(1.0, impl["expected_len"]):
                bad(f"OnCurveEdge.length:{which}", f"length {impl['length']}, curve length between the parameters {impl['expected_len']}")
            return out

        for e in impl.get("errors", []):
            bad(f"{cname}.get_length:raises", e)
        if impl.get("errors"):
            return out
        pts = case.get("points")
        sc = _scale(pts) if pts else _scale([v for v in (case.get("p1"), case.get("p2"), case.get("origin"), [case.get("r", 1)]) if isinstance(v, list)])
        tol = TOL * sc * 10
        own = _own_linear(pts, case.get("equalize", True)) if kind == "linear" else None
        arc = _own_arc(pts, case.get("equalize", True)) if kind == "linear" else None
        if kind == "linear":
            if len(impl["knots"]) != len(own[0]) or not max(abs(x - y) for x, y in zip(impl["knots"], own[0])) <= 1e-9:
                bad(
                    "InterpolatorBase.params" + ("" if case.get("equalize", True) else ":equalize-false"),
                    f"parameters {impl['knots']}, expected {own[0]}",
                )
        for (a, b), o in zip(case["pairs"], impl["pairs"]):
            if not (_dist(o["first"], o["pa"]) <= tol and _dist(o["last"], o["pb"]) <= tol):
                bad(f"{cname}.discretize:ends", f"discretize({a}, {b}) runs {o['first']} … {o['last']}, curve points {o['pa']}, {o['pb']}")
            if not abs(o["len"] - o["len_rev"]) <= tol:
                bad(f"{cname}.get_length:order-dependent", f"get_length({a}, {b}) = {o['len']}, get_length({b}, {a}) = {o['len_rev']}")
            if kind == "discrete":
                i, j = int(min(a, b)), int(max(a, b))
                want = list(range(i, j + 1))
                if a > b:
                    want.reverse()
                if o["disc"] != want:
                    bad("DiscreteCurve.discretize:points", f"discretize({a}, {b}) returns points {o['disc']}, expected {want}")
                exp = _poly([pts[k] for k in want])
                if not abs(o["len"] - exp) <= tol:
                    bad("DiscreteCurve.get_length:polyline", f"get_length({a}, {b}) = {o['len']}, polyline {exp}", o["len"], exp)
            if kind == "linear":
                exp = abs(arc(b) - arc(a))  # = |b - a| * total for chord-length parameters
                if not abs(o["len"] - exp) <= tol:
                    bad(
                        "LinearInterpolatedCurve.get_length:polyline" + ("" if case.get("equalize", True) else ":equalize-false"),
                        f"get_length({a}, {b}) = {o['len']}, polyline between the parameters {exp}",
                        o["len"],
                        exp,
                    )
                if not _dist(o["pa"], own[1](a)) <= tol:
                    bad("LinearInterpolatedCurve.get_point", f"get_point({a}) = {o['pa']}, piecewise-linear point {own[1](a)}")
        for (a, b, c), (l1, l2, l3) in zip(case["triples"], impl["triples"]):
            if kind in ("discrete", "linear"):
                if not abs(l1 + l2 - l3) <= tol:
                    bad(f"{cname}.get_length:not-additive", f"{a} <= {b} <= {c}: {l1} + {l2} != {l3}", l1 + l2, l3)
            elif kind == "spline":
                if not abs(l1 + l2 - l3) <= tol:
                    bad(
                        "SplineInterpolatedCurve.get_length:not-additive-between-knots",
                        f"{a} <= {b} <= {c}: {l1} + {l2} != {l3}",
                        l1 + l2,
                        l3,
                    )
            else:
                if not abs(l1 + l2 - l3) <= TOL_ANALYTIC * max(l3, 1e-9):
                    bad(f"AnalyticCurve.get_length:not-additive:{case['curve']}", f"{a} <= {b} <= {c}: {l1} + {l2} != {l3}", l1 + l2, l3)
        if kind in ("linear", "spline"):
            for i, (p, q) in enumerate(zip(impl["through"], pts)):
                if not _dist(p, q) <= tol:
                    bad(f"{cname}.get_point:not-through-defining-point", f"point {i}: {p} instead of {q}")
            l1, l2, l3 = impl["knot_split"]
            if not abs(l1 + l2 - l3) <= tol:
                bad(f"{cname}.get_length:not-additive-at-knot", f"split at knot {case['knot_split']}: {l1} + {l2} != {l3}", l1 + l2, l3)
            exp = _poly(pts)
            if not abs(impl["full"] - exp) <= tol:
                bad(f"{cname}.length:polyline", f"length {impl['full']}, polyline through the defining points {exp}", impl["full"], exp)
        queries = case["queries"] if kind != "analytic" and "tq" not in case else [{"near": True}] * len(impl["queries"])
        for q, o in zip(queries, impl["queries"]):
            if kind == "discrete":
                d = [_dist(p, q["p"]) for p in pts]
                if o["t"] != float(d.index(min(d))):
                    bad("DiscreteCurve.get_closest_param", f"query {q['p']}: parameter {o['t']}, closest point is #{d.index(min(d))}")
            elif q["near"] or kind == "linear":
                lo, hi = impl["bounds"]
                if not (lo <= o["t"] <= hi):
                    bad(f"{cname}.get_closest_param:out-of-bounds", f"parameter {o['t']} outside {impl['bounds']}")
                elif not o["d"] <= o["scan_min"] + TOL_MIN * sc * 10:
                    bad(
                        f"{cname}.get_closest_param:not-closest",
                        f"returned parameter {o['t']} is {o['d']} away, a {N_SCAN}-point scan finds {o['scan_min']}",
                        o["d"],
                        o["scan_min"],
                    )
        return out

    def nontrivial_key(self, case, impl):
        return json.dumps(case, sort_keys=True)

    def classify(self, case, impl):
        k = case["kind"]
        if k == "linear":
            return ("linear" if case.get("equalize", True) else "linear:equalize-false") + (":aliased" if "alias" in case else "")
        if k == "discrete" and "alias" in case:
            return "discrete:aliased"
        if k == "tf":
            return "tf:" + case["curve"] + ":" + "+".join(sorted({o[0] for o in case["ops"]})) + ":" + case["mode"]
        if k == "qtq":
            return "qtq:" + case["curve"] + ":" + case["via"] + ":" + "+".join(o[0] for o in case["ops"])
        if k in ("analytic", "edge", "bad", "edge_hist", "seq"):
            return f"{k}:{case['curve']}"
        return k


if __name__ == "__main__":
    sys.exit(core.main(C16()))
