"""C04 — the cell-size distribution matches on shared edges and honours `preserve` (model M-PROP)."""

from __future__ import annotations

import random
import sys
from typing import Any, List

from .. import core
from .. import prop_common as pc
from .c01 import C01


class C04(C01):
    pid = "C04"
    props_module = "CBV.Props.C04"
    compare_level = "full"
    modes = [("well", 0.6), ("double", 0.25), ("sandwich", 0.1), ("conflict", 0.05)]
    rule = (
        C01.rule
        + " For C04 the chops are biased towards sizes with preserve=start_size/end_size and multi-section gradings; the "
        "file is decoded edge by edge (simpleGrading/edgeGrading entries), shared edges are compared section by section, "
        "and for single-chop families the realised first/last cell size is recomputed from (length, count, expansion) "
        "on every edge of the family at the geometrically same end."
    )
    partial_note = (
        "orientability of the block directions (hypothesis WireCoh of T_C04_parity / T_C04_preserved_*_family) is decided per generated "
        "case, not proved for all inputs; the steps that need brentq / a k-th root are solver answers validated against C03's exact "
        "specification, not computed; equality of gradings on shared edges is to Grading.__eq__'s tolerance (1e-7), exact vs float "
        "arithmetic is compared to 1e-6; that blockMesh lays the written (count, expansion) out as the geometric progression is C03's premise"
    )

    def gen_cases(self, rng: random.Random, tier: str) -> List[dict]:
        cases = super().gen_cases(rng, tier)
        n = 300 if tier == "quick" else 3000
        cases = cases[:n]
        # bias: rewrite a share of the plain chops into size-preserving ones
        for c in cases:
            # (corner noise below the merging tolerance makes edge lengths differ by 1e-7: the simple/edge flag is then
            # decided by the library's float tolerance, which the exact model does not have — C02's stream keeps it)
            c["asm"].pop("noise", None)
            for ch in c["chops"]:
                if len(ch["calls"]) == 1 and rng.random() < 0.5:
                    kw = ch["calls"][0]
                    if set(kw) == {"count"} and kw["count"] >= 2:  # (one cell with a size: C03's subject and known finding)
                        end = rng.choice(["start_size", "end_size"])
                        ch["calls"][0] = {"count": kw["count"], end: rng.choice([0.02, 0.03, 0.04]), "preserve": end}
        # stacks chopped with one Stack.chop call (oracle only: no model request)
        for _ in range(12 if tier == "quick" else 150):
            cases.append(pc.gen_stack_case(rng))
        return cases

    def run_impl(self, case: dict) -> Any:
        if case["kind"] == "stack":
            return pc.run_stack(case)
        return super().run_impl(case)

    def requests(self, case: dict, impl: Any) -> List[str]:
        if case["kind"] == "stack":
            return []
        reqs = super().requests(case, impl)
        if reqs:
            # the hypothesis of T_C04_parity: the lattice direction signs orient the block directions coherently
            it = impl["internals"]
            o = []
            for b in impl["order"]:
                for a in range(3):
                    o.append("1" if pc.axis_direction(case["asm"]["blocks"][b]["rot"], a)[1] < 0 else "0")
            n = len(it["verts"])
            reqs.insert(0, f"c01.orient {n} " + ";".join(",".join(map(str, v)) for v in it["verts"]) + " " + ",".join(o))
        return reqs

    def compare(self, case: dict, impl: Any, model: List[str]) -> Any:
        if model and model[0].startswith("coh"):
            if model[0] != "coh 1":
                return f"orientation by lattice direction signs is not coherent in the model: {model[0]}"
            model = model[1:]
        return super().compare(case, impl, model)

    def classify(self, case, impl):
        return "stack" if case["kind"] == "stack" else super().classify(case, impl)

    def nontrivial_key(self, case, impl):
        import json as _json

        return _json.dumps(case, sort_keys=True) if case["kind"] == "stack" else super().nontrivial_key(case, impl)

    def shrink_candidates(self, case: dict) -> List[dict]:
        return [] if case["kind"] == "stack" else super().shrink_candidates(case)

    def oracle(self, case: dict, impl: Any) -> List[dict]:
        if case["kind"] == "stack":
            return pc.oracle_stack(case, impl)
        out: List[dict] = []
        oc = impl["outcome"]
        if oc == "hang":
            return [{"site": "Mesh.write:hang", "what": "write did not return within the time limit"}]
        sec = impl.get("second") or {}
        th = impl.get("third") or {}
        # whatever happened before: a dictionary written by a later write of the same mesh (after a refusal, after vertex
        # moves, after further chops) describes the same cell sizes on shared edges
        if sec.get("outcome") == "ok":
            for v in pc.oracle_sizes({"hex": sec["hex"]}):
                v["site"] += ":second-write"
                out.append(v)
        if th.get("outcome") == "ok":
            for v in pc.oracle_sizes({"hex": th["hex"]}):
                v["site"] += ":after-late-chops"
                out.append(v)
        if oc != "ok":
            if oc == "ValueError" and not (impl.get("unrealisable") or impl.get("extreme")):
                out.append({"site": "Mesh.write:unexpected-ValueError", "what": impl.get("message")})
            return out
        out += pc.oracle_sizes(impl)
        out += pc.oracle_preserve(case, impl)
        # a second export of the same mesh honours the preserved sizes as well — on the moved edges when vertices were moved
        if sec.get("outcome") == "ok":
            for v in pc.oracle_preserve(case, dict(impl, hex=sec["hex"]), vertices=sec.get("vertices") if sec.get("stretched") else None):
                v["site"] += ":second-write"
                out.append(v)
        # 'simple' only if the four edges really have equal gradings: decode through the internals
        it = impl["internals"]
        for b, hx in enumerate(impl["hex"]):
            if hx["kind"] == "simpleGrading":
                for a in range(3):
                    specs = [it["specs"][12 * b + 4 * a + k] for k in range(4)]
                    for s in specs[1:]:
                        if not pc.sections_close([list(x) for x in s], [list(x) for x in specs[0]], tol=1e-6):
                            out.append(
                                {
                                    "site": "hex:simpleGrading-although-edges-differ",
                                    "what": f"block {b} axis {a}: {specs}",
                                }
                            )
                            return out
        return out


if __name__ == "__main__":
    sys.exit(core.main(C04()))
