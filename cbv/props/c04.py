"""C04 — the cell-size distribution matches on shared edges and honours `preserve` (model M-PROP)."""

from __future__ import annotations

import random
import sys
from typing import Any, List

from .. import core
from .. import prop_common as pc
from .c01 import C01


class C04(C01):
    pid = "C04"
    props_module = "CBV.Props.C04"
    compare_level = "full"
    modes = [("well", 0.6), ("double", 0.25), ("sandwich", 0.1), ("conflict", 0.05)]
    rule = (
        C01.rule
        + " For C04 the chops are biased towards sizes with preserve=start_size/end_size and multi-section gradings; the "
        "file is decoded edge by edge (simpleGrading/edgeGrading entries), shared edges are compared section by section, "
        "and for single-chop families the realised first/last cell size is recomputed from (length, count, expansion) "
        "on every edge of the family at the geometrically same end."
    )
    partial_note = (
        "the agreement of the inversion parity with the geometric orientation (preserve honoured 'at the geometrically same "
        "end' across anti-aligned hops) is checked on the written file and by correspondence, not proved"
    )

    def gen_cases(self, rng: random.Random, tier: str) -> List[dict]:
        cases = super().gen_cases(rng, tier)
        n = 300 if tier == "quick" else 3000
        cases = cases[:n]
        # bias: rewrite a share of the plain chops into size-preserving ones
        for c in cases:
            for ch in c["chops"]:
                if len(ch["calls"]) == 1 and rng.random() < 0.5:
                    kw = ch["calls"][0]
                    if set(kw) == {"count"}:
                        end = rng.choice(["start_size", "end_size"])
                        ch["calls"][0] = {"count": kw["count"], end: rng.choice([0.02, 0.03, 0.04]), "preserve": end}
        return cases

    def oracle(self, case: dict, impl: Any) -> List[dict]:
        out: List[dict] = []
        oc = impl["outcome"]
        if oc == "hang":
            return [{"site": "Mesh.write:hang", "what": "write did not return within the time limit"}]
        if oc != "ok":
            if oc == "ValueError" and not (impl.get("unrealisable") or impl.get("extreme")):
                out.append({"site": "Mesh.write:unexpected-ValueError", "what": impl.get("message")})
            return out
        out += pc.oracle_sizes(impl)
        out += pc.oracle_preserve(case, impl)
        # 'simple' only if the four edges really have equal gradings: decode through the internals
        it = impl["internals"]
        for b, hx in enumerate(impl["hex"]):
            if hx["kind"] == "simpleGrading":
                for a in range(3):
                    specs = [it["specs"][12 * b + 4 * a + k] for k in range(4)]
                    for s in specs[1:]:
                        if not pc.sections_close([list(x) for x in s], [list(x) for x in specs[0]], tol=1e-6):
                            out.append(
                                {
                                    "site": "hex:simpleGrading-although-edges-differ",
                                    "what": f"block {b} axis {a}: {specs}",
                                }
                            )
                            return out
        return out


if __name__ == "__main__":
    sys.exit(core.main(C04()))
