"""C06 — the written blockMeshDict is a faithful, well-formed rendering of the model."""

from __future__ import annotations

import json
import os
import random
import re
import shutil
import sys
import tempfile
import warnings
from decimal import ROUND_HALF_EVEN, Decimal
from fractions import Fraction
from typing import Any, Dict, List, Optional, Tuple

from .. import core

# --------------------------------------------------------------------------- blockMesh convention (independent of the repo)
BM_SIDE_CYCLE = {  # corners of each side, in a cyclic order
    "bottom": (0, 1, 2, 3),
    "top": (4, 5, 6, 7),
    "left": (4, 0, 3, 7),
    "right": (5, 1, 2, 6),
    "front": (4, 5, 1, 0),
    "back": (7, 6, 2, 3),
}
SIDE_ORDER = ["bottom", "top", "front", "right", "back", "left"]
BM_EDGES = [
    {a, b}
    for a in range(8)
    for b in range(a + 1, 8)
    if ((a % 4 in (1, 2)) ^ (b % 4 in (1, 2))) + ((a % 4 in (2, 3)) ^ (b % 4 in (2, 3))) + ((a >= 4) ^ (b >= 4)) == 1
]
TOL = 1e-7
SPECIAL = "(){};"
# the order in which blockMesh reads the twelve numbers of edgeGrading (x-, y-, z-edges), by corner pair
BM_GRADING_ORDER = [(0, 1), (3, 2), (7, 6), (4, 5), (0, 3), (1, 2), (5, 6), (4, 7), (0, 4), (1, 5), (2, 6), (3, 7)]
# the twelve wires in a neutral order (sorted corner pairs), as they are handed to the model
WIRE_KEYS = sorted(tuple(sorted(p)) for p in BM_GRADING_ORDER)


# --------------------------------------------------------------------------- trusted tokenizer (file text -> tokens)
def tokenize(text: str) -> List[str]:
    """Tokens of a blockMeshDict: the five punctuation characters, `// …` comments (to the end of the line, trailing
    blanks removed), words (maximal runs of other non-blank characters).  `/* … */` is skipped."""
    toks: List[str] = []
    i, n = 0, len(text)
    while i < n:
        c = text[i]
        if c.isspace():
            i += 1
        elif text.startswith("/*", i):
            j = text.find("*/", i + 2)
            i = n if j < 0 else j + 2
        elif text.startswith("//", i):
            j = text.find("\n", i)
            j = n if j < 0 else j
            toks.append(text[i:j].rstrip())
            i = j
        elif c in SPECIAL:
            toks.append(c)
            i += 1
        else:
            j = i
            while j < n and not text[j].isspace() and text[j] not in SPECIAL:
                j += 1
            toks.append(text[i:j])
            i = j
    return toks


_SAFE = set("abcdefghijklmnopqrstuvwxyzABCDEFGHIJKLMNOPQRSTUVWXYZ0123456789_.-/(){};*+:,")


def esc(s: str) -> str:
    return "".join(ch if ch in _SAFE else "".join(f"%{b:02x}" for b in ch.encode("utf-8")) for ch in s)


def unesc(s: str) -> str:
    return re.sub(r"((?:%[0-9a-fA-F]{2})+)", lambda m: bytes.fromhex(m.group(1).replace("%", "")).decode("utf-8"), s)


def w_str(s: str) -> str:
    return "=" + esc(s)


def w_opt(s: Optional[str]) -> str:
    return "!" if s is None else w_str(s)


def w_list(items: List[List[str]]) -> List[str]:
    out = [str(len(items))]
    for it in items:
        out += it
    return out


def w_toks(toks: List[str]) -> List[str]:
    return [str(len(toks))] + [w_str(t) for t in toks]


# --------------------------------------------------------------------------- nested structure of a token list (oracle side)
def nest(toks: List[str]):
    """tokens -> nested python lists: ('(', [...]) / ('{', [...]) / str"""
    stack: List[Tuple[str, list]] = [("", [])]
    for t in toks:
        if t in "({":
            stack.append((t, []))
        elif t in ")}":
            if len(stack) < 2 or stack[-1][0] != {")": "(", "}": "{"}[t]:
                raise ValueError("unbalanced " + t)
            k, items = stack.pop()
            stack[-1][1].append((k, items))
        else:
            stack[-1][1].append(t)
    if len(stack) != 1:
        raise ValueError("unclosed bracket")
    return stack[0][1]


def fmt8(x: float) -> str:
    """what python prints for f'{x:.8f}', computed independently"""
    d = Decimal(x).quantize(Decimal("1e-8"), ROUND_HALF_EVEN)
    return format(d, "f")


# --------------------------------------------------------------------------- program generator
NAMES = ["inlet", "outlet", "walls", "pa", "pb", "Zed_1", "a.b"]
LABELS = ["terrain", "sph1", "cyl_2"]
ZONES = ["", "", "", "solid", "zone.1"]


def _cell_points(cell, rot=None, skew=None, origin=(0.0, 0.0, 0.0), size=1.0, gap=0.0) -> List[List[float]]:
    from .c05 import CUBE, ROTS

    rot = rot or list(range(8))
    pts = []
    for c in range(8):
        p = [float(origin[a] + cell[a] * (size + gap) + CUBE[rot[c]][a] * size) for a in range(3)]
        if skew:
            p = [p[0] + skew * p[2], p[1], p[2]]
        pts.append(p)
    return pts


def gen_program(rng: random.Random, tier: str = "quick") -> dict:
    from .c05 import ROTS

    kind = rng.choices(["ops", "ops", "ops", "shapes", "mixed"], k=1)[0]
    ents: List[dict] = []
    count = rng.choice([1, 2, 3])
    names = rng.sample(NAMES, rng.randint(2, 5))
    labels = rng.sample(LABELS, rng.randint(1, 3))
    cells = [(i, j, k) for i in range(2) for j in range(2) for k in range(2)]
    rng.shuffle(cells)
    n_ops = rng.randint(1, 5) if kind != "shapes" else 0
    # 25%: a geo-referenced scene (UTM-like coordinates), blocks of 10 m, half of them separated by slits of 0.5 m:
    # points much closer than 1e-5 * |coordinate| are still different points
    far = rng.random() < 0.25
    origin, size = ((500000.0, 4200000.0, 100.0), 10.0) if far else ((0.0, 0.0, 0.0), 1.0)
    gap = rng.choice([0.0, 0.5]) if far else 0.0
    for o in range(n_ops):
        cell = cells[o]
        e: Dict[str, Any] = {"t": "loft", "points": _cell_points(cell, rng.choice(ROTS) if rng.random() < 0.5 else None, None, origin, size, gap), "calls": []}
        for _ in range(rng.randint(0, 6)):
            r = rng.random()
            if r < 0.35:
                e["calls"].append(["patch", rng.choice(SIDE_ORDER), rng.choice(names)])
            elif r < 0.55:
                e["calls"].append(["pside", rng.choice(SIDE_ORDER), rng.choice(labels), int(rng.random() < 0.4), int(rng.random() < 0.4)])
            elif r < 0.65:
                a, b = sorted(rng.choice(BM_EDGES))
                e["calls"].append(["pedge", a, b, rng.choice(labels)])
            elif r < 0.75:
                e["calls"].append(["pcorner", rng.randrange(8), rng.choice(labels)])
            elif r < 0.85:
                e["calls"].append(["zone", rng.choice(ZONES)])
            else:
                # a curved edge in a storage slot: face edge 0..3 of bottom/top or side edge 0..3
                e["calls"].append(["edge", rng.choice(["bottom", "top", "side"]), rng.randrange(4), rng.choice(["arc", "spline", "polyLine", "origin", "arcflat"])])
        ents.append(e)
    if kind in ("shapes", "mixed"):
        for s in range(rng.randint(1, 2)):
            what = rng.choice(["cylinder", "ring", "hemisphere", "hemisphere_copy", "hemisphere_pair", "hemisphere_moved", "frustum", "boxes", "taper", "taper", "assembly"])
            e = {"t": what, "at": [4.0 * (s + 1), 0.0, 0.0], "calls": [], "variant": rng.randrange(8)}
            if rng.random() < 0.6:
                e["calls"].append(["start", rng.choice(names)])
            if rng.random() < 0.6:
                e["calls"].append(["outer", rng.choice(names)])
            if rng.random() < 0.3:
                e["calls"].append(["zone", rng.choice(ZONES)])
            ents.append(e)
    mesh_calls: List[list] = []
    for _ in range(rng.randint(0, 5)):
        r = rng.random()
        if r < 0.25:
            m, s = rng.sample(names, 2)
            mesh_calls.append(["merge", m, s])
        elif r < 0.4:
            mesh_calls.append(["default", rng.choice(["walls", "dflt"]), rng.choice(["wall", "patch", "empty"])])
        elif r < 0.7:
            st = None if rng.random() < 0.5 else rng.choice([[], ["neighbourPatch " + rng.choice(names)], ["inGroups (a b)", "transform none"]])
            mesh_calls.append(["modify", rng.choice(names + ["extra"]), rng.choice(["wall", "patch", "cyclic"]), st])
        elif r < 0.85:
            mesh_calls.append(["geometry", {rng.choice(labels + ["other"]): ["type searchablePlane", "planeType pointAndNormal", f"basePoint ({rng.randint(0, 3)} 0 0)"]}])
        else:
            mesh_calls.append(["setting", rng.choice(["scale", "mergeType", "prescale", "verbose", "checkFaceCorrespondence"]), rng.choice([0.001, "points", "(1 1 2)", "true", 1, None, 2.5e-05, 0.30000000000000004, 1e16, -0.75, 12345678])])
    # every label that an operation is projected to is defined by the user (the property's premise)
    mesh_calls.append(["geometry", {l: ["type searchableSphere", "centre (0 0 0)", "radius 1"] for l in labels}])
    rng.shuffle(mesh_calls)
    if rng.random() < 0.3:
        # the same patch modified twice: options given, then replaced by none / kept (settings=None)
        nm = rng.choice(names)
        mesh_calls.append(["modify", nm, "cyclic", ["neighbourPatch " + rng.choice(names), "transform none"]])
        mesh_calls.append(["modify", nm, rng.choice(["wall", "patch"]), rng.choice([[], [], None, ["inGroups (x)"]])])
    cut = rng.randint(0, len(mesh_calls)) if rng.random() < 0.35 else len(mesh_calls)
    # deletions: (entity index, operation index inside the entity)
    deletions = []
    if rng.random() < 0.3:
        for _ in range(rng.randint(1, 2)):
            deletions.append([rng.randrange(len(ents)), rng.randrange(64)])
    return {
        "kind": "program",
        "entities": ents,
        "before": mesh_calls[:cut],
        "after": [c for c in mesh_calls[cut:] if c[0] != "setting"] if cut < len(mesh_calls) else [],
        "settings_after": [c for c in mesh_calls[cut:] if c[0] == "setting"],
        "explicit_assemble": cut < len(mesh_calls),
        "delete": deletions,
        "count": count,
        "vtk": rng.random() < 0.5,
        "far": far and n_ops > 0,
        # the mesh is assembled, then cleared / backported and assembled again before it is written
        "reassemble": rng.choice(["clear", "backport"]) if rng.random() < 0.3 else None,
        # written (with the debug VTK), a vertex moved, backported and written again to the same paths
        "rewrite": {"vertex": rng.randrange(1000), "d": [rng.choice([0.05, -0.07, 0.11]), rng.choice([0.0, 0.03]), rng.choice([0.0, -0.04])]}
        if rng.random() < 0.2
        else None,
    }


# --------------------------------------------------------------------------- building the real objects
def _edge_data(cb, kind: str, p1, p2, k: int):
    import numpy as np

    p1 = np.asarray(p1, dtype=float)
    p2 = np.asarray(p2, dtype=float)
    mid = (p1 + p2) / 2
    d = p2 - p1
    # some direction that is not parallel to the edge
    off = np.cross(d, [0.3, 0.5, 0.8])
    off = off / np.linalg.norm(off) * 0.15 * np.linalg.norm(d)
    if kind == "arc":
        return cb.Arc(mid + off)
    if kind == "arcflat":  # collinear arc point: the edge is dropped as invalid
        return cb.Arc(mid)
    if kind == "origin":
        return cb.Origin(mid - 3 * off, 1.0 + 0.1 * k)
    if kind == "spline":
        return cb.Spline([p1 + d / 3 + off, p1 + 2 * d / 3 + 0.5 * off])
    return cb.PolyLine([p1 + d / 4 + off, p1 + d / 2 + 0.7 * off, p1 + 3 * d / 4 + off])


def _op_call(cb, op, pts, c) -> None:
    if c[0] == "patch":
        op.set_patch(c[1], c[2])
    elif c[0] == "pside":
        op.project_side(c[1], c[2], bool(c[3]), bool(c[4]))
    elif c[0] == "pedge":
        op.project_edge(c[1], c[2], c[3])
    elif c[0] == "pcorner":
        op.project_corner(c[1], c[2])
    elif c[0] == "zone":
        op.set_cell_zone(c[1])
    elif c[0] == "edge":
        where, i, kind = c[1], c[2], c[3]
        if where == "side":
            op.add_side_edge(i, _edge_data(cb, kind, pts[i], pts[i + 4], i))
        else:
            base = 0 if where == "bottom" else 4
            data = _edge_data(cb, kind, pts[base + i], pts[base + (i + 1) % 4], i)
            (op.bottom_face if where == "bottom" else op.top_face).add_edge(i, data)


def build(case: dict):
    """Runs the program against the real library; returns (mesh, list of entity objects)."""
    import numpy as np

    import classy_blocks as cb
    from classy_blocks.base.exceptions import EdgeCreationError

    ents = []
    for e in case["entities"]:
        t = e["t"]
        if t == "loft":
            pts = e["points"]
            op = cb.Loft(cb.Face(pts[:4]), cb.Face(pts[4:]))
            for c in e["calls"]:
                try:
                    _op_call(cb, op, pts, c)
                except EdgeCreationError:
                    pass  # e.g. a third label on an edge: the library rejects the call, the program goes on
            ents.append(op)
            continue
        at = np.asarray(e["at"], dtype=float)
        if t == "cylinder":
            obj = cb.Cylinder(at, at + [1.5, 0, 0], at + [0, 1, 0])
        elif t == "frustum":
            obj = cb.Frustum(at, at + [1.5, 0, 0], at + [0, 1, 0], 0.5)
        elif t == "ring":
            obj = cb.ExtrudedRing(at, at + [1.5, 0, 0], at + [0, 1.0, 0], 0.6)
        elif t == "hemisphere":
            obj = cb.Hemisphere(at, at + [0, 1, 0], [1, 0, 0])
        elif t == "hemisphere_copy":
            obj = cb.Hemisphere(at, at + [0, 1, 0], [1, 0, 0]).copy()
        elif t == "hemisphere_pair":
            first = cb.Hemisphere(at, at + [0, 1, 0], [1, 0, 0])
            ents.append(first)
            obj = first.copy().rotate(np.pi, [0, 0, 1], at + [0, 2.5, 0])
        elif t == "hemisphere_moved":
            first = cb.Hemisphere(at, at + [0, 1, 0], [1, 0, 0])
            ents.append(first)
            obj = first.copy().translate([0, 0, 3.5])
        elif t == "taper":
            # a free-standing loft with a trapezoidal top face, graded with a preserved cell size along axis 0 (or 1):
            # every wire of that axis gets its own expansion, the block is written with edgeGrading
            b = at + [0.0, 0.0, 6.0]
            k = e.get("variant", 0)
            top = [[0, 0, 1], [1, 0, 1], [1.5, 1, 1], [-0.5, 1, 1]] if k % 2 == 0 else [[0, 0, 1], [1.3, -0.2, 1], [1, 1, 1], [0, 1.6, 1]]
            obj = cb.Loft(cb.Face([list(b + p) for p in ([0, 0, 0], [1, 0, 0], [1, 1, 0], [0, 1, 0])]), cb.Face([list(b + p) for p in top]))
            obj.cbv_taper = k
        elif t == "assembly":
            # an Assembly of built-in shapes, one of which brings a geometry of its own
            from classy_blocks.construct.assemblies.assembly import Assembly

            cyl = cb.Cylinder(at + [0, 0, 6], at + [1.5, 0, 6], at + [0, 1, 6])
            hemi = cb.Hemisphere.chain(cyl)
            obj = Assembly([cyl, hemi])
        else:  # a stack of boxes added as separate operations
            obj = None
            for k in range(2):
                ents.append(cb.Box(at + [0, 0, k], at + [1, 1, k + 1]))
        if obj is None:
            continue
        for c in e["calls"]:
            if c[0] == "start" and hasattr(obj, "set_start_patch"):
                obj.set_start_patch(c[1])
            elif c[0] == "outer" and hasattr(obj, "set_outer_patch"):
                obj.set_outer_patch(c[1])
            elif c[0] == "zone" and hasattr(obj, "set_cell_zone"):
                obj.set_cell_zone(c[1])
        ents.append(obj)

    mesh = cb.Mesh()
    for obj in ents:
        mesh.add(obj)
    # chop everything with the same count, so that the gradings are defined whatever the connectivity is
    for op in mesh.operations:
        k = getattr(op, "cbv_taper", None)
        for axis in range(3):
            if k is not None and axis == (k // 2) % 2:
                op.chop(axis, count=4 + k % 3, start_size=0.05 + 0.01 * k, preserve="start_size" if k % 4 < 2 else "end_size")
            else:
                op.chop(axis, count=case["count"])
    deleted = []
    for ei, oi in case["delete"]:
        ent = ents[ei % len(ents)]
        ops = [ent] if isinstance(ent, cb.Loft) else ent.operations
        op = ops[oi % len(ops)]
        if len(set(map(id, mesh.operations)) - set(map(id, deleted + [op]))) == 0:
            continue  # deleting everything leaves nothing to write (life cycle: C12)
        mesh.delete(op)
        deleted.append(op)

    def apply(calls):
        for c in calls:
            if c[0] == "merge":
                mesh.merge_patches(c[1], c[2])
            elif c[0] == "default":
                mesh.set_default_patch(c[1], c[2])
            elif c[0] == "modify":
                mesh.modify_patch(c[1], c[2], None if c[3] is None else list(c[3]))
            elif c[0] == "geometry":
                mesh.add_geometry({k: list(v) for k, v in c[1].items()})
            elif c[0] == "setting":
                mesh.settings[c[1]] = c[2]

    apply(case["before"])
    return mesh, ents, apply


# --------------------------------------------------------------------------- declaration, read from the depot objects
def _coord_words(x: float) -> str:
    f = Fraction(float(x))
    s = f"{f.numerator}/{f.denominator}"
    if f == 0 and str(float(x)).startswith("-"):
        s = "-0/1"
    return s


def _edge_user(data) -> Optional[dict]:
    """the points the user gave for a curved edge (read from the data object of the depot, not from the edge item):
    Arc -> its point, Spline / PolyLine -> the through points, listed from the first to the second corner of the slot"""
    cls = type(data).__name__
    if cls == "Arc":
        return {"kind": "arc", "pts": [[float(x) for x in data.point.position]]}
    if cls in ("Spline", "PolyLine"):
        return {"kind": data.kind, "pts": [[float(x) for x in p] for p in data.curve.array.points]}
    return None


def _payload_words(edge, payload_toks: List[str]) -> List[str]:
    """what stands between the brackets of a curved edge, for the model: the *positions* the library's edge item
    prints (arc: third point; spline/polyLine: point_array) as exact rationals -- the model does the printing
    (`Point.description` / `vector_format`, fmt8) -- or opaque tokens (labels of a projected edge)."""
    if hasattr(edge, "third_point"):
        return ["P"] + [_coord_words(x) for x in edge.third_point.position]
    if hasattr(edge, "point_array"):
        pts = [[float(x) for x in p] for p in edge.point_array]
        return ["L", str(len(pts))] + [_coord_words(x) for p in pts for x in p]
    return ["R"] + w_toks(payload_toks)


def _edge_decl(cb, data, p1, p2) -> List[str]:
    """[repr, valid, preFwd, fwd payload, preBwd, bwd payload] as protocol words; the points of the payload are taken
    from the library's own edge item built on the operation's points (their *values* belong to C07/C08), their
    text is rendered by the model."""
    from classy_blocks.items.edges.factory import factory
    from classy_blocks.items.vertex import Vertex

    if data.kind == "line":
        return [w_str("line"), "0", "!", "R", "0", "!", "R", "0"]
    out: List[str] = []
    first = True
    for a, b in ((p1, p2), (p2, p1)):
        with warnings.catch_warnings():
            warnings.simplefilter("ignore")
            edge = factory.create(Vertex(a, 900001), Vertex(b, 900002), data)
            valid = bool(edge.is_valid)
            desc = edge.description if valid else ""
            toks = tokenize(desc)
            pre = "!"
            if toks and toks[0].startswith("//"):
                m = re.fullmatch(r"(// \S+ )900001 900002(.*)", toks[0])
                assert m, toks[0]
                pre = [w_str(m.group(1)), w_str(m.group(2))]
                toks = toks[1:]
            if valid:
                assert toks[1:3] == ["900001", "900002"] and toks[3] == "(" and toks[-1] == ")", toks
                rep, payload = toks[0], _payload_words(edge, toks[4:-1])
            else:
                rep, payload = data.kind, ["R", "0"]
        if first:
            out += [w_str(rep), "1" if valid else "0"]
            first = False
        out += (pre if isinstance(pre, list) else [pre]) + payload
    return out


def declaration(mesh, case: dict, after_calls_applied: bool) -> Dict[str, Any]:
    """The user-level declaration: per entity of the depot its operations (points, patches, projections, zone,
    edge data) and geometry; mesh-level calls from the program."""
    import classy_blocks as cb

    ents = []
    for entity in mesh.depot:
        ops = [entity] if isinstance(entity, cb.Loft) else list(entity.operations)
        decl_ops = []
        shape_labels = sorted(
            {k for sh in getattr(entity, "shapes", []) if getattr(sh, "geometry", None) for k in sh.geometry}
        )
        for op in ops:
            pts = [p.position.copy() for p in op.points]
            slots = [(op.bottom_face.edges[i], pts[i], pts[(i + 1) % 4]) for i in range(4)]
            slots += [(op.top_face.edges[i], pts[4 + i], pts[4 + (i + 1) % 4]) for i in range(4)]
            slots += [(op.side_edges[i], pts[i], pts[i + 4]) for i in range(4)]
            decl_ops.append(
                {
                    "deleted": op in mesh.deleted,
                    "corners": [
                        {"pos": [float(x) for x in p.position], "proj": list(p.projected_to)} for p in op.points
                    ],
                    "patches": [op.bottom_face.patch_name, op.top_face.patch_name, *op.side_patches],
                    "side_proj": list(op.side_projects),
                    "bottom_proj": op.bottom_face.projected_to,
                    "top_proj": op.top_face.projected_to,
                    "zone": op.cell_zone,
                    "edges": [_edge_decl(cb, d, a, b) for d, a, b in slots],
                    "edge_kinds": [d.kind for d, _, _ in slots],
                    "edge_labels": [list(d.label) if d.kind == "project" else [] for d, _, _ in slots],
                    "edge_user": [_edge_user(d) for d, _, _ in slots],
                }
            )
        geo = entity.geometry
        ents.append(
            {
                "cls": type(entity).__name__,
                "ops": decl_ops,
                "geometry": {} if geo is None else {k: list(v) for k, v in geo.items()},
                # a sphere shape: what its geometry strings are made from (the model prints them)
                "sphere": (
                    {entity.geometry_label: {"c": [float(x) for x in entity.center_point], "r": _spec_nums([[entity.radius]])[0][0]}}
                    if geo is not None and all(hasattr(entity, a) for a in ("geometry_label", "center_point", "radius")) and list(geo) == [entity.geometry_label]
                    else {}
                ),
                "shape_labels": shape_labels,  # geometry names of the shapes inside an Assembly
            }
        )
    return {"entities": ents}


def _g_entries(d: Dict[str, List[str]], sphere: Optional[dict] = None) -> List[List[str]]:
    out = []
    for k, props in d.items():
        if sphere and k in sphere:
            out.append([w_str(k), "SPH"] + [_coord_words(x) for x in sphere[k]["c"]] + [_pynum_word(sphere[k]["r"])])
        else:
            out.append([w_str(k)] + w_list([w_toks(tokenize(p)) for p in props]))
    return out


def request_words(decl: dict, case: dict, settings: Dict[str, Any], tails: List[Optional[List[List[str]]]]) -> List[str]:
    """protocol words of the declaration (see CBV/Model/C06.lean, section 5)"""
    words: List[str] = []
    import numpy as np

    st = []
    for k, v in settings.items():
        if v is None:
            continue
        if not isinstance(v, (bool, np.bool_)) and isinstance(v, (int, float, np.integer, np.floating)):
            st.append([w_str(k), "N", _pynum_word(v)])  # the model prints the number (str(int) / shortest repr)
        else:
            st.append([w_str(k), "S"] + w_toks(tokenize(str(v))))
    words += w_list(st)

    def calls(name, which):
        return [c for c in case[which] if c[0] == name]

    for which in ("before", "after"):
        gs: List[List[str]] = []
        for c in calls("geometry", which):
            gs += _g_entries(c[1])
        words += w_list(gs)
    for which in ("before", "after"):
        words += w_list([[w_str(c[1]), w_str(c[2])] for c in calls("merge", which)])
    dflt = (calls("default", "before") + calls("default", "after"))[-1:]
    words += [w_str(dflt[0][1]), w_str(dflt[0][2])] if dflt else ["!"]
    for which in ("before", "after"):
        ms = []
        for c in calls("modify", which):
            ms.append([w_str(c[1]), w_str(c[2])] + (["!"] if c[3] is None else w_list([w_toks(tokenize(s)) for s in c[3]])))
        words += w_list(ms)
    ents = []
    k = 0
    for e in decl["entities"]:
        ops = []
        for o in e["ops"]:
            w = ["1" if o["deleted"] else "0"]
            for c in o["corners"]:
                w += [_coord_words(x) for x in c["pos"]]
                w += w_list([[w_str(l)] for l in c["proj"]])
            w += [w_opt(n) for n in o["patches"]]
            w += [w_opt(n) for n in o["side_proj"]]
            w += [w_opt(o["bottom_proj"]), w_opt(o["top_proj"])]
            w += [w_str(o["zone"])]
            if o["deleted"]:
                tail = [[], True, {f"{a}-{b}": [] for a, b in WIRE_KEYS}, {f"{a}-{b}": [] for a, b in WIRE_KEYS}]
            else:
                tail = tails[k]
                k += 1
            w += [str(len(tail[0]))] + [str(int(x)) for x in tail[0]] + ["1" if tail[1] else "0"]
            for a, b in WIRE_KEYS:
                spec = tail[3][f"{a}-{b}"] if len(tail) > 3 else []
                w += [str(a), str(b), str(len(spec))] + [_pynum_word(x) for d in spec for x in d]
            for ed in o["edges"]:
                w += ed
            ops.append(w)
        ents.append(w_list(ops) + w_list(_g_entries(e["geometry"], e.get("sphere"))))
    words += w_list(ents)
    words.append("1" if case.get("reassemble") or case.get("rewrite") else "0")
    return words


def _pynum_word(x) -> str:
    """a number of a Grading.specification for the model: `I<int>` for a python / numpy integer, `F<exact rational>` for a
    float (the model prints it: str(float) = shortest round-trip repr)"""
    import numpy as np

    if isinstance(x, (bool, int, np.integer)):
        return "I" + str(int(x))
    return "F" + _coord_words(float(x))


def _spec_nums(spec) -> list:
    """[ratio, count, expansion] per division, as JSON-serialisable numbers that keep int / float apart"""
    import numpy as np

    return [[int(x) if isinstance(x, (bool, int, np.integer)) else float(x) for x in d] for d in spec]


def _np_strs(pos: List[float]) -> List[str]:
    import numpy as np

    return [str(np.float64(x)) for x in pos]


# --------------------------------------------------------------------------- the check
class C06(core.Check):
    pid = "C06"
    props_module = "CBV.Props.C06"
    workers = 8
    rule = (
        "random programs over the public API: 1..5 hexahedral operations on cells of a 2x2x2 lattice (random corner "
        "renumbering; 25% of the programs geo-referenced: origin (5e5, 4.2e6, 100), 10 m cells, optionally 0.5 m slits; "
        "renumbering) with set_patch / project_side(edges, points) / project_edge / project_corner / set_cell_zone / "
        "curved edges (arc, collinear arc, origin, spline, polyLine) in random storage slots, and/or built-in shapes "
        "(Cylinder, Frustum, ExtrudedRing, Hemisphere, a copied Hemisphere, a Hemisphere with a rotated / translated copy, boxes, an Assembly of Cylinder + Hemisphere, tapered lofts graded with a preserved cell size -> edgeGrading) with "
        "start/outer patches and zones; mesh calls merge_patches / set_default_patch / modify_patch (with and without "
        "settings) / add_geometry / settings, 35% of the programs make part of them after an explicit assemble(); 30% "
        "delete one or two operations (also inside shapes); 30% assemble, then clear() or backport() and assemble again "
        "before writing; 20% are written, get a vertex moved, are backported and written a second time to the same paths (the "
        "second files are judged); uniform count-only chops. Non-trivial = every program; "
        "distinct = different declaration."
    )
    assumptions = [
        "the raw text of the written file is tokenized by the model (lexText, proved to read back every canonical text of well-formed tokens); the tokenizer of the harness is only a cross-check and is still used for the small strings of the declaration (setting values, geometry properties, patch options)",
        "the numbers of the per-wire Grading.specification and the counts of hex lines, validity and point positions of curved edges "
        "are taken from the implementation (C01-C04, C07, C08) -- their text is printed by the model; str() of setting values "
        "and geometry properties are opaque tokens",
        "points of one program are either identical up to float noise or >= 100 TOL apart (merging itself is C05)",
        "names, labels and zones contain no blanks, brackets, `;` and do not start with `//`",
    ]
    partial_note = (
        "Theorems: bracket-layer and schema-layer round trip of the parser on every dictionary with semicolon-free "
        "statements, structural facts of the assembled dictionary, the text of every %.8f number (reads back to within half a "
        "unit of the 8th decimal, well-formed), the tokenizer reads back canonical texts (T_C06_lex_unlex); that it ignores the real file's layout is validated by the correspondence; "
        "str(float) of grading values and VTK coordinates is generated by the model and validated (accepted tokens are within half an ulp: proved; that the generator's text is accepted: proved for doubles of either sign in fixed notation with |x| >= 1, for 0 < x < 1 given 10^(dp-1) <= x; exponent layouts and the rest: run-time check)."
    )

    def gen_cases(self, rng: random.Random, tier: str) -> List[dict]:
        n = 60 if tier == "quick" else 1000
        cases = [gen_program(rng, tier) for _ in range(n)]
        # malformed stream: ill-formed requests must be answered `bad-op`, unbalanced files `noparse`
        cases += [
            {"kind": "protocol", "req": "c06.render 0 0 0 0", "want": "bad-op"},
            {"kind": "protocol", "req": "c06.render 1 =scale S 1 =( 0 0 0 0 ! 0 0 0", "want": "bad-op"},
            {"kind": "protocol", "req": "c06.render 1 =scale N X1 0 0 0 0 ! 0 0 0 0", "want": "bad-op"},
            {"kind": "protocol", "req": "c06.file vertices 0 0 0 0 0 ! 0 0 0 0", "want": "bad-op"},
            {"kind": "protocol", "req": "c06.render 0 0 0 0 0 ! 0 0 0 extra", "want": "bad-op"},
            {"kind": "protocol", "req": "c06.vtk x", "want": "bad-op"},
            {"kind": "protocol", "req": "c06.nothing", "want": "bad-op"},
            {"kind": "protocol", "req": "c06.parse vertices ( ( 0 0 0 ) ;", "want": "noparse"},
            {"kind": "protocol", "req": "c06.parse FoamFile { } //c vertices ( ) ; blocks ( ) ;", "want": "noparse"},
        ]
        return cases

    # ------------------------------------------------------------------ implementation
    def run_impl(self, case: dict) -> Any:
        import classy_blocks as cb

        if case["kind"] == "protocol":
            return {"protocol": True}
        with warnings.catch_warnings():
            warnings.simplefilter("ignore")
            mesh, ents, apply = build(case)
            rw = case.get("rewrite")
            re = case.get("reassemble")
            if not re and not rw:
                decl = declaration(mesh, case, False)
            if case["explicit_assemble"] or re:
                mesh.assemble()
                apply(case["after"])
                apply(case["settings_after"])
            if re == "clear":
                mesh.clear()
            elif re == "backport":
                mesh.backport()
            if re:
                # the depot as it is before the file is written (backport has updated the operations' points)
                decl = declaration(mesh, case, True)
            tmp = tempfile.mkdtemp(prefix="cbv_c06_", dir=str(core.ROOT / "evidence"))
            try:
                path = os.path.join(tmp, "blockMeshDict")
                vpath = os.path.join(tmp, "debug.vtk") if case["vtk"] or rw else None
                try:
                    if rw:
                        # written once, a vertex moved, the operations updated from the vertices (backport), written
                        # again to the same paths: both files must describe the second state
                        mesh.write(path, vpath)
                        v = mesh.vertices[rw["vertex"] % len(mesh.vertices)]
                        v.move_to([float(a) + float(b) for a, b in zip(v.position, rw["d"])])
                        mesh.backport()
                        decl = declaration(mesh, case, True)
                    mesh.write(path, vpath)
                except Exception as e:  # a program of the generator must be writable
                    return {"error": type(e).__name__ + ": " + str(e)[:300], "decl": decl if "decl" in locals() else {"entities": []}}
                text = open(path).read()
                vtk_missing = bool(vpath) and not os.path.exists(vpath)
                vtk = open(vpath).read() if vpath and not vtk_missing else None
            finally:
                shutil.rmtree(tmp, ignore_errors=True)
        tails = []
        for b in mesh.block_list.blocks:
            wires = {f"{c1}-{c2}": tokenize(b.wires[c1][c2].grading.description) for c1, c2 in WIRE_KEYS}
            specs = {f"{c1}-{c2}": _spec_nums(b.wires[c1][c2].grading.specification) for c1, c2 in WIRE_KEYS}
            tails.append([[int(a.count) for a in b.axes], all(a.is_simple for a in b.axes), wires, specs])
        settings = {k: v for k, v in mesh.settings.items()}
        obs = {
            "decl": decl,
            "tokens": tokenize(text),  # the Python tokenizer: since round 6c only a cross-check of the model's `lexText`
            "text": text,
            "vtk": vtk.split() if vtk is not None else None,
            "vtk_missing": vtk_missing,
            "tails": tails,
            "settings": {k: (v if v is None else str(v)) for k, v in settings.items()},
            "vpos": [[float(x) for x in v.position] for v in mesh.vertex_list.vertices],
        }
        obs["words"] = request_words(decl, case, settings, tails)
        return obs

    # ------------------------------------------------------------------ model
    def requests(self, case: dict, impl: Any) -> List[str]:
        if case["kind"] == "protocol":
            return [case["req"]]
        if "error" in impl:
            return []
        w = " ".join(impl["words"])
        # the raw text of the written file goes with the declaration: the model assembles once, renders, tokenizes the
        # text itself and compares (c06.file answers everything c06.render does)
        reqs = ["c06.file " + w_str(impl["text"]) + " " + w, "c06.parse " + " ".join(esc(t) for t in impl["tokens"])]
        if impl["vtk"] is not None:
            reqs.append("c06.vtk " + w)
        return reqs

    def compare(self, case: dict, impl: Any, model: List[str]) -> Optional[str]:
        if case["kind"] == "protocol":
            return None if model[0] == case["want"] else f"request {case['req']!r}: answer {model[0][:80]!r}, expected {case['want']}"
        if impl.get("vtk_missing"):
            return "write(path, debug_path) did not write the debug VTK"
        m = re.fullmatch(r"ok idx=(\d) geom=(\d) quads=(\d) rt=(\d) num=(\d) same=(\d) wf=(\d) relex=(\d) at=(\S+) T ?(.*)", model[0])
        if not m:
            return "model: " + model[0][:200]
        toks = [unesc(t) for t in m.group(10).split(" ")] if m.group(10) else []
        real = impl["tokens"]
        if toks != real and m.group(6) == "1":
            return "the model's tokenizer reads the text of the file as the model's rendering, the harness' tokenizer does not: the two tokenizers disagree"
        if toks != real:
            for i, (a, b) in enumerate(zip(toks, real)):
                if a != b:
                    return f"token {i}: file has {real[max(0, i - 6):i + 4]}, model renders {toks[max(0, i - 6):i + 4]}"
            return f"token streams differ in length: file {len(real)}, model {len(toks)}; file tail {real[len(toks) - 3:len(toks) + 5]}, model tail {toks[len(real) - 3:len(real) + 5]}"
        if m.group(4) != "1":
            return "the verified parser does not read the model's rendering back (instance of T_C06_roundtrip fails)"
        if m.group(5) != "1":
            return "a grading number printed by the model fails the validator reprOk / reprShortest (instance of T_C06_repr_value)"
        p = model[1]
        if not p.startswith("ok ") or "same=1" not in p:
            return "the written file does not parse with the verified parser: " + p[:200]
        flags = dict(x.split("=") for x in p.split()[1:])
        if (flags["idx"], flags["geom"], flags["quads"]) != (m.group(1), m.group(2), m.group(3)):
            return f"flags of the parsed file {flags} differ from those of the model {m.groups()[:3]}"
        impl["flags"] = flags
        if impl["vtk"] is not None:
            mv = re.fullmatch(r"ok rt=(\d) num=(\d) T ?(.*)", model[2])
            if not mv:
                return "model vtk: " + model[2][:200]
            vt = [unesc(t) for t in mv.group(3).split(" ")] if mv.group(3) else []
            if vt != impl["vtk"]:
                for i, (a, b) in enumerate(zip(vt, impl["vtk"])):
                    if a != b:
                        return f"vtk word {i}: file {impl['vtk'][max(0, i - 4):i + 4]}, model {vt[max(0, i - 4):i + 4]}"
                return f"vtk streams differ in length: file {len(impl['vtk'])}, model {len(vt)}"
            if mv.group(1) != "1":
                return "parseVtk does not read the model's VTK back"
            if mv.group(2) != "1":
                return "a VTK coordinate printed by the model fails the validator reprOk / reprShortest"
        # (the harness' tokens equal the rendering at this point; `same` says the model's own tokenization of the text does too)
        if m.group(6) != "1":
            i = int(m.group(9)) if m.group(9) != "-" else 0
            return f"the text of the file, tokenized by the model, differs from the model's rendering at token {i} although the harness' tokenizer agrees: model {toks[max(0, i - 4):i + 4]}"
        if m.group(7) != "1" or m.group(8) != "1":
            return f"a rendered token is not well-formed (wf={m.group(7)}) or the rendering does not read back from its text (relex={m.group(8)}): instance of T_C06_lex_unlex fails"
        return None

    # ------------------------------------------------------------------ oracle: the property on the file itself
    def oracle(self, case: dict, impl: Any) -> List[dict]:
        try:
            return self._oracle(case, impl)
        finally:
            # the observation is kept as a sample in the evidence file: drop the bulky parts (they were used above)
            if isinstance(impl, dict):
                for k in ("words", "tokens", "vtk", "vpos"):
                    if isinstance(impl.get(k), list):
                        impl[k] = f"<{len(impl[k])} items>"
                if isinstance(impl.get("text"), str):
                    impl["text"] = f"<{len(impl['text'])} characters>"
                if isinstance(impl.get("decl"), dict):
                    impl["decl"] = {"entities": [{"cls": e["cls"], "ops": len(e["ops"]), "geometry": sorted(e["geometry"])} for e in impl["decl"]["entities"]]}

    def _oracle(self, case: dict, impl: Any) -> List[dict]:
        out: List[dict] = []

        def bad(site, what, **kw):
            out.append({"site": site, "what": what, **kw})

        if case["kind"] == "protocol":
            return out
        if "error" in impl:
            bad("Mesh.write:raises", impl["error"])
            return out
        try:
            top = nest(impl["tokens"])
        except ValueError as e:
            bad("Mesh.write:unbalanced-brackets", str(e))
            return out
        # ---- split the top level into sections
        sec: Dict[str, Any] = {}
        stmts: List[list] = []
        cur: List[Any] = []
        for t in top:
            if t == ";":
                stmts.append(cur)
                cur = []
            elif isinstance(t, str) and t.startswith("//"):
                continue
            else:
                cur.append(t)
        trailing = cur
        if trailing:
            bad("Mesh.write:text-after-last-section", str(trailing)[:100])
        settings_seen = {}
        for s in stmts:
            if s and s[0] == "FoamFile":
                s = s[2:]
            while len(s) >= 2 and s[0] == "defaultPatch" and isinstance(s[1], tuple):
                sec["defaultPatch"] = s[1][1]
                s = s[2:]
            if not s:
                continue
            if s[0] in ("geometry", "vertices", "blocks", "edges", "faces", "boundary", "mergePatchPairs") and len(s) == 2 and isinstance(s[1], tuple):
                if s[0] in sec:
                    bad("Mesh.write:section-twice", s[0])
                sec[s[0]] = s[1][1]
            else:
                settings_seen[s[0]] = s[1:]
        for need in ("vertices", "blocks", "edges", "faces", "boundary", "mergePatchPairs"):
            if need not in sec:
                bad("Mesh.write:section-missing", need)
        if out:
            return out
        decl = impl["decl"]
        live = [(e, o) for e in decl["entities"] for o in e["ops"] if not o["deleted"]]

        # ---- settings
        want_set = {k: nest(tokenize(v)) for k, v in impl["settings"].items() if v is not None}
        if settings_seen != want_set:
            bad("Mesh.format_settings:settings", f"file {settings_seen}, declared {want_set}")

        # ---- vertices
        verts = []
        items = sec["vertices"]
        i = 0
        while i < len(items):
            proj: List[str] = []
            if items[i] == "project":
                if i + 3 >= len(items):
                    bad("Vertex.description:malformed", str(items[i:i + 4]))
                    return out
                xyz, labs, com = items[i + 1], items[i + 2], items[i + 3]
                proj = list(labs[1]) if isinstance(labs, tuple) else []
                i += 4
            else:
                if i + 1 >= len(items):
                    bad("Vertex.description:malformed", str(items[i:i + 2]))
                    return out
                xyz, com = items[i], items[i + 1]
                i += 2
            if not (isinstance(xyz, tuple) and xyz[0] == "(" and len(xyz[1]) == 3 and isinstance(com, str) and com.startswith("//")):
                bad("Vertex.description:malformed", str((xyz, com))[:100])
                return out
            if com != f"// {len(verts)}":
                bad("Vertex.description:index-comment", f"{com!r} at position {len(verts)}")
            verts.append({"xyz": list(xyz[1]), "proj": proj})
        n = len(verts)

        def idx_list(items, where) -> Optional[List[int]]:
            try:
                r = [int(x) for x in items]
            except (ValueError, TypeError):
                bad(f"{where}:index-not-a-number", str(items)[:80])
                return None
            if any(not 0 <= x < n for x in r):
                bad(f"{where}:index-out-of-range", f"{r} with {n} vertices")
                return None
            return r

        # ---- blocks
        hexes: List[List[int]] = []
        items = sec["blocks"]
        i = 0
        k = 0
        while i < len(items):
            if items[i] != "hex" or i + 1 >= len(items) or not isinstance(items[i + 1], tuple):
                bad("Block.description:malformed", str(items[i:i + 3])[:100])
                return out
            ix = idx_list(items[i + 1][1], "Block.description")
            if ix is None:
                return out
            i += 2
            zone = ""
            if i < len(items) and isinstance(items[i], str) and not items[i].startswith("//"):
                zone = items[i]
                i += 1
            if i + 3 > len(items) or not (isinstance(items[i], tuple) and isinstance(items[i + 1], str) and isinstance(items[i + 2], tuple)):
                bad("Block.description:malformed", str(items[i:i + 3])[:100])
                return out
            counts, gk, grad = items[i][1], items[i + 1], items[i + 2][1]
            i += 3
            if i < len(items) and isinstance(items[i], str) and items[i].startswith("//"):
                if items[i] != f"// {k}":
                    bad("Block.description:index-comment", f"{items[i]!r} for block {k}")
                i += 1
            if len(ix) != 8:
                bad("Block.description:not-8-corners", str(ix))
                return out
            if k < len(live):
                e, o = live[k]
                if zone != o["zone"]:
                    bad("Block.description:cell-zone", f"block {k}: file {zone!r}, declared {o['zone']!r}")
                want_tail = impl["tails"][k] if k < len(impl["tails"]) else None
                if want_tail is not None:
                    wires = want_tail[2]
                    if counts != [str(n) for n in want_tail[0]]:
                        bad("Block.description:counts", f"block {k}: file {counts}, block object {want_tail[0]}")
                    if gk == "edgeGrading":
                        # blockMesh applies the twelve entries to the edges 0-1, 3-2, 7-6, 4-5, 0-3, ... in this order
                        want = [t for a, b in BM_GRADING_ORDER for t in nest(wires["%d-%d" % tuple(sorted((a, b)))])]
                        if grad != want:
                            bad("Block.description:edgeGrading-order", f"block {k}: file {grad}, gradings of the wires in blockMesh's order {want}")
                    elif gk == "simpleGrading":
                        want = [t for a, b in ((0, 1), (0, 3), (0, 4)) for t in nest(wires[f"{a}-{b}"])]
                        if grad != want:
                            bad("Block.description:simpleGrading", f"block {k}: file {grad}, gradings of the wires 0-1, 0-3, 0-4: {want}")
                        if not want_tail[1]:
                            bad("Block.description:simpleGrading-for-different-wires", f"block {k}: {wires}")
                    else:
                        bad("Block.description:grading-keyword", f"block {k}: {gk}")
                    if len(want_tail) > 3 and gk in ("edgeGrading", "simpleGrading"):
                        # every number of the grading reads back (python float(): correctly rounded) to exactly the
                        # double the Grading object holds; integers are written as integers
                        order = BM_GRADING_ORDER if gk == "edgeGrading" else [(0, 1), (0, 3), (0, 4)]
                        nums = []
                        for a, b in order:
                            sp = want_tail[3]["%d-%d" % tuple(sorted((a, b)))]
                            nums += [sp[0][2]] if len(sp) == 1 else [x for d in sp for x in d]

                        def leaves(t):
                            return [t] if isinstance(t, str) else [x for u in t[1] for x in leaves(u)]

                        file_nums = [x for t in grad for x in leaves(t)]
                        if len(file_nums) != len(nums):
                            bad("Block.description:grading-numbers", f"block {k}: file {file_nums}, specification {nums}")
                        else:
                            for tok, val in zip(file_nums, nums):
                                try:
                                    same = (tok == str(val)) if isinstance(val, int) else (float(tok) == val and "n" not in tok.lower())
                                except ValueError:
                                    same = False
                                if not same:
                                    bad("Block.description:grading-number-does-not-read-back", f"block {k}: token {tok!r} for the value {val!r}")
                                    break
                for c in range(8):
                    pos = o["corners"][c]["pos"]
                    got = verts[ix[c]]["xyz"]
                    try:
                        err = max(abs(float(g) - p) for g, p in zip(got, pos))
                    except ValueError:
                        err = 1.0
                    if err > TOL + 0.51e-8:
                        bad("Mesh.assemble:corner-at-wrong-vertex", f"block {k} corner {c} at {pos} -> vertex {ix[c]} {got}")
                        break
            hexes.append(ix)
            k += 1
        if len(hexes) != len(live):
            bad("Mesh.assemble:hex-count", f"{len(hexes)} hex entries for {len(live)} non-deleted operations")
            return out
        # vertices are the declared points, printed with 8 decimals; projected corners keep their labels
        first_corner: Dict[int, Tuple[int, int]] = {}
        for bi, ix in enumerate(hexes):
            for c, v in enumerate(ix):
                first_corner.setdefault(v, (bi, c))
        if len(first_corner) != n:
            bad("VertexList:vertex-not-used-by-any-block", f"{n} vertices, {len(first_corner)} used")
        for v, (bi, c) in first_corner.items():
            corner = live[bi][1]["corners"][c]
            want = [fmt8(x) for x in corner["pos"]]
            if verts[v]["xyz"] != want:
                # a later corner within the tolerance may print differently; accept only exact first-corner text
                bad("Vertex.description:coordinates", f"vertex {v}: file {verts[v]['xyz']}, first corner prints {want}")
                break
            if verts[v]["proj"] != corner["proj"]:
                bad("Vertex.description:projection-labels", f"vertex {v}: file {verts[v]['proj']}, declared {corner['proj']}")
                break

        # ---- boundary
        def cyc_ok(q: List[int], ix: List[int]) -> bool:
            for side, cyc in BM_SIDE_CYCLE.items():
                want = [ix[c] for c in cyc]
                for r in range(4):
                    rot = want[r:] + want[:r]
                    if q == rot or q == rot[::-1]:
                        return True
            return False

        def is_block_side(q: List[int]) -> bool:
            return any(cyc_ok(q, ix) for ix in hexes)

        patches: Dict[str, dict] = {}
        items = sec["boundary"]
        if len(items) % 2:
            bad("Patch.description:malformed", str(items[-1])[:80])
            return out
        for name, body in zip(items[::2], items[1::2]):
            if not (isinstance(name, str) and isinstance(body, tuple) and body[0] == "{"):
                bad("Patch.description:malformed", str((name, body))[:100])
                return out
            st: List[list] = []
            cur = []
            for t in body[1]:
                if t == ";":
                    st.append(cur)
                    cur = []
                else:
                    cur.append(t)
            if cur or len(st) < 2 or st[0][:1] != ["type"] or len(st[0]) != 2 or st[-1][:1] != ["faces"] or len(st[-1]) != 2:
                bad("Patch.description:malformed", f"{name}: {st} / {cur}"[:160])
                return out
            quads = []
            for q in st[-1][1][1]:
                ix = idx_list(q[1], "Patch.description") if isinstance(q, tuple) else None
                if ix is None:
                    return out
                quads.append(ix)
            if name in patches:
                bad("PatchList.description:patch-twice", name)
            patches[name] = {"type": st[0][1], "settings": st[1:-1], "quads": quads}
        want_p: Dict[str, dict] = {}
        for bi, (e, o) in enumerate(live):
            for side, pname in zip(SIDE_ORDER, o["patches"]):
                if pname is not None:
                    want_p.setdefault(pname, {"sets": set(), "type": "patch", "settings": []})
                    want_p[pname]["sets"].add(frozenset(hexes[bi][c] for c in BM_SIDE_CYCLE[side]))
        for which in ("before", "after"):
            for c in case[which]:
                if c[0] == "modify":
                    w = want_p.setdefault(c[1], {"sets": set(), "type": "patch", "settings": []})
                    w["type"] = c[2]
                    if c[3] is not None:
                        w["settings"] = [nest(tokenize(s)) for s in c[3]]
        if set(patches) != set(want_p):
            bad("PatchList:patch-names", f"file {sorted(patches)}, declared {sorted(want_p)}")
        for name in set(patches) & set(want_p):
            got, want = patches[name], want_p[name]
            if got["type"] != want["type"]:
                bad("Patch.description:type", f"{name}: file {got['type']}, declared {want['type']}")
            if got["settings"] != want["settings"]:
                bad("Patch.description:settings", f"{name}: file {got['settings']}, declared {want['settings']}")
            gsets = [frozenset(q) for q in got["quads"]]
            if set(gsets) != want["sets"] or len(gsets) != len(set(gsets)):
                bad("Patch.description:faces", f"{name}: file {got['quads']}, declared sides {sorted(map(sorted, want['sets']))}")
            for q in got["quads"]:
                if not is_block_side(q):
                    bad("Side.description:quad-is-not-a-block-side", f"patch {name}: {q}")
                    break

        # ---- projected faces
        faces = []
        items = sec["faces"]
        if len(items) % 3:
            bad("ProjectedFace.description:malformed", str(items)[:100])
            return out
        for kw, q, lab in zip(items[::3], items[1::3], items[2::3]):
            ix = idx_list(q[1], "ProjectedFace.description") if isinstance(q, tuple) else None
            if kw != "project" or ix is None or not isinstance(lab, str):
                bad("ProjectedFace.description:malformed", str((kw, q, lab))[:100])
                return out
            faces.append((ix, lab))
        want_f: Dict[frozenset, set] = {}
        for bi, (e, o) in enumerate(live):
            projs = list(zip(["front", "right", "back", "left"], o["side_proj"])) + [("bottom", o["bottom_proj"]), ("top", o["top_proj"])]
            for side, lab in projs:
                if lab is not None:
                    want_f.setdefault(frozenset(hexes[bi][c] for c in BM_SIDE_CYCLE[side]), set()).add(lab)
        got_f = {frozenset(q): lab for q, lab in faces}
        if len(got_f) != len(faces):
            bad("FaceList:projected-face-twice", str(faces)[:160])
        if set(got_f) != set(want_f):
            bad("FaceList:projected-faces", f"file {sorted(map(sorted, got_f))}, declared {sorted(map(sorted, want_f))}")
        for q, lab in faces:
            if frozenset(q) in want_f and lab not in want_f[frozenset(q)]:
                bad("FaceList:projection-label", f"{q}: file {lab}, declared {sorted(want_f[frozenset(q)])}")
            if not is_block_side(q):
                bad("Side.description:quad-is-not-a-block-side", f"projected face {q}")
                break

        # ---- defaultPatch, mergePatchPairs
        dflt = [c for which in ("before", "after") for c in case[which] if c[0] == "default"][-1:]
        if dflt:
            if sec.get("defaultPatch") != ["name", dflt[0][1], ";", "type", dflt[0][2], ";"]:
                bad("PatchList.description:defaultPatch", f"file {sec.get('defaultPatch')}, declared {dflt[0][1:]}")
        elif "defaultPatch" in sec:
            bad("PatchList.description:defaultPatch", "present although not declared")
        merges = [("(", [c[1], c[2]]) for which in ("before", "after") for c in case[which] if c[0] == "merge"]
        if sec["mergePatchPairs"] != merges:
            bad("PatchList.description:mergePatchPairs", f"file {sec['mergePatchPairs']}, declared {merges}")

        # ---- geometry: exactly the declared entries; every label used is defined
        geo: Dict[str, list] = {}
        gi = sec.get("geometry", [])
        for name, body in zip(gi[::2], gi[1::2]):
            if not isinstance(body, tuple):
                bad("GeometryList.description:malformed", str(body)[:80])
                return out
            st, cur = [], []
            for t in body[1]:
                if t == ";":
                    st.append(cur)
                    cur = []
                else:
                    cur.append(t)
            geo[name] = st
        want_g: Dict[str, list] = {}
        user_g: Dict[str, list] = {}
        for c in case["before"]:
            if c[0] == "geometry":
                for kx, v in c[1].items():
                    want_g[kx] = [nest(tokenize(p)) for p in v]
                    user_g[kx] = want_g[kx]
        for e in decl["entities"]:
            for kx, v in e["geometry"].items():
                want_g[kx] = [nest(tokenize(p)) for p in v]
        for c in case["after"]:
            if c[0] == "geometry":
                for kx, v in c[1].items():
                    want_g[kx] = [nest(tokenize(p)) for p in v]
                    user_g[kx] = want_g[kx]
        if case.get("reassemble") or case.get("rewrite"):
            # the second assembly adds the geometry of the entities again
            for e in decl["entities"]:
                for kx, v in e["geometry"].items():
                    want_g[kx] = [nest(tokenize(p)) for p in v]
        # two different shapes must not bring one name for two different geometries (one would overwrite the other)
        brought: Dict[str, Tuple[int, list]] = {}
        for ei, e in enumerate(decl["entities"]):
            for kx, v in e["geometry"].items():
                if kx in brought and brought[kx][0] != ei and brought[kx][1] != v:
                    bad(f"geometry:two-shapes-one-label:{e['cls']}", f"`{kx}` is defined as {brought[kx][1]} by entity {brought[kx][0]} and as {v} by entity {ei}")
                brought.setdefault(kx, (ei, v))
        if geo != want_g:
            bad("GeometryList.description:entries", f"file {sorted(geo)}, declared {sorted(want_g)}" if set(geo) != set(want_g) else "properties differ")
        used = set()
        for v in verts:
            used |= set(v["proj"])
        used |= {lab for _, lab in faces}
        # edges
        items = [t for t in sec["edges"] if not (isinstance(t, str) and t.startswith("//"))]
        if len(items) % 4:
            bad("Edge.description:malformed", str(items)[:100])
            return out
        seen_pairs = set()
        file_edges: Dict[frozenset, tuple] = {}
        for kw, a, b, payload in zip(items[::4], items[1::4], items[2::4], items[3::4]):
            ix = idx_list([a, b], "Edge.description")
            if ix is None or not isinstance(payload, tuple):
                if ix is not None:
                    bad("Edge.description:malformed", str((kw, a, b, payload))[:100])
                return out
            if kw == "project":
                used |= {x for x in payload[1] if isinstance(x, str)}
            pair = frozenset(ix)
            file_edges.setdefault(pair, (kw, ix, payload))
            if pair in seen_pairs:
                bad("EdgeList:edge-twice", str(sorted(pair)))
            seen_pairs.add(pair)
            if not any({hx[x], hx[y]} == set(pair) for hx in hexes for x, y in map(tuple, map(sorted, BM_EDGES))):
                bad("EdgeList:edge-not-on-a-block-edge", str(sorted(pair)))
        # the numbers of a curved edge: an arc the user gave by a point prints that point, a spline / polyLine the
        # user's through points from the first written vertex to the second -- each to 8 decimals (vector_format)
        SLOT_CORNERS = [(i, (i + 1) % 4) for i in range(4)] + [(4 + i, 4 + (i + 1) % 4) for i in range(4)] + [(i, i + 4) for i in range(4)]
        declared: Dict[frozenset, list] = {}
        bj = 0
        for e in decl["entities"]:
            for o in e["ops"]:
                if o["deleted"]:
                    continue
                if bj < len(hexes):
                    for (ca, cb_), eu, kind in zip(SLOT_CORNERS, o.get("edge_user", []), o.get("edge_kinds", [])):
                        if kind != "line":
                            # (None: a kind whose points are computed by the library -- origin / angle arcs, curves)
                            declared.setdefault(frozenset((hexes[bj][ca], hexes[bj][cb_])), []).append((hexes[bj][ca], eu))
                bj += 1
        for pair, (kw, ix, payload) in file_edges.items():
            decl_here = declared.get(pair, [])
            if any(eu is None for _, eu in decl_here):
                # another operation declared an origin / angle arc, a projection or a curve between the same two vertices;
                # the first valid edge wins (EdgeList.add) and its points are computed by the library (C07 / C08)
                continue
            cands = [(va, eu) for va, eu in decl_here if eu["kind"] == kw]
            if not cands or len(pair) != 2:
                continue  # edges of built-in shapes
            inner = payload[1]
            groups = [inner] if kw == "arc" else [g[1] for g in inner if isinstance(g, tuple)]
            ok_any = False
            for va, eu in cands:
                want_pts = eu["pts"] if (kw == "arc" or ix[0] == va) else eu["pts"][::-1]
                want_txt = [[fmt8(x) for x in p] for p in want_pts]
                if [list(g) for g in groups] == want_txt:
                    ok_any = True
            if not ok_any:
                va, eu = cands[0]
                want_pts = eu["pts"] if (kw == "arc" or ix[0] == va) else eu["pts"][::-1]
                bad(
                    f"Edge.description:{kw}-points",
                    f"edge {ix[0]} {ix[1]}: the file lists {[' '.join(map(str, g)) for g in groups]}, the user's points (first to second vertex, %.8f) are "
                    f"{[' '.join(fmt8(x) for x in p) for p in want_pts]}",
                )
        for lab in sorted(used - set(geo)):
            owner = "user"
            for e in decl["entities"]:
                if any(lab in c["proj"] for o in e["ops"] for c in o["corners"]) or any(
                    lab in (o["side_proj"] + [o["bottom_proj"], o["top_proj"]]) or any(lab in ls for ls in o["edge_labels"]) for o in e["ops"]
                ):
                    owner = e["cls"]
                    break
            bad(f"geometry:label-undefined:{owner}", f"`{lab}` is projected to but not defined in the geometry section", observed=sorted(geo))
        # a shape that brings its own geometry projects to it (not to another shape's)
        for e in decl["entities"]:
            if e["geometry"]:
                own = set(e["geometry"])
                labs = set()
                for o in e["ops"]:
                    labs |= {l for l in o["side_proj"] + [o["bottom_proj"], o["top_proj"]] if l is not None}
                    for ls in o["edge_labels"]:
                        labs |= set(ls)
                    for c in o["corners"]:
                        labs |= set(c["proj"])
                foreign = labs - own - set(user_g)
                if foreign:
                    bad(f"geometry:shape-projects-to-foreign-label:{e['cls']}", f"{sorted(foreign)} not among its own geometry {sorted(own)}")

        # ---- a built-in sphere is projected to its own sphere: the vertices of every side it projects lie on the
        # searchableSphere that the file defines under that label
        bi = 0
        off_sphere = False
        for e in decl["entities"]:
            spheres = {}
            for kx in e["geometry"]:
                st = {s0[0]: s0[1:] for s0 in geo.get(kx, []) if s0}
                if st.get("type") == ["searchableSphere"] and "centre" in st and "radius" in st:
                    try:
                        spheres[kx] = ([float(x) for x in st["centre"][0][1]], float(st["radius"][0]))
                    except (ValueError, IndexError, TypeError):
                        pass
            for o in e["ops"]:
                if o["deleted"]:
                    continue
                projs = list(zip(["front", "right", "back", "left"], o["side_proj"])) + [("bottom", o["bottom_proj"]), ("top", o["top_proj"])]
                for side, lab in projs:
                    # (a program that moves a vertex by hand may move it off its sphere: not judged there)
                    if lab in spheres and not off_sphere and not case.get("rewrite"):
                        centre, radius = spheres[lab]
                        for c in BM_SIDE_CYCLE[side]:
                            p = [float(x) for x in verts[hexes[bi][c]]["xyz"]]
                            dist = sum((a - b) ** 2 for a, b in zip(p, centre)) ** 0.5
                            if abs(dist - radius) > 1e-6 * max(1.0, radius):
                                bad(
                                    f"geometry:projected-side-not-on-its-sphere:{e['cls']}",
                                    f"block {bi} side {side} is projected to `{lab}` = sphere(centre {centre}, radius {radius}) but its corner {c} at {p} is {dist} away from the centre",
                                )
                                off_sphere = True
                                break
                bi += 1

        # ---- second opinion: the clauses decided by the Lean model on the dictionary it parsed from the file
        fl = impl.get("flags")
        if fl:
            if fl.get("idx") == "0":
                bad("parsed-file:index-out-of-range", "Lean: indicesOk (parse file) = false")
            if fl.get("quads") == "0":
                bad("parsed-file:quad-is-not-a-block-side", "Lean: quadsOk (parse file) = false")
            if fl.get("geom") == "0":
                bad("parsed-file:projection-label-undefined", "Lean: geometryOk (parse file) = false")

        # ---- VTK
        if impl.get("vtk_missing"):
            bad("write_vtk:file-not-written", "write(path, debug_path) left no debug VTK although a path was given")
        if impl["vtk"] is not None:
            w = impl["vtk"]
            try:
                p = w.index("POINTS")
                npts = int(w[p + 1])
                pts = [[float(x) for x in w[p + 3 + 3 * i:p + 6 + 3 * i]] for i in range(npts)]
                c = w.index("CELLS")
                nc = int(w[c + 1])
                cells = [[int(x) for x in w[c + 3 + 9 * i:c + 12 + 9 * i]] for i in range(nc)]
                if npts != n or pts != impl["vpos"]:
                    bad("write_vtk:points", f"{npts} points for {n} vertices" if npts != n else "coordinates differ")
                if [x[1:] for x in cells] != hexes or any(x[0] != 8 for x in cells):
                    bad("write_vtk:cells", f"vtk {cells[:3]}, hex {hexes[:3]}")
                for i, p8 in enumerate(pts[:n]):
                    if [fmt8(x) for x in p8] != verts[i]["xyz"]:
                        bad("write_vtk:points-vs-vertices", f"point {i}: vtk {p8}, file {verts[i]['xyz']}")
                        break
            except (ValueError, IndexError) as ex:
                bad("write_vtk:malformed", str(ex))
        return out

    def nontrivial_key(self, case, impl):
        if case["kind"] == "protocol" or not isinstance(impl, dict) or "decl" not in impl:
            return None
        return json.dumps([impl["decl"], case["before"], case["after"]], sort_keys=True, default=str)

    def classify(self, case, impl):
        if case["kind"] == "protocol":
            return "protocol:malformed-request"
        kinds = sorted({e["t"] for e in case["entities"]})
        flags = []
        if case["explicit_assemble"]:
            flags.append("two-phase")
        if case["delete"]:
            flags.append("delete")
        if case["vtk"]:
            flags.append("vtk")
        if any(c[0] == "merge" for c in case["before"] + case["after"]):
            flags.append("merge")
        if case.get("far"):
            flags.append("far-origin")
        if case.get("reassemble"):
            flags.append("re-" + case["reassemble"])
        if case.get("rewrite"):
            flags.append("second-write")
        return "+".join(kinds) + "|" + "+".join(flags)


if __name__ == "__main__":
    sys.exit(core.main(C06()))
