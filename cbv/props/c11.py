"""C11 — predefined shapes give right-handed, conformal, fully choppable blockings.

Every case builds one predefined entity (or a chain of up to four round shapes) of the real library at a
random placement (rational unnormalised quaternion, offset, scale), applies the documented chop calls,
assembles and writes.  Observed: block -> vertex indexes, exact vertex positions, arc edges, chopped
(operation, axis) pairs, outcome of Mesh.write() and the written counts.

Model side (Lean, CBV.Model.C11): `c11.write` predicts the outcome of the write from the observed
blocking and the chopped axes (axis-level propagation), `c11.loft/ring/grid/shape` rebuild the blocking
from the generated quad maps / hand models / probe tables, `c11.fam` the wire families, `c11.rh` the
handedness validator on exact rationals.

Oracle (independent of the model and of the repository's tables): right-handed corner Jacobians (exact),
conformity of every pair of blocks against the hard-coded blockMesh hexahedron, expected block / vertex
counts, arcs on the intended circles, write succeeds with consistent counts, chained shapes share exactly
the interface vertices.
"""

from __future__ import annotations

import json
import math
import os
import random
import signal
import sys
from fractions import Fraction
from typing import Any, Dict, List, Optional, Tuple

# one BLAS/OpenMP thread per process: the cases run in a fork pool, the matrices are 3 x 3
for _v in ("OMP_NUM_THREADS", "OPENBLAS_NUM_THREADS", "MKL_NUM_THREADS", "NUMEXPR_NUM_THREADS"):
    os.environ.setdefault(_v, "1")

from .. import core  # noqa: E402

# blockMeshDict files are written below the (git-ignored) lake directory and removed at once; nothing goes to /tmp
SCRATCH = os.environ.get("C11_SCRATCH", str(core.LEAN / ".lake" / "c11tmp"))

# ----------------------------------------------------------------------------- blockMesh convention (hard-coded)
BM_FACES = [(0, 1, 2, 3), (4, 5, 6, 7), (0, 3, 7, 4), (1, 2, 6, 5), (0, 1, 5, 4), (3, 2, 6, 7)]
BM_EDGES = [(0, 1), (3, 2), (7, 6), (4, 5), (0, 3), (1, 2), (5, 6), (4, 7), (0, 4), (1, 5), (2, 6), (3, 7)]
BM_AXIS_EDGES = [[(0, 1), (3, 2), (7, 6), (4, 5)], [(0, 3), (1, 2), (5, 6), (4, 7)], [(0, 4), (1, 5), (2, 6), (3, 7)]]
# corner -> neighbours along x, y, z ordered so that a right-handed cell has a positive triple product
BM_NBRS = {0: (1, 3, 4), 1: (2, 0, 5), 2: (3, 1, 6), 3: (0, 2, 7), 4: (7, 5, 0), 5: (4, 6, 1), 6: (5, 7, 2), 7: (6, 4, 3)}

SKETCHES = [
    "OneCoreDisk", "QuarterDisk", "HalfDisk", "FourCoreDisk", "WrappedDisk", "Oval",
    "QuarterSplineDisk", "HalfSplineDisk", "SplineDisk", "QuarterSplineRing", "HalfSplineRing", "SplineRing",
]  # fmt: skip
SKETCH_POINTS = {  # number of points of the sketch, from docs/blocking (not read from the code)
    "OneCoreDisk": 8, "QuarterDisk": 7, "HalfDisk": 11, "FourCoreDisk": 17, "WrappedDisk": 12, "Oval": 22,
    "QuarterSplineDisk": 7, "HalfSplineDisk": 11, "SplineDisk": 17, "QuarterSplineRing": 6, "HalfSplineRing": 10,
    "SplineRing": 16,
}  # fmt: skip
SKETCH_FACES = {
    "OneCoreDisk": 5, "QuarterDisk": 3, "HalfDisk": 6, "FourCoreDisk": 12, "WrappedDisk": 9, "Oval": 16,
    "QuarterSplineDisk": 3, "HalfSplineDisk": 6, "SplineDisk": 12, "QuarterSplineRing": 2, "HalfSplineRing": 4,
    "SplineRing": 8,
}  # fmt: skip
TABLE_RINGS = (3, 4, 5, 6, 8, 12)
TABLE_JOINTS = (2, 3, 4, 5, 6)
WRITE_TIMEOUT = 40  # seconds per Mesh.write (a hang there is C02's business, reported separately)



class WriteTimeout(Exception):
    pass


def _alarm(signum, frame):
    raise WriteTimeout()


# ----------------------------------------------------------------------------- numbers
def F(x) -> Fraction:
    return Fraction(x)


def fl(x) -> float:
    return float(Fraction(x))


def rq(rng: random.Random, lo: float, hi: float, den: int = 16) -> str:
    """a rational in [lo, hi] with denominator `den`, as a string"""
    a, b = math.ceil(lo * den), math.floor(hi * den)
    return str(Fraction(rng.randint(a, b), den))


def rotation(q: List[int]):
    """exact rotation matrix of the unnormalised quaternion (w, x, y, z), as floats"""
    import numpy as np

    w, x, y, z = (Fraction(c) for c in q)
    n = w * w + x * x + y * y + z * z
    m = [
        [w * w + x * x - y * y - z * z, 2 * (x * y - w * z), 2 * (x * z + w * y)],
        [2 * (x * y + w * z), w * w - x * x + y * y - z * z, 2 * (y * z - w * x)],
        [2 * (x * z - w * y), 2 * (y * z + w * x), w * w - x * x - y * y + z * z],
    ]
    return np.array([[float(c / n) for c in row] for row in m])


class Frame:
    """placement: local -> world, p |-> R (s p) + t"""

    def __init__(self, case: dict):
        import numpy as np

        self.R = rotation(case["q"])
        self.s = fl(case["s"])
        self.t = np.array([fl(c) for c in case["t"]])

    def P(self, x, y, z):
        import numpy as np

        return self.R @ (self.s * np.array([float(x), float(y), float(z)])) + self.t

    def V(self, x, y, z):
        import numpy as np

        return self.R @ np.array([float(x), float(y), float(z)])

    def L(self, length) -> float:
        return self.s * (fl(length) if isinstance(length, str) else float(length))


def polar(r, phi):
    return (fl(r) * math.cos(fl(phi)), fl(r) * math.sin(fl(phi)))


# ----------------------------------------------------------------------------- case generation
ROUND = ["Cylinder", "SemiCylinder", "Frustum", "Elbow", "ExtrudedRing", "RevolvedRing", "Hemisphere"]
JOINTS = ["LJoint", "TJoint", "NJoint"]
OPS = ["Box", "Extrude", "Revolve", "Wedge", "Shell"]
LOFTED = ["ExtrudedShape", "RevolvedShape", "LoftedShape"]
STACKS = ["ExtrudedStack", "RevolvedStack", "TransformedStack"]
# kinds that may be turned and moved as a whole after they were built (`case["post"]`)
# kinds that are also placed far from the origin with a thin feature
FAR = ["Cylinder", "SemiCylinder", "Frustum", "ExtrudedRing", "Box", "Extrude", "Shell", "Chain", "Hemisphere", "Elbow"]
# round kinds that may get a touching plain neighbour
TOUCHED = ["Cylinder", "SemiCylinder", "Frustum", "ExtrudedRing"]
POSTED = ["Cylinder", "SemiCylinder", "Frustum", "Elbow", "ExtrudedRing", "RevolvedRing", "Hemisphere", "Revolve", "Extrude", "Chain"] + LOFTED + STACKS


def gen_frame(rng: random.Random, far: bool = False) -> dict:
    while True:
        q = [rng.randint(-4, 4) for _ in range(4)]
        if any(q):
            break
    if rng.random() < 0.1:
        q = [1, 0, 0, 0]
    if far:
        # far from the origin in every coordinate (a model in millimetres, a part of a big assembly)
        return {"q": q, "t": [str(rng.choice([-1, 1]) * rng.randint(200, 800)) for _ in range(3)], "s": "1", "far": 1}
    return {
        "q": q,
        "t": [str(Fraction(rng.randint(-24, 24), 8)) for _ in range(3)],
        "s": rng.choice(["1/4", "1/2", "1", "1", "3/2", "2", "4"]),
    }


def gen_chop(rng: random.Random) -> dict:
    """kwargs of the three chop calls; sizes are relative to the local unit (scaled with the frame)"""
    mode = rng.choice(["count", "count", "size", "count_c2c", "size_c2c", "count_total", "start_end"])
    out = {"mode": mode, "calls": []}
    for _ in range(3):
        n = rng.randint(1, 7)
        size = rq(rng, 0.03, 0.11, 128)
        if mode == "count":
            kw = {"count": n}
        elif mode == "size":
            kw = {"start_size": size}
        elif mode == "count_c2c":
            kw = {"count": n + 1, "c2c_expansion": rng.choice(["9/10", "11/10", "5/4"])}
        elif mode == "size_c2c":
            kw = {"start_size": size, "c2c_expansion": rng.choice(["1", "21/20", "11/10"])}
        elif mode == "count_total":
            kw = {"count": n + 1, "total_expansion": rng.choice(["1/3", "1/2", "2", "4"])}
        else:
            # small enough for at least three cells on the shortest edge of any generated shape
            size = rq(rng, 0.012, 0.03, 256)
            kw = {"start_size": size, "end_size": str(Fraction(size) * Fraction(rng.choice(["1/2", "2/3", "3/2", "2"])))}
        out["calls"].append(kw)
    return out


def gen_sketch(rng: random.Random, name: Optional[str] = None, square: Optional[bool] = None) -> dict:
    name = name or rng.choice(SKETCHES)
    p: Dict[str, Any] = {"sketch": name, "phi": rq(rng, 0, 6.25, 8)}
    if name in ("OneCoreDisk", "QuarterDisk", "HalfDisk", "FourCoreDisk", "WrappedDisk", "Oval") and rng.random() < 0.4:
        p["nlen"] = rng.choice(["1/4", "2/3", "5/2", "7"])
    if name in ("OneCoreDisk", "QuarterDisk", "HalfDisk", "FourCoreDisk"):
        p["R"] = rq(rng, 0.4, 2)
    elif name == "WrappedDisk":
        p["D"] = rq(rng, 1, 2.5)  # half diagonal of the square
        p["f"] = rq(rng, 0.3, 0.8)  # radius as a fraction of the half side
    elif name == "Oval":
        p["d"] = rq(rng, 0.5, 3)
        p["R"] = rq(rng, 0.3, 1.5)
    else:
        p["a"] = rq(rng, 0.6, 2)
        p["b"] = p["a"] if rng.random() < 0.35 else rq(rng, 0.6, 2)
        if rng.random() < 0.5:
            p["s1"], p["s2"] = "0", "0"
        else:
            p["s1"] = str(Fraction(p["a"]) * Fraction(rng.choice(["0", "1/8", "1/4", "1/2"])))
            p["s2"] = str(Fraction(p["b"]) * Fraction(rng.choice(["0", "1/8", "1/4", "1/2"])))
        if square or (square is None and rng.random() < 0.2):
            # rounded square: equal corner radii and equal, non-zero straight sides (the outline is not a circle)
            p["b"] = p["a"]
            p["s1"] = p["s2"] = str(Fraction(p["a"]) * Fraction(rng.choice(["1/8", "1/4", "1/2"])))
        if name.endswith("Ring"):
            p["w1"] = rq(rng, 0.1, 0.5)
            p["w2"] = rq(rng, 0.1, 0.5)
    return p


def gen_stack_sketch(rng: random.Random, name: str) -> dict:
    if name == "Grid":
        return {"sketch": "Grid", "n": rng.randint(1, 4), "m": rng.randint(1, 4), "w": rq(rng, 0.5, 3), "h": rq(rng, 0.5, 3)}
    if name == "Annulus":
        r = rq(rng, 0.5, 2)
        return {"sketch": "Annulus", "n": rng.choice([3, 4, 5, 6, 8]), "R": r, "r": str(Fraction(r) * Fraction(rng.choice(["1/4", "1/2", "3/4"]))), "phi": rq(rng, 0, 6.25, 8)}
    return gen_sketch(rng, name)


def gen_post(rng: random.Random) -> dict:
    """a rigid motion applied to the finished shape with the library's own rotate / translate"""
    while True:
        ax = [rng.randint(-3, 3) for _ in range(3)]
        if any(ax):
            break
    post = {"angle": rq(rng, 0.3, 2.8), "axis": ax, "origin": [rq(rng, -2, 2, 4) for _ in range(3)], "shift": [rq(rng, -2, 2, 4) for _ in range(3)]}
    if rng.random() < 0.5:
        # change of units: the finished shape is scaled about a given point
        post["scale"] = rng.choice(["1/4", "1/2", "2", "3"])
        post["sorigin"] = [rq(rng, -2, 2, 4) for _ in range(3)]
    return post


def gen_quad(rng: random.Random, x0=0.0, y0=0.0) -> List[List[str]]:
    """convex counter-clockwise quadrilateral in the local x-y plane: a jittered 1 x 1 square at (x0, y0)"""
    base = [(0, 0), (1, 0), (1, 1), (0, 1)]
    return [[str(Fraction(x0) + bx + Fraction(rng.randint(-3, 3), 16)), str(Fraction(y0) + by + Fraction(rng.randint(-3, 3), 16))] for bx, by in base]


def gen_round(rng: random.Random, kind: str) -> dict:
    p: Dict[str, Any] = {"phi": rq(rng, 0, 6.25, 8)}
    if kind in ("Cylinder", "SemiCylinder"):
        p.update(L=rq(rng, 0.5, 3), R=rq(rng, 0.3, 2))
    elif kind == "Frustum":
        p.update(L=rq(rng, 0.5, 3), R=rq(rng, 0.3, 2), R2=rq(rng, 0.3, 2))
        if rng.random() < 0.4:
            p["Rmid"] = rq(rng, 0.3, 2)
    elif kind == "Elbow":
        r, r2 = rq(rng, 0.3, 1.2), rq(rng, 0.3, 1.2)
        # the bend radius D exceeds both tube radii by a margin (otherwise the inside of the bend folds over)
        p.update(R=r, R2=r2, D=str(max(Fraction(r), Fraction(r2)) + Fraction(rq(rng, 0.6, 3))), sweep=rq(rng, 0.25, 1.5))
        p["neg"] = int(rng.random() < 0.5)  # the same rotation given as (-angle, -axis)
    elif kind == "ExtrudedRing":
        r = rq(rng, 0.5, 2)
        p.update(L=rq(rng, 0.5, 3), R=r, r=str(Fraction(r) * Fraction(rng.choice(["1/4", "1/2", "3/4", "7/8"]))), n=rng.choice([3, 4, 5, 6, 7, 8, 8, 9, 12]))
    elif kind == "RevolvedRing":
        p.update(face=gen_quad(rng, rq(rng, -1, 1), rq(rng, 0.5, 2)), n=rng.choice([3, 4, 5, 6, 7, 8, 8, 12]), reuse=int(rng.random() < 0.5))
    elif kind == "Hemisphere":
        p.update(R=rq(rng, 0.3, 2))
    if kind in ("Hemisphere", "Elbow") and rng.random() < 0.6:
        p["nlen"] = rng.choice(["1/4", "2/3", "5/2", "7"])  # the normal is a direction: any length is valid
    return p


def gen_pre(rng: random.Random, copy: Optional[int] = None, rigid: Optional[bool] = None) -> dict:
    """a similarity transform of everything built so far, applied with the library's own scale / rotate / translate
    before the next shape is attached (a part brought to size, or a re-sized copy of it, is built on):
    `copy` = the user goes on with copies of the shapes (chops made so far are carried by the copies)"""
    pre: Dict[str, Any] = {
        "scale": rng.choice(["1/2", "2/3", "3/2", "2"]),
        "sorigin": [rq(rng, -2, 2, 4) for _ in range(3)],
        "copy": rng.randint(0, 1) if copy is None else copy,
    }
    if rng.random() < 0.5 if rigid is None else rigid:
        while True:
            ax = [rng.randint(-3, 3) for _ in range(3)]
            if any(ax):
                break
        pre.update(angle=rq(rng, 0.3, 2.8), axis=ax, origin=[rq(rng, -2, 2, 4) for _ in range(3)], shift=[rq(rng, -2, 2, 4) for _ in range(3)])
    return pre


def gen_chain(rng: random.Random) -> dict:
    """a base round shape and 1..3 further shapes attached to free sides of earlier ones"""
    base = rng.choice(["Cylinder", "Cylinder", "Frustum", "Elbow", "ExtrudedRing"])
    bp = gen_round(rng, base)
    if base == "ExtrudedRing" and rng.random() < 0.6:
        bp["n"] = 8
    free = {"Cylinder": ["start", "end", "outer"], "Frustum": ["start", "end"], "Elbow": ["start", "end"], "ExtrudedRing": ["start", "end", "outer", "inner"], "Hemisphere": []}
    kinds = [base]
    slots = [list(free[base])]
    segs = [bp.get("n", 8)]
    links: List[dict] = []
    for _ in range(rng.randint(1, 3)):
        cands = [(i, sl) for i in range(len(kinds)) for sl in slots[i]]
        if not cands:
            break
        src, sl = rng.choice(cands)
        sk = kinds[src]
        if sl in ("start", "end"):
            if sk == "ExtrudedRing":
                op = "ExtrudedRing.chain"
            else:
                op = rng.choice(["Cylinder.chain", "Frustum.chain", "Hemisphere.chain", "Elbow.chain"])
        elif sl == "outer":
            op = "ExtrudedRing.expand"
        else:
            op = "Cylinder.fill" if segs[src] == 8 and rng.random() < 0.5 else "ExtrudedRing.contract"
        slots[src].remove(sl)
        link: Dict[str, Any] = {"op": op, "src": src, "start": int(sl == "start")}
        if op in ("Cylinder.chain", "ExtrudedRing.chain"):
            link["L"] = rq(rng, 0.4, 2)
        elif op == "Frustum.chain":
            link.update(L=rq(rng, 0.4, 2), R2=rq(rng, 0.3, 1.5))
            if rng.random() < 0.3:
                link["Rmid"] = rq(rng, 0.3, 1.5)
        elif op == "Elbow.chain":
            link.update(sweep=rq(rng, 0.25, 1.4), d=rq(rng, 0.6, 2.5), R2=rq(rng, 0.3, 1.2))
        elif op == "ExtrudedRing.expand":
            link.update(T=rq(rng, 0.2, 1))
        elif op == "ExtrudedRing.contract":
            link.update(f=rng.choice(["1/4", "1/2", "3/4"]))
        if rng.random() < 0.35:
            link["pre"] = gen_pre(rng)
        links.append(link)
        nk = op.split(".")[0]
        kinds.append(nk)
        segs.append(segs[src])
        ns = list(free[nk])
        if op.endswith(".chain") and nk != "Hemisphere":
            ns.remove("start")
            if nk == "Cylinder" and link["start"]:
                pass
        elif op == "ExtrudedRing.expand":
            ns.remove("inner")
        elif op == "ExtrudedRing.contract":
            ns.remove("outer")
        elif op == "Cylinder.fill":
            ns.remove("outer")
        # a Frustum chained from a Frustum etc. is fine; an expanded ring around a chained cylinder as well
        slots.append(ns)
    return {"base": base, "bp": bp, "links": links}


def _usable(kinds_links) -> bool:
    return True


THIN = "1/1024"  # a thin feature: 1e-3 of the unit, less than 1e-5 of a far placement's coordinates


def gen_case(rng: random.Random, kind: str, far: Optional[bool] = None) -> dict:
    c: Dict[str, Any] = {"kind": kind}
    if far is None:
        far = kind in FAR and rng.random() < 0.12
    c.update(gen_frame(rng, far))
    c["chop"] = gen_chop(rng)
    if far:
        # thin features cannot be chopped by size: counts only
        c["chop"] = {"mode": "count", "calls": [{"count": rng.randint(1, 4)} for _ in range(3)]}
    if kind in ROUND:
        c["p"] = gen_round(rng, kind)
    elif kind in JOINTS:
        r = rq(rng, 0.3, 1)
        c["p"] = {"R": r, "L": str(Fraction(r) * Fraction(rq(rng, 3, 5, 4))), "phi": rq(rng, 0, 6.25, 8)}
        if kind == "NJoint":
            c["p"]["k"] = rng.choice([2, 3, 3, 4, 4, 5, 6, 7])
    elif kind == "Box":
        c["p"] = {"a": [rq(rng, -2, 2) for _ in range(3)], "d": [rq(rng, 0.25, 2) for _ in range(3)], "sg": [rng.choice([-1, 1]) for _ in range(3)]}
    elif kind == "Extrude":
        c["p"] = {"face": gen_quad(rng)}
        if rng.random() < 0.5:
            c["p"]["amount"] = rq(rng, 0.3, 2)
        else:
            c["p"]["vec"] = [rq(rng, -0.5, 0.5), rq(rng, -0.5, 0.5), rq(rng, 0.3, 2)]
    elif kind == "Revolve":
        c["p"] = {"face": gen_quad(rng, rq(rng, -1, 1), rq(rng, 0.5, 2)), "angle": rq(rng, 0.2, 1.6)}
    elif kind == "Wedge":
        c["p"] = {"face": gen_quad(rng, rq(rng, -1, 1), rq(rng, 0.5, 2)), "reuse": int(rng.random() < 0.5)}
        if rng.random() < 0.6:
            c["p"]["angle"] = rq(rng, 0.02, 0.3, 64)
    elif kind == "Shell":
        c["p"] = {"d": [rq(rng, 0.5, 2) for _ in range(3)], "amount": rq(rng, 0.2, 0.8)}
    elif kind in LOFTED:
        c["p"] = gen_sketch(rng)
        if kind == "ExtrudedShape":
            if rng.random() < 0.5:
                c["p"]["amount"] = rq(rng, 0.3, 2)
            else:
                c["p"]["vec"] = [rq(rng, -0.5, 0.5), rq(rng, -0.5, 0.5), rq(rng, 0.3, 2)]
        elif kind == "RevolvedShape":
            c["p"].update(angle=rq(rng, 0.2, 1.2), off=rq(rng, 4, 8))
        else:
            c["p"].update(dz=rq(rng, 0.4, 2), twist=rq(rng, -0.3, 0.3), scale=rng.choice(["3/4", "1", "5/4"]), mid=rng.choice([0, 1, 2]))
    elif kind in STACKS:
        c["p"] = gen_stack_sketch(rng, rng.choice(SKETCHES + ["Grid", "Grid", "Grid", "Annulus", "Annulus"]))
        c["p"]["k"] = rng.randint(1, 4)
        if kind == "ExtrudedStack":
            c["p"]["amount"] = rq(rng, 0.5, 3)
        elif kind == "RevolvedStack":
            c["p"].update(angle=rq(rng, 0.3, 1.5), off=rq(rng, 4, 8))
        else:
            # `taper`: a Scaling without origin in the transform list (every tier is scaled about its own centre)
            c["p"].update(dz=rq(rng, 0.3, 1), twist=rq(rng, -0.2, 0.2), mid=int(rng.random() < 0.5), taper=rng.choice(["4/5", "9/10", "1", "11/10"]))
    elif kind == "Chain":
        c["p"] = gen_chain(rng)
    else:
        raise ValueError(kind)
    if far:
        thin_features(rng, c)
    if kind in TOUCHED and rng.random() < 0.3:
        c["touch"] = gen_touch(rng)
    if kind in POSTED and not far and rng.random() < 0.4:
        c["post"] = gen_post(rng)
    return c


def thin_features(rng: random.Random, c: dict) -> None:
    """a boundary-layer ring, a thin disc, a thin plate: one dimension of the shape is `THIN`"""
    k, p = c["kind"], c["p"]
    if k == "ExtrudedRing":
        if rng.random() < 0.5:
            p["r"] = str(Fraction(p["R"]) - Fraction(THIN))
        else:
            p["L"] = THIN
    elif k in ("Cylinder", "SemiCylinder", "Frustum"):
        p["L"] = THIN
    elif k == "Box":
        p["d"][rng.randrange(3)] = THIN
    elif k == "Extrude":
        p.pop("vec", None)
        p["amount"] = THIN
    elif k == "Shell":
        p["amount"] = THIN
    elif k == "Chain":
        for link in p["links"]:
            link.pop("pre", None)
            if "T" in link:
                link["T"] = THIN
            elif "L" in link:
                link["L"] = THIN


def gen_touch(rng: random.Random) -> dict:
    """a plain entity with straight edges that touches the round shape along its curved outer edges, added to the
    mesh before (`first`) or after it"""
    return {"how": rng.choice(["shell", "top"]), "first": int(rng.random() < 0.6), "amount": rq(rng, 0.1, 0.5)}


# ----------------------------------------------------------------------------- building the real thing
def _kw(kw: dict, scale: float) -> dict:
    out = {}
    for k, v in kw.items():
        if k == "count":
            out[k] = int(v)
        elif k in ("start_size", "end_size"):
            out[k] = fl(v) * scale
        else:
            out[k] = fl(v)
    return out


def make_sketch(fr: Frame, p: dict):
    from classy_blocks.construct.flat.sketches import disk as d
    from classy_blocks.construct.flat.sketches import spline_round as s
    from classy_blocks.construct.flat.sketches.grid import Grid

    name = p["sketch"]
    nrm = fr.V(0, 0, 1) * fl(p.get("nlen", "1"))
    c = fr.P(0, 0, 0)
    if name == "Grid":
        g = Grid([0, 0, 0], [fl(p["w"]), fl(p["h"]), 0], p["n"], p["m"])
        return place_element(fr, g)
    cs, sn = math.cos(fl(p["phi"])), math.sin(fl(p["phi"]))
    if name == "Annulus":
        from classy_blocks.construct.flat.sketches.annulus import Annulus

        r = fl(p["R"])
        return Annulus(c, fr.P(r * cs, r * sn, 0), nrm, fr.L(p["r"]), p["n"])
    if name in ("OneCoreDisk", "QuarterDisk", "HalfDisk", "FourCoreDisk"):
        r = fl(p["R"])
        return getattr(d, name)(c, fr.P(r * cs, r * sn, 0), nrm)
    if name == "WrappedDisk":
        dd = fl(p["D"])
        radius = fr.L(fl(p["f"]) * dd / math.sqrt(2))
        return d.WrappedDisk(c, fr.P(dd * cs, dd * sn, 0), radius, nrm)
    if name == "Oval":
        dd = fl(p["d"])
        return d.Oval(c, fr.P(dd * cs, dd * sn, 0), nrm, fr.L(p["R"]))
    a, b = fl(p["a"]), fl(p["b"])
    c1 = fr.P(a * cs, a * sn, 0)
    c2 = fr.P(-b * sn, b * cs, 0)
    kw = {"n_outer_spline_points": 6, "n_straight_spline_points": 4}
    if name.endswith("Ring"):
        return getattr(s, name)(c, c1, c2, fr.L(p["s1"]), fr.L(p["s2"]), fr.L(p["w1"]), fr.L(p["w2"]), **kw)
    return getattr(s, name)(c, c1, c2, fr.L(p["s1"]), fr.L(p["s2"]), **kw)


def place_element(fr: Frame, el):
    """moves an element built in the local frame to the world frame with the library's own transforms"""
    import numpy as np

    if fr.s != 1:
        el.scale(fr.s, [0.0, 0.0, 0.0])
    # rotation matrix -> axis/angle
    R = fr.R
    ang = math.acos(max(-1.0, min(1.0, (np.trace(R) - 1) / 2)))
    if ang > 1e-12:
        if abs(ang - math.pi) < 1e-9:
            w, v = np.linalg.eigh((R + R.T) / 2)
            ax = v[:, int(np.argmax(w))]
        else:
            ax = np.array([R[2, 1] - R[1, 2], R[0, 2] - R[2, 0], R[1, 0] - R[0, 1]])
        ax = ax / np.linalg.norm(ax)
        el.rotate(ang, ax, [0.0, 0.0, 0.0])
    el.translate(fr.t)
    return el


def post_maps(case: dict):
    """(point map, vector map) of the rigid motion `case["post"]` (identity when absent)"""
    import numpy as np

    post = case.get("post")
    if not post:
        return (lambda x: np.asarray(x, dtype=float)), (lambda v: np.asarray(v, dtype=float))
    ax = np.array([float(a) for a in post["axis"]])
    ax = ax / np.linalg.norm(ax)
    a = fl(post["angle"])
    o = np.array([fl(x) for x in post["origin"]])
    sh = np.array([fl(x) for x in post["shift"]])
    sc = fl(post.get("scale", "1"))
    so = np.array([fl(x) for x in post.get("sorigin", ["0", "0", "0"])])

    def rot(v):
        v = np.asarray(v, dtype=float)
        return v * math.cos(a) + np.cross(ax, v) * math.sin(a) + ax * np.dot(ax, v) * (1 - math.cos(a))

    return (lambda x: so + sc * (rot(np.asarray(x, dtype=float) - o) + o + sh - so)), rot


def post_scale(case: dict) -> float:
    return fl((case.get("post") or {}).get("scale", case.get("kwscale", "1")))


def apply_post(case: dict, entity) -> None:
    import numpy as np

    post = case.get("post")
    if post:
        ax = np.array([float(a) for a in post["axis"]])
        entity.rotate(fl(post["angle"]), ax / np.linalg.norm(ax), [fl(x) for x in post["origin"]])
        entity.translate([fl(x) for x in post["shift"]])
        if "scale" in post:
            entity.scale(fl(post["scale"]), [fl(x) for x in post["sorigin"]])


class Built:
    def __init__(self):
        self.entities: List[Any] = []  # in the order they are added to the mesh
        self.shapes: List[Any] = []  # the entities whose blocks form one 'shape' each (for chains)
        self.calls: List[Any] = []  # closures performing the documented chop calls


def face_from(fr: Frame, pts, z=0.0):
    import classy_blocks as cb

    return cb.Face([fr.P(fl(x), fl(y), z) for x, y in pts])


def build(case: dict) -> Built:
    import numpy as np

    import classy_blocks as cb
    from classy_blocks.base import transforms as tr
    from classy_blocks.construct.assemblies.joints import LJoint, NJoint, TJoint

    fr = Frame(case)
    kind = case["kind"]
    p = case["p"]
    kws = [_kw(k, fr.s * post_scale(case)) for k in case["chop"]["calls"]]
    b = Built()

    def round_calls(s, which=(0, 1, 2)):
        fs = [s.chop_axial, s.chop_radial, s.chop_tangential]
        for i in which:
            b.calls.append(lambda i=i: fs[i](**dict(kws[i])))

    def axis_calls(s):
        for i in (0, 1, 2):
            b.calls.append(lambda i=i: s.chop(i, **dict(kws[i])))

    def rp(r, phi):
        x, y = polar(r, phi)
        return fr.P(x, y, 0)

    if kind in ("Cylinder", "SemiCylinder"):
        s = getattr(cb, kind)(fr.P(0, 0, 0), fr.P(0, 0, fl(p["L"])), rp(p["R"], p["phi"]))
    elif kind == "Frustum":
        s = cb.Frustum(fr.P(0, 0, 0), fr.P(0, 0, fl(p["L"])), rp(p["R"], p["phi"]), fr.L(p["R2"]), fr.L(p["Rmid"]) if "Rmid" in p else None)
    elif kind == "Elbow":
        sg = -1.0 if p.get("neg") else 1.0
        s = cb.Elbow(fr.P(0, 0, 0), rp(p["R"], p["phi"]), fr.V(0, 0, 1) * fl(p.get("nlen", "1")), sg * fl(p["sweep"]), fr.P(fl(p["D"]), 0, 0), sg * fr.V(0, 1, 0), fr.L(p["R2"]))
    elif kind == "ExtrudedRing":
        s = cb.ExtrudedRing(fr.P(0, 0, 0), fr.P(0, 0, fl(p["L"])), rp(p["R"], p["phi"]), fr.L(p["r"]), p["n"])
    elif kind == "RevolvedRing":
        xs = face_from(fr, p["face"])
        s = cb.RevolvedRing(fr.P(0, 0, 0), fr.P(1, 0, 0), xs, p["n"])
        if p.get("reuse"):
            # the user moves his cross-section on (to build the next ring from it): the finished ring is a shape
            # of its own, made of rotated copies of the cross-section
            xs.translate(fr.V(1, 0, 0) * fr.L(3))
    elif kind == "Hemisphere":
        s = cb.Hemisphere(fr.P(0, 0, 0), rp(p["R"], p["phi"]), fr.V(0, 0, 1) * fl(p.get("nlen", "1")))
    elif kind in JOINTS:
        L, R = fl(p["L"]), fl(p["R"])
        cs, sn = math.cos(fl(p["phi"])), math.sin(fl(p["phi"]))
        start, center, radius = fr.P(0, -L, 0), fr.P(0, 0, 0), fr.P(R * cs, -L, R * sn)
        if kind == "NJoint":
            s = NJoint(start, center, radius, p["k"])
        else:
            s = (LJoint if kind == "LJoint" else TJoint)(start, center, radius)
    elif kind == "Box":
        a = [fl(x) for x in p["a"]]
        d = [a[i] + p["sg"][i] * fl(p["d"][i]) for i in range(3)]
        s = place_element(fr, cb.Box(a, d))
    elif kind == "Extrude":
        face = face_from(fr, p["face"])
        s = cb.Extrude(face, fr.L(p["amount"])) if "amount" in p else cb.Extrude(face, fr.s * fr.V(*[fl(x) for x in p["vec"]]))
    elif kind == "Revolve":
        s = cb.Revolve(face_from(fr, p["face"]), fl(p["angle"]), fr.V(1, 0, 0), fr.P(0, 0, 0))
    elif kind == "Wedge":
        face = cb.Face([[fl(x), fl(y), 0.0] for x, y in p["face"]])
        s = place_element(fr, cb.Wedge(face, fl(p["angle"])) if "angle" in p else cb.Wedge(face))
        if p.get("reuse"):
            face.translate([3.0, 0.0, 0.0])  # a wedge is revolved from a copy of the face
    elif kind == "Shell":
        d = [fl(x) for x in p["d"]]
        box = place_element(fr, cb.Box([0, 0, 0], d))
        faces = [box.get_face(o) for o in ("bottom", "top", "left", "right", "front", "back")]
        for i in (0, 2, 4):
            faces[i].invert()
        s = cb.Shell(faces, fr.L(p["amount"]))
        b.entities = [box, s]
        b.shapes = [box, s]
        for i in (0, 1, 2):
            b.calls.append(lambda i=i: box.chop(i, **dict(kws[i])))
        b.calls.append(lambda: s.chop(**dict(kws[2])))
        return b
    elif kind in LOFTED:
        sk = make_sketch(fr, p)
        if kind == "ExtrudedShape":
            s = cb.ExtrudedShape(sk, fr.L(p["amount"])) if "amount" in p else cb.ExtrudedShape(sk, fr.s * fr.V(*[fl(x) for x in p["vec"]]))
        elif kind == "RevolvedShape":
            s = cb.RevolvedShape(sk, fl(p["angle"]), fr.V(1, 0, 0), fr.P(0, -fl(p["off"]), 0))
        else:
            nrm = fr.V(0, 0, 1)

            def moved(frac):
                t = [tr.Translation(nrm * fr.L(p["dz"]) * frac), tr.Rotation(nrm, fl(p["twist"]) * frac, fr.P(0, 0, 0) + nrm * fr.L(p["dz"]) * frac)]
                sc = 1 + (fl(p["scale"]) - 1) * frac
                if sc != 1:
                    t.append(tr.Scaling(sc))  # no origin: about the centre of the sketch
                return sk.copy().transform(t)

            mids = {0: None, 1: moved(0.5), 2: [moved(1 / 3), moved(2 / 3)]}[p["mid"]]
            s = cb.LoftedShape(sk, moved(1.0), mids)
    elif kind in STACKS:
        sk = make_sketch(fr, p)
        nrm = fr.V(0, 0, 1)
        k = p["k"]
        if kind == "ExtrudedStack":
            s = cb.ExtrudedStack(sk, fr.L(p["amount"]), k)
        elif kind == "RevolvedStack":
            s = cb.RevolvedStack(sk, fl(p["angle"]), fr.V(1, 0, 0), fr.P(0, -fl(p["off"]), 0), k)
        else:
            t2 = [tr.Translation(nrm * fr.L(p["dz"])), tr.Rotation(nrm, fl(p["twist"]), fr.P(0, 0, 0))]
            tm = [tr.Translation(nrm * fr.L(p["dz"]) / 2), tr.Rotation(nrm, fl(p["twist"]) / 2, fr.P(0, 0, 0))] if p["mid"] else None
            taper = fl(p.get("taper", "1"))
            if taper != 1:
                t2.append(tr.Scaling(taper))
                if tm is not None:
                    tm.append(tr.Scaling(math.sqrt(taper)))
            s = cb.TransformedStack(sk, t2, k, tm)
        b.entities = [s]
        b.shapes = [s]
        apply_post(case, s)
        if p["sketch"] == "Annulus":
            # no chop lists either: radial on one segment, tangential on every segment of the first tier
            b.calls.append(lambda: s.grid[0][0][0].chop(0, **dict(kws[0])))
            for i in range(p["n"]):
                b.calls.append(lambda i=i: s.grid[0][0][i].chop(1, **dict(kws[1])))
        elif p["sketch"] == "Grid":
            # a cartesian sketch has no chop lists: one operation per column / row, as in examples/stack/cube.py
            for ix in range(p["n"]):
                b.calls.append(lambda ix=ix: s.grid[0][0][ix].chop(0, **dict(kws[0])))
            for iy in range(p["m"]):
                b.calls.append(lambda iy=iy: s.grid[0][iy][0].chop(1, **dict(kws[1])))
        else:
            b.calls.append(lambda: s.shapes[0].chop(0, **dict(kws[0])))
            b.calls.append(lambda: s.shapes[0].chop(1, **dict(kws[1])))
        b.calls.append(lambda: s.chop(**dict(kws[2])))
        return b
    elif kind == "Chain":
        return build_chain(case, fr, kws)
    else:
        raise ValueError(kind)

    b.entities = [s]
    b.shapes = [s]
    extra = None
    if case.get("touch"):
        from classy_blocks.construct.shapes.shell import Shell

        tch = case["touch"]
        if tch["how"] == "shell":
            # a layer of blocks around the wall, offset from the outer faces of the shape (straight edges)
            extra = Shell([op.get_face("right") for op in s.shell], fr.L(tch["amount"]))
            extra_chop = lambda: extra.chop(**dict(kws[2]))  # noqa: E731
        else:
            # a plain block on top of the first shell block: same four points, no curved edges
            top = s.shell[0].top_face
            extra = cb.Extrude(cb.Face([q.position for q in top.points]), fr.L(tch["amount"]))
            extra_chop = lambda: extra.chop(2, **dict(kws[2]))  # noqa: E731
        b.entities = [extra, s] if tch["first"] else [s, extra]
        b.shapes = list(b.entities)
        apply_post(case, extra)
    apply_post(case, s)
    if extra is not None:
        b.calls.append(extra_chop)
    if kind in ROUND or kind in JOINTS:
        round_calls(s)
    elif kind in LOFTED:
        axis_calls(s)
    elif kind == "Wedge":
        for i in (0, 1):
            b.calls.append(lambda i=i: s.chop(i, **dict(kws[i])))
    else:
        for i in (0, 1, 2):
            b.calls.append(lambda i=i: s.chop(i, **dict(kws[i])))
    return b


def build_chain(case: dict, fr: Frame, kws) -> Built:
    import numpy as np

    import classy_blocks as cb

    p = case["p"]
    b = Built()
    base_case = {"kind": p["base"], "p": p["bp"], "q": case["q"], "t": case["t"], "s": case["s"], "chop": case["chop"], "kwscale": (case.get("post") or {}).get("scale", "1")}
    bb = build(base_case)
    shapes = [bb.shapes[0]]
    b.calls = list(bb.calls)
    for link in p["links"]:
        pre = link.get("pre")
        if pre:
            if pre.get("copy"):
                # the chops asked for so far are made now: the copies carry them
                for call in b.calls:
                    call()
                b.calls = []
                shapes = [s.copy() for s in shapes]
            for s in shapes:
                if "angle" in pre:
                    ax = np.array([float(a) for a in pre["axis"]])
                    s.rotate(fl(pre["angle"]), ax / np.linalg.norm(ax), [fl(x) for x in pre["origin"]])
                    s.translate([fl(x) for x in pre["shift"]])
                s.scale(fl(pre["scale"]), [fl(x) for x in pre["sorigin"]])
        src = shapes[link["src"]]
        op = link["op"]
        start = bool(link["start"])
        if op == "Cylinder.chain":
            s = cb.Cylinder.chain(src, fr.L(link["L"]), start)
            b.calls.append(lambda s=s: s.chop_axial(**dict(kws[0])))
        elif op == "Frustum.chain":
            s = cb.Frustum.chain(src, fr.L(link["L"]), fr.L(link["R2"]), start, fr.L(link["Rmid"]) if "Rmid" in link else None)
            b.calls.append(lambda s=s: s.chop_axial(**dict(kws[0])))
        elif op == "Elbow.chain":
            # the arc centre lies in the plane of the interface, the sweep leaves the source
            sk = src.sketch_1 if start else src.sketch_2
            c, n = np.asarray(sk.center), np.asarray(sk.normal)
            if start:
                n = -n
            u = np.asarray(sk.radius_point) - c
            u = u / np.linalg.norm(u)
            bend = fr.L(link["d"]) + max(sk.radius, fr.L(link["R2"]))  # bend radius: a margin above both tube radii
            s = cb.Elbow.chain(src, fl(link["sweep"]), c + u * bend, np.cross(n, u), fr.L(link["R2"]), start)
            b.calls.append(lambda s=s: s.chop_axial(**dict(kws[0])))
        elif op == "Hemisphere.chain":
            s = cb.Hemisphere.chain(src, start)
            b.calls.append(lambda s=s: s.chop_axial(**dict(kws[0])))
        elif op == "ExtrudedRing.chain":
            s = cb.ExtrudedRing.chain(src, fr.L(link["L"]), start)
            b.calls.append(lambda s=s: s.chop_axial(**dict(kws[0])))
        elif op == "ExtrudedRing.expand":
            s = cb.ExtrudedRing.expand(src, fr.L(link["T"]))
            b.calls.append(lambda s=s: s.chop_radial(**dict(kws[1])))
        elif op == "ExtrudedRing.contract":
            # the inner radius as the geometry has it now (not what the sketch remembers)
            rin = float(np.linalg.norm(np.asarray(src.sketch_1.inner_radius_point) - np.asarray(src.sketch_1.center)))
            s = cb.ExtrudedRing.contract(src, rin * fl(link["f"]))
            b.calls.append(lambda s=s: s.chop_radial(**dict(kws[1])))
        elif op == "Cylinder.fill":
            s = cb.Cylinder.fill(src)
            b.calls.append(lambda s=s: s.chop_radial(**dict(kws[1])))
        else:
            raise ValueError(op)
        shapes.append(s)
    b.entities = shapes
    b.shapes = shapes
    for s in shapes:
        apply_post(case, s)
    return b


def chain_valid(case: dict) -> bool:
    """structural validity of a generated chain (the generator only produces valid ones; used when shrinking)"""
    return True


# ----------------------------------------------------------------------------- the check
def _rat3(v) -> List[str]:
    return [core.rat(float(c)) for c in v]


def _mesh_families(blocks: List[List[int]]) -> List[int]:
    """label (smallest node) of the wire family of every node 3*b+a (union-find over shared vertex pairs)"""
    n = 3 * len(blocks)
    parent = list(range(n))

    def find(x):
        while parent[x] != x:
            parent[x] = parent[parent[x]]
            x = parent[x]
        return x

    owner: Dict[Tuple[int, int], int] = {}
    for bi, b in enumerate(blocks):
        for a in range(3):
            for c1, c2 in BM_AXIS_EDGES[a]:
                u, v = b[c1], b[c2]
                if u == v:
                    continue
                key = (min(u, v), max(u, v))
                node = 3 * bi + a
                if key in owner:
                    ra, rb = find(owner[key]), find(node)
                    if ra != rb:
                        parent[max(ra, rb)] = min(ra, rb)
                else:
                    owner[key] = node
    return [find(i) for i in range(n)]



# ----------------------------------------------------------------------------- point generators (round 6)
PTS_DISKS = ["OneCoreDisk", "QuarterDisk", "HalfDisk", "FourCoreDisk"]
PTS_WHAT = (
    [f"sketch:{c}" for c in PTS_DISKS] + ["wrapped", "oval", "cyl:FourCoreDisk", "cyl:HalfDisk", "frustum", "grid"]
    + [f"extr:{c}" for c in PTS_DISKS] + ["extr:WrappedDisk", "extr:Oval", "extr:Grid"]
)


def gen_pts(rng: random.Random, what: str) -> dict:
    """the point generators alone: one sketch / one lofted shape in a random placement, with the witnesses
    (unit normal, cos pi/4, norms) the model needs taken from the implementation's own float arithmetic"""
    c: Dict[str, Any] = {"kind": "Pts", "what": what}
    c.update(gen_frame(rng, rng.random() < 0.1))
    c["p"] = {
        "r": rq(rng, 0.3, 2), "phi": rq(rng, 0, 6.25, 8), "nlen": rng.choice(["1", "1", "1/4", "5/2", "7"]),
        "L": rq(rng, 0.2, 3), "r2": rq(rng, 0.2, 2), "rin": rng.choice(["1/4", "1/2", "3/4"]),
        "D": rq(rng, 0.3, 3), "n": rng.randint(1, 4), "m": rng.randint(1, 4),
        "g": [rq(rng, -2, 0), rq(rng, -2, 0), rq(rng, 0.25, 2), rq(rng, 0.25, 2)],
    }
    return c


def run_pts(case: dict) -> dict:
    import numpy as np

    import classy_blocks as cb
    from classy_blocks.construct.flat.sketches import disk as d
    from classy_blocks.util import functions as f

    fr, p, what = Frame(case), case["p"], case["what"]
    x, y = polar(p["r"], p["phi"])
    c, rp = fr.P(0, 0, 0), fr.P(x, y, 0)
    n = fr.V(0, 0, 1) * fl(p["nlen"])
    u = f.unit_vector(n)
    h = float(np.cos(np.pi / 4))
    out: Dict[str, Any] = {"what": what}
    r3 = lambda v: ",".join(core.rat(float(t)) for t in v)  # noqa: E731
    R = lambda t: core.rat(float(t))  # noqa: E731
    kind, _, cls = what.partition(":")
    quads, rim, normal = None, [], u
    try:
        if kind == "sketch":
            sk = getattr(d, cls)(c, rp, n)
            pts = sk.positions
            out["req"] = f"c11.pts {cls} {r3(c)} {r3(rp)} {r3(u)} {R(h)} {R(sk.core_ratio)} {R(sk.diagonal_ratio)}"
            quads = [list(map(int, q)) for q in sk.indexes]
            rim = [(fc.point_array[i], c, float(np.linalg.norm(rp - c))) for fc in sk.shell for i in (1, 2)]
        elif kind == "wrapped":
            radius = fl(p["r"]) * fl(p["rin"]) * fr.s
            sk = d.WrappedDisk(c, rp, radius, n)
            pts = sk.positions
            out["req"] = f"c11.wrapped {r3(c)} {r3(rp)} {r3(u)} {R(h)} {R(sk.diagonal_ratio)} {R(radius)} {R(f.norm(rp - c))}"
            quads = [list(map(int, q)) for q in sk.indexes]
            rim = [(fc.point_array[i], c, radius) for fc in sk.grid[1] for i in (1, 2)]
        elif kind == "oval":
            c2 = fr.P(-fl(p["D"]) * math.sin(fl(p["phi"])), fl(p["D"]) * math.cos(fl(p["phi"])), 0)
            radius = fl(p["r"]) * fr.s
            sk = d.Oval(c, c2, n, radius)
            pts = sk.positions
            out["req"] = f"c11.oval {r3(c)} {r3(c2)} {r3(u)} {R(h)} {R(sk.core_ratio)} {R(sk.diagonal_ratio)} {R(radius)} {R(f.norm(np.cross(u, c2 - c)))}"
            quads = [list(map(int, q)) for q in sk.indexes]
            rim = [(sk.faces[i].point_array[j], c, radius) for i in (6, 7, 8, 9) for j in (1, 2)]
            rim += [(sk.faces[i].point_array[j], c2, radius) for i in (11, 12, 13, 14) for j in (1, 2)]
        elif kind == "grid":
            g = [fl(t) for t in p["g"]]
            sk = cb.Grid([g[0], g[1], 0], [g[0] + g[2], g[1] + g[3], 0], p["n"], p["m"])
            pts = np.concatenate([fc.point_array for fc in sk.faces])
            out["req"] = f"c11.gridpts {R(g[0])} {R(g[1])} {R(g[0] + g[2])} {R(g[1] + g[3])} {p['n']} {p['m']}"
            quads = [[4 * i, 4 * i + 1, 4 * i + 2, 4 * i + 3] for i in range(p["n"] * p["m"])]
            normal = np.array([0.0, 0.0, 1.0])
        else:
            p2 = c + u * fl(p["L"]) * fr.s
            if kind == "cyl":
                sh = (cb.Cylinder if cls == "FourCoreDisk" else cb.SemiCylinder)(c, p2, rp)
                s1 = sh.sketch_1
                out["req"] = f"c11.cyl {cls} {r3(c)} {r3(p2)} {r3(rp)} {R(f.norm(p2 - c))} {R(h)} {R(s1.core_ratio)} {R(s1.diagonal_ratio)}"
            elif kind == "frustum":
                r2 = fl(p["r2"]) * fr.s
                sh = cb.Frustum(c, p2, rp, r2)
                s1 = sh.sketch_1
                out["req"] = f"c11.frustum {r3(c)} {r3(p2)} {r3(rp)} {R(f.norm(p2 - c))} {R(h)} {R(s1.core_ratio)} {R(s1.diagonal_ratio)} {R(r2)} {R(f.norm(rp - c))}"
            elif cls == "WrappedDisk":
                radius = fl(p["r"]) * fl(p["rin"]) * fr.s
                s1 = d.WrappedDisk(c, rp, radius, n)
                amount = fl(p["L"]) * fr.s
                sh = cb.ExtrudedShape(s1, amount)
                out["req"] = f"c11.extrw {r3(c)} {r3(rp)} {r3(u)} {R(h)} {R(s1.diagonal_ratio)} {R(radius)} {R(f.norm(rp - c))} {R(amount)}"
            elif cls == "Oval":
                c2 = fr.P(-fl(p["D"]) * math.sin(fl(p["phi"])), fl(p["D"]) * math.cos(fl(p["phi"])), 0)
                radius = fl(p["r"]) * fr.s
                s1 = d.Oval(c, c2, n, radius)
                amount = fl(p["L"]) * fr.s
                sh = cb.ExtrudedShape(s1, amount)
                out["req"] = f"c11.extro {r3(c)} {r3(c2)} {r3(u)} {R(h)} {R(s1.core_ratio)} {R(s1.diagonal_ratio)} {R(radius)} {R(f.norm(np.cross(u, c2 - c)))} {R(amount)}"
            elif cls == "Grid":
                g = [fl(t) for t in p["g"]]
                s1 = cb.Grid([g[0], g[1], 0], [g[0] + g[2], g[1] + g[3], 0], p["n"], p["m"])
                amount = fl(p["L"])
                sh = cb.ExtrudedShape(s1, amount)
                out["req"] = f"c11.extrg {R(g[0])} {R(g[1])} {R(g[0] + g[2])} {R(g[1] + g[3])} {p['n']} {p['m']} {R(amount)}"
            else:
                s1 = getattr(d, cls)(c, rp, n)
                amount = fl(p["L"]) * fr.s
                sh = cb.ExtrudedShape(s1, amount)
                out["req"] = f"c11.extr {cls} {r3(c)} {r3(rp)} {r3(u)} {R(h)} {R(s1.core_ratio)} {R(s1.diagonal_ratio)} {R(amount)}"
                # the same sketch revolved about an axis in its plane, beyond the rim, towards its normal (sweep < pi):
                # compared with the model of RevolvedShape (request c11.rev), same case, no new input
                ax = fr.V(1, 0, 0)
                org = fr.P(0, -(fl(p["r"]) + fl(p["D"])), 0)
                ang = min(max(fl(p["L"]), 0.2), 3.0)
                s2 = getattr(d, cls)(c, rp, n)
                rv = cb.RevolvedShape(s2, ang, ax, org)
                out["req2"] = (
                    f"c11.rev {cls} {r3(c)} {r3(rp)} {r3(u)} {R(h)} {R(s2.core_ratio)} {R(s2.diagonal_ratio)} "
                    f"{r3(f.unit_vector(ax))} {r3(org)} {R(math.cos(ang))} {R(math.sin(ang))}"
                )
                out["pts2"] = [_rat3(q) for q in np.concatenate([op.point_array for op in rv.operations])]
            pts = np.concatenate([op.point_array for op in sh.operations])
            out["hexes"] = len(sh.operations)
    except Exception as e:  # a valid placement must be accepted
        return {"build_error": type(e).__name__, "msg": str(e)[:300], "what": what}
    out["pts"] = [_rat3(q) for q in pts]
    out["quads"] = quads
    out["normal"] = _rat3(normal)
    out["rim"] = [[_rat3(a), _rat3(b), core.rat(float(r))] for a, b, r in rim]
    return out


def pts_oracle(case: dict, impl: dict) -> List[dict]:
    """the property on the generated points themselves, independent of the model: faces counter-clockwise about
    the normal with convex corners, rim points on their circle, no two generated points coincide (faces share
    exactly the generated points), blocks right-handed (exact)"""
    import numpy as np

    out: List[dict] = []
    what = impl.get("what", case["what"])

    def viol(site, msg, observed=None, expected=None):
        out.append({"site": f"Pts({what}):{site}", "what": msg, "observed": observed, "expected": expected})

    if "build_error" in impl:
        viol("cannot-be-built", f"a valid placement raises {impl['build_error']}: {impl.get('msg')}")
        return out
    pts = [[core.parse_rat(c) for c in v] for v in impl["pts"]]
    fp = np.array([[float(c) for c in v] for v in pts])
    size = float(np.max(np.linalg.norm(fp - fp.mean(axis=0), axis=1))) or 1.0
    if impl.get("hexes"):
        for bi in range(impl["hexes"]):
            bad = _bad_corners(pts[8 * bi : 8 * bi + 8])
            if bad:
                viol("left-handed-block", f"block {bi}: corner Jacobians not positive at corners {bad}", bad, [])
                break
        return out
    nrm = np.array([float(core.parse_rat(c)) for c in impl["normal"]])
    for qi, q in enumerate(impl["quads"]):
        P = fp[q]
        for i in range(4):
            a, b, e = P[i], P[(i + 1) % 4], P[(i + 3) % 4]
            val = float(np.dot(np.cross(b - a, e - a), nrm))
            if not val > 1e-9 * size * size:
                viol("face-not-ccw", f"face {qi} {q}: corner {i} is not convex / counter-clockwise about the normal", val, "> 0")
                return out
    for a, b, r in impl["rim"]:
        pa = np.array([float(core.parse_rat(c)) for c in a])
        pb = np.array([float(core.parse_rat(c)) for c in b])
        rr = float(core.parse_rat(r))
        if abs(float(np.linalg.norm(pa - pb)) - rr) > 1e-9 * size:
            viol("rim-off-circle", "an arc point is not on the intended circle", float(np.linalg.norm(pa - pb)), rr)
            return out
    if what != "grid":
        for i in range(len(fp)):
            dist = np.linalg.norm(fp[i + 1 :] - fp[i], axis=1) if i + 1 < len(fp) else np.array([1.0])
            if dist.size and float(dist.min()) < 1e-9 * size:
                viol("coincident-points", f"generated point {i} coincides with another one: faces would share more than the generated points", float(dist.min()), "> 0")
                return out
    return out


def pts_compare(case: dict, impl: dict, model: List[str]) -> Optional[str]:
    import numpy as np

    if "build_error" in impl:
        return None
    if "req2" in impl and len(model) > 1:
        why = pts_compare(case, {"what": impl["what"] + " revolved", "req": impl["req2"], "pts": impl["pts2"]}, model[1:])
        if why:
            return why
    ans = model[0]
    if ans == "bad-op":
        return f"the model rejects a valid request: {impl['req']}"
    got = np.array([[float(core.parse_rat(x)) for x in pt.split(",")] for pt in ans.split(" ")])
    want = np.array([[float(core.parse_rat(x)) for x in pt] for pt in impl["pts"]])
    if got.shape != want.shape:
        return f"{impl['what']}: implementation generates {len(want)} points, model {len(got)}"
    size = float(np.max(np.linalg.norm(want - want.mean(axis=0), axis=1))) or 1.0
    scale = max(size, float(np.max(np.abs(want))))
    err = np.abs(got - want).max(axis=1)
    i = int(np.argmax(err))
    if err[i] > 1e-9 * scale:
        return f"{impl['what']}: point {i}: implementation {want[i].tolist()}, model {got[i].tolist()}"
    return None


class C11(core.Check):
    pid = "C11"
    props_module = "CBV.Props.C11"
    workers = 8
    rule = (
        "one case = one predefined entity (Box, Extrude, Revolve, Wedge, Shell on a box; Cylinder, SemiCylinder, "
        "Frustum with/without mid radius, Elbow, ExtrudedRing, RevolvedRing, Hemisphere; L/T/N joints with 2..7 "
        "branches; Extruded/Revolved/LoftedShape on each of the 12 disk/oval/wrapped/spline sketches; Extruded/"
        "Revolved/TransformedStack on those sketches and on Grid(n,m) with 1..4 tiers) or a chain of 2..4 round shapes "
        "(chain / expand / contract / fill / hemisphere cap), or (kind Pts) one disk / wrapped / oval / grid sketch or one "
        "Cylinder / SemiCylinder / Frustum / ExtrudedShape whose generated points are compared with the Lean model of the "
        "point generators, placed by a random rational quaternion, offset and scale, "
        "with random radii, lengths, segment/branch counts, and the documented chop calls with random count / size / "
        "expansion arguments. Non-trivial = the entity was built and assembled; distinct = different class, "
        "parameters or placement."
    )
    assumptions = [
        "float64 coordinates are converted exactly to rationals; handedness is decided exactly on them, circle and "
        "plane membership with tolerance 1e-6 x size",
        "valid placement means: revolutions and sweeps move a sketch towards its normal (the generator guarantees it), "
        "cusp joints have a branch length of at least 3 radii",
        "the axis-level propagation model (axis defined iff chopped or sharing a wire with a defined axis) is tied to "
        "BlockList.propagate_gradings by comparing the predicted outcome and undefined-block list of every write",
        "a time-out of Mesh.write (40 s) is reported as exit 2, not as a violation of C11 (termination is C02)",
        "chop arguments that the grading arithmetic itself rejects on some edge (ArithmeticError/ValueError raised in "
        "classy_blocks/grading: cell larger than the edge, one cell with two prescribed sizes) are counted as "
        "`chop-arithmetic` in the input distribution, not as violations (C03/C20); the generator keeps them rare",
    ]
    partial_note = (
        "Topology (choppability, single chop per wire family, conformity, orientation of the quad maps, ring/stack/"
        "grid families for every size) is proved in Lean on tables regenerated from the source; handedness, shared "
        "faces in space, on-circle and the interface of chained shapes are checked by exact/tolerance validators on "
        "the implementation's output for the generated placements only. Round 6: the point generators of OneCoreDisk, "
        "QuarterDisk, HalfDisk, FourCoreDisk and of ExtrudedShape / Cylinder / SemiCylinder / Frustum over them are an "
        "executable model (compared point by point) with theorems for all placements over every ordered field (faces "
        "counter-clockwise, blocks right-handed, rim on the circle; over R with the source's constants); round 6c: the "
        "same for WrappedDisk, Oval and Grid (faces counter-clockwise, ExtrudedShape right-handed); round 6d: RevolvedShape "
        "of any mapped sketch in a half-plane through the axis is right-handed for every sweep below pi (general theorem, "
        "instantiated to the four fan disk classes, WrappedDisk and Oval for every axis in the sketch plane outside the "
        "sketch's bounding circle); Elbow, Hemisphere, rings beyond one segment, "
        "spline sketches, the cusp shear of the joints and the distinctness of the generated points stay validator-only; "
        "joints: a uniform hand model for every branch count, equal to the probes for 2..6 (decide), compared with the "
        "implementation for every generated count (2..7 quick, 8, 9 thorough), choppable for 2..12 by evaluation; no "
        "induction over the branch count."
    )

    # ------------------------------------------------------------------ generators
    def gen_cases(self, rng: random.Random, tier: str) -> List[dict]:
        kinds = ROUND + JOINTS + OPS + LOFTED + STACKS + ["Chain"]
        cases: List[dict] = []
        if tier == "quick":
            plan = {k: 4 for k in kinds}
            plan.update(ExtrudedShape=4, RevolvedShape=6, LoftedShape=6, ExtrudedStack=6, TransformedStack=6, RevolvedStack=5, Chain=9, NJoint=1, ExtrudedRing=6, RevolvedRing=5)
        else:
            plan = {k: 40 for k in kinds}
            plan.update(ExtrudedShape=150, RevolvedShape=80, LoftedShape=80, ExtrudedStack=80, TransformedStack=60, RevolvedStack=50, Chain=300, NJoint=60)
        for k in kinds:
            for _ in range(plan[k]):
                cases.append(gen_case(rng, k))
        # systematic part (every run): every sketch class extruded, every branch count, every chaining
        # constructor from either face of a cylinder resp. of a ring
        reps = 1 if tier == "quick" else 2
        for _ in range(reps):
            for sk in SKETCHES:
                c = gen_case(rng, "ExtrudedShape")
                keep = {x: c["p"][x] for x in c["p"] if x in ("amount", "vec")}
                # the spline family as rounded squares (equal non-zero sides: arcs would leave the outline)
                c["p"] = gen_sketch(rng, sk, square=True)
                c["p"].update(keep)
                cases.append(c)
            # revolved shapes turned and moved after creation
            for sk in rng.sample(SKETCHES, 3):
                c = gen_case(rng, "RevolvedShape")
                keep = {x: c["p"][x] for x in c["p"] if x in ("angle", "off")}
                c["p"] = gen_sketch(rng, sk)
                c["p"].update(keep)
                c["post"] = gen_post(rng)
                cases.append(c)
            # spheres after a change of units (scaled as a whole), alone and as the cap of a cylinder
            c = gen_case(rng, "Hemisphere")
            c["post"] = gen_post(rng)
            c["post"].update(scale=rng.choice(["1/4", "1/2", "2", "3"]), sorigin=[rq(rng, -2, 2, 4) for _ in range(3)])
            cases.append(c)
            c = gen_case(rng, "Chain")
            c["p"] = {"base": "Cylinder", "bp": gen_round(rng, "Cylinder"), "links": [{"op": "Hemisphere.chain", "src": 0, "start": rng.randint(0, 1)}]}
            c["post"] = gen_post(rng)
            c["post"].update(scale=rng.choice(["1/4", "1/2", "2", "3"]), sorigin=[rq(rng, -2, 2, 4) for _ in range(3)])
            cases.append(c)
            # rings and wedges whose cross-section face is moved on by the user after the shape was built
            for kind in ("RevolvedRing", "Wedge"):
                c = gen_case(rng, kind)
                c["p"]["reuse"] = 1
                cases.append(c)
            # far from the origin with a thin feature: the blocking does not depend on where the shape stands
            for kind in ("ExtrudedRing", "Cylinder", "Box"):
                cases.append(gen_case(rng, kind, far=True))
            c = gen_case(rng, "Chain", far=True)
            c["p"] = {"base": "Cylinder", "bp": gen_round(rng, "Cylinder"), "links": [{"op": "ExtrudedRing.expand", "src": 0, "start": 0, "T": THIN}]}
            c.pop("post", None)
            cases.append(c)
            # a plain neighbour with straight edges on the curved outer edges, added to the mesh first
            for kind, how in (("Cylinder", "shell"), ("Frustum", "top"), ("ExtrudedRing", "shell"), ("SemiCylinder", "top")):
                c = gen_case(rng, kind, far=False)
                c["touch"] = {"how": how, "first": 1, "amount": rq(rng, 0.1, 0.5)}
                cases.append(c)
            # a hemisphere whose normal is not a unit vector
            c = gen_case(rng, "Hemisphere", far=False)
            c["p"]["nlen"] = rng.choice(["1/4", "5/2", "7"])
            cases.append(c)
            # tapered stacks of sketches whose centre is not a point of their first face
            for sk in ("Oval", "Grid", "Annulus", "HalfDisk"):
                c = gen_case(rng, "TransformedStack")
                keep = {x: c["p"][x] for x in c["p"] if x in ("dz", "twist", "mid")}
                c["p"] = gen_stack_sketch(rng, sk)
                c["p"].update(keep)
                c["p"].update(k=rng.randint(2, 3), taper=rng.choice(["4/5", "9/10", "11/10"]))
                cases.append(c)
            for k in (2, 3, 4, 5, 6, 7):
                c = gen_case(rng, "NJoint")
                c["p"]["k"] = k
                cases.append(c)
            nsys = 0
            for base, op, start in [
                ("Cylinder", "Cylinder.chain", 0), ("Cylinder", "Cylinder.chain", 1), ("Cylinder", "Frustum.chain", 0),
                ("Cylinder", "Frustum.chain", 1), ("Cylinder", "Elbow.chain", 0), ("Cylinder", "Elbow.chain", 1),
                ("Cylinder", "Hemisphere.chain", 0), ("Cylinder", "Hemisphere.chain", 1), ("Cylinder", "ExtrudedRing.expand", 0),
                ("Elbow", "Hemisphere.chain", 0), ("Elbow", "Hemisphere.chain", 1), ("Elbow", "Cylinder.chain", 1),
                ("Frustum", "Hemisphere.chain", 0),
                ("ExtrudedRing", "ExtrudedRing.chain", 0), ("ExtrudedRing", "ExtrudedRing.chain", 1),
                ("ExtrudedRing", "ExtrudedRing.expand", 0), ("ExtrudedRing", "ExtrudedRing.contract", 0),
                ("ExtrudedRing", "Cylinder.fill", 0),
            ]:  # fmt: skip
                c = gen_case(rng, "Chain")
                bp = gen_round(rng, base)
                if op == "Cylinder.fill":
                    bp["n"] = 8
                link: Dict[str, Any] = {"op": op, "src": 0, "start": start}
                if op in ("Cylinder.chain", "ExtrudedRing.chain"):
                    link["L"] = rq(rng, 0.4, 2)
                elif op == "Frustum.chain":
                    link.update(L=rq(rng, 0.4, 2), R2=rq(rng, 0.3, 1.5))
                elif op == "Elbow.chain":
                    link.update(sweep=rq(rng, 0.25, 1.4), d=rq(rng, 0.6, 2.5), R2=rq(rng, 0.3, 1.2))
                elif op == "ExtrudedRing.expand":
                    link.update(T=rq(rng, 0.2, 1))
                elif op == "ExtrudedRing.contract":
                    link.update(f=rng.choice(["1/4", "1/2", "3/4"]))
                # every chaining constructor is used on a source that was brought to size with scale() after its
                # creation, alternately on the shape itself and on a copy of it (every third one as it was created)
                nsys += 1
                if nsys % 3:
                    link["pre"] = gen_pre(rng, copy=nsys % 2, rigid=bool(nsys % 4 == 1))
                c["p"] = {"base": base, "bp": bp, "links": [link]}
                cases.append(c)
            # both faces of the source occupied: every constructor that can start from the start face is used there
            # (start_face passed positionally, as the documented signatures allow) while another shape sits on the end
            # face - a shape that lands on the wrong face meets the other one (a face owned by three blocks)
            for base, op, other in [
                ("Cylinder", "Cylinder.chain", "Cylinder.chain"), ("Cylinder", "Frustum.chain", "Cylinder.chain"),
                ("Cylinder", "Elbow.chain", "Frustum.chain"), ("Cylinder", "Hemisphere.chain", "Cylinder.chain"),
                ("ExtrudedRing", "ExtrudedRing.chain", "ExtrudedRing.chain"),
            ]:  # fmt: skip
                c = gen_case(rng, "Chain", far=False)
                c.pop("post", None)
                links = []
                for o_, start in ((op, 1), (other, 0)):
                    link = {"op": o_, "src": 0, "start": start}
                    if o_ in ("Cylinder.chain", "ExtrudedRing.chain"):
                        link["L"] = rq(rng, 0.4, 2)
                    elif o_ == "Frustum.chain":
                        link.update(L=rq(rng, 0.4, 2), R2=rq(rng, 0.3, 1.5))
                    elif o_ == "Elbow.chain":
                        link.update(sweep=rq(rng, 0.25, 1.4), d=rq(rng, 0.6, 2.5), R2=rq(rng, 0.3, 1.2))
                    links.append(link)
                c["p"] = {"base": base, "bp": gen_round(rng, base), "links": links}
                cases.append(c)
        if tier == "thorough":
            # joints beyond the probe tables and beyond the quick tier: 8 and 9 branches against the uniform joint model
            for k in (8, 9, 8, 9):
                c = gen_case(rng, "NJoint")
                c["p"]["k"] = k
                cases.append(c)
            # every sketch class in every lofted / stacked form at least twice
            for sk in SKETCHES:
                for k in LOFTED + STACKS:
                    for _ in range(2):
                        c = gen_case(rng, k)
                        keep = {x: c["p"][x] for x in c["p"] if x in ("amount", "vec", "angle", "off", "dz", "twist", "scale", "mid", "k")}
                        c["p"] = gen_sketch(rng, sk)
                        c["p"].update(keep)
                        cases.append(c)
        # the point generators alone (model of disk.py / grid.py / cylinder.py / frustum.py / ExtrudedShape)
        for _ in range(2 if tier == "quick" else 8):
            for what in PTS_WHAT:
                cases.append(gen_pts(rng, what))
        # malformed / boundary stream for the model's request parser
        cases.append({"kind": "malformed"})
        rng.shuffle(cases)
        return cases

    # ------------------------------------------------------------------ implementation
    def run_impl(self, case: dict) -> Any:
        if case["kind"] == "malformed":
            return {"malformed": True}
        if case["kind"] == "Pts":
            return run_pts(case)
        import numpy as np

        import classy_blocks as cb

        try:
            b = build(case)
        except Exception as e:
            return {"build_error": type(e).__name__, "msg": str(e)[:300]}
        for call in b.calls:
            call()
        mesh = cb.Mesh()
        for e in b.entities:
            mesh.add(e)
        out: Dict[str, Any] = {}
        try:
            mesh.assemble()
        except Exception as e:
            return {"assemble_error": type(e).__name__, "msg": str(e)[:300]}
        blocks = [[v.index for v in blk.vertices] for blk in mesh.block_list.blocks]
        out["blocks"] = blocks
        out["verts"] = [_rat3(v.position) for v in mesh.vertex_list.vertices]
        ops = mesh.operations
        out["chopped"] = sorted(3 * i + a for i, op in enumerate(ops) for a in range(3) if len(op.chops[a]) > 0)
        # which blocks belong to which shape of the case
        part, pos = [], 0
        for s in b.shapes:
            n = 1 if isinstance(s, cb.Operation) else len(s.operations)
            part.append([pos, pos + n])
            pos += n
        out["parts"] = part
        arcs = []
        for e in mesh.edge_list.edges:
            if e.kind in ("arc", "origin", "angle"):
                org = _rat3(e.data.origin.position) if e.kind == "origin" else None
                arcs.append([e.vertex_1.index, e.vertex_2.index, e.kind, _rat3(e.third_point.position), org])
        out["arcs"] = arcs
        out["edge_kinds"] = sorted({e.kind for e in mesh.edge_list.edges})
        if case["kind"] == "Box":
            # the corners Box.__init__ computes from the two given points, before the box is placed
            pp = case["p"]
            a0 = [fl(x) for x in pp["a"]]
            d0 = [a0[i] + pp["sg"][i] * fl(pp["d"][i]) for i in range(3)]
            out["box_local"] = [_rat3(q) for q in cb.Box(a0, d0).point_array]
        # faces projected to a declared geometry, and what the geometry section declares
        out["projected"] = [[fc.label, [v.index for v in fc.side.vertices]] for fc in mesh.face_list.faces]
        out["geometry"] = {str(k): [str(x) for x in v] for k, v in mesh.geometry_list.geometry.items()}
        if case["kind"] in JOINTS:
            # the curved (spline) edges as every operation describes them: block, corners, points
            spl = []
            for bi, op in enumerate(ops):
                for c1, c2, data in op.edges.get_all_beams():
                    if data.kind == "spline":
                        spl.append([bi, c1, c2, [_rat3(q) for q in np.asarray(data.curve.array.points)]])
            out["splines"] = spl
        os.makedirs(SCRATCH, exist_ok=True)
        path = os.path.join(SCRATCH, f"bmd-{os.getpid()}")
        old = signal.signal(signal.SIGALRM, _alarm)
        signal.setitimer(signal.ITIMER_REAL, WRITE_TIMEOUT)
        try:
            mesh.write(path)
            out["write"] = "ok"
            out["counts"] = [[ax.count for ax in blk.axes] for blk in mesh.block_list.blocks]
        except WriteTimeout:
            out["write"] = "timeout"
        except Exception as e:
            out["write"] = type(e).__name__
            out["msg"] = str(e)[:2000]
            import traceback as _tb

            frames = [f.filename for f in _tb.extract_tb(e.__traceback__)]
            if frames and "/grading/" in frames[-1] and isinstance(e, (ArithmeticError, ValueError)):
                # the chop arguments cannot be met on some edge (cell larger than the edge, count 1 with two
                # sizes, ...): raised by grading/relations.py or grading/chop.py, the business of C03/C20
                out["write"] = "chop-arithmetic"
            if type(e).__name__ == "UndefinedGradingsError":
                und = []
                for line in str(e).splitlines()[1:]:
                    if ":" in line:
                        und.append(int(line.split(":")[0]))
                out["undefined"] = sorted(und)
        finally:
            signal.setitimer(signal.ITIMER_REAL, 0)
            signal.signal(signal.SIGALRM, old)
            try:
                os.remove(path)
            except OSError:
                pass
        return out

    # ------------------------------------------------------------------ model
    @staticmethod
    def _table_name(case: dict) -> Optional[str]:
        """name of the probe entry of CBV.Gen.c11Shapes that has the same topology, if there is one"""
        k, p = case["kind"], case.get("p", {})
        if case.get("touch"):
            return None  # another entity in the mesh: other vertex numbers
        if k in ("Cylinder", "SemiCylinder", "Frustum", "Elbow", "Hemisphere", "LJoint", "TJoint"):
            return k
        if k in ("ExtrudedRing", "RevolvedRing") and p["n"] in TABLE_RINGS:
            return f"{k}{p['n']}"
        if k == "NJoint" and p["k"] in TABLE_JOINTS:
            return f"NJoint{p['k']}"
        return None

    def requests(self, case: dict, impl: Any) -> List[str]:
        if case["kind"] == "malformed":
            return [
                "c11.write [0,1,2] [0]",
                "c11.write [0,1,2,3,4,5,6,7] [3]",
                "c11.loft NoSuchSketch 1",
                "c11.loft FourCoreDisk 0",
                "c11.ring 2 1",
                "c11.grid 0 1 1",
                "c11.rh 0/1,0/1,0/1",
                "c11.shape Nothing",
                "c11.nothing",
                "c11.pts NoDisk 0/1,0/1,0/1 1/1,0/1,0/1 0/1,0/1,1/1 7/10 4/5 9/10",
                "c11.pts FourCoreDisk 0/1,0/1,0/1 1/1,0/1,0/1 0/1,0/1,2/1 7/10 4/5 9/10",
                "c11.cyl FourCoreDisk 0/1,0/1,0/1 0/1,0/1,1/1 1/1,0/1,0/1 0/1 7/10 4/5 9/10",
                "c11.gridpts 0/1 0/1 1/1 1/1 0 2",
                "c11.joint 1",
                "c11.rev FourCoreDisk 0/1,0/1,0/1 1/1,0/1,0/1 0/1,0/1,1/1 7/10 4/5 9/10 2/1,0/1,0/1 0/1,-3/1,0/1 3/5 4/5",
                "c11.extrg 0/1 0/1 1/1 1/1 0 2 1/1",
                "c11.extrw 0/1,0/1,0/1 1/1,0/1,0/1 0/1,0/1,1/1 7/10 9/10 1/2 0/1 1/1",
            ]
        if case["kind"] == "Pts":
            return ([impl["req"]] if "req" in impl else []) + ([impl["req2"]] if "req2" in impl else [])
        if "blocks" not in impl:
            return []
        flat = "[" + ",".join(str(v) for b in impl["blocks"] for v in b) + "]"
        reqs = [f"c11.write {flat} [" + ",".join(map(str, impl["chopped"])) + "]", f"c11.fam {flat}"]
        k, p = case["kind"], case["p"]
        if k in LOFTED:
            reqs.append(f"c11.loft {p['sketch']} 1")
        elif k in STACKS:
            if p["sketch"] == "Grid":
                reqs.append(f"c11.grid {p['n']} {p['m']} {p['k']}")
            elif p["sketch"] == "Annulus":
                reqs.append(f"c11.ring {p['n']} {p['k']}")
            else:
                reqs.append(f"c11.loft {p['sketch']} {p['k']}")
        elif k == "ExtrudedRing" and not case.get("touch"):
            reqs.append(f"c11.ring {p['n']} 1")
        elif k == "NJoint":
            reqs.append(f"c11.joint {p['k']}")
        name = self._table_name(case)
        if name:
            reqs.append(f"c11.shape {name}")
        if "box_local" in impl:
            a0 = [Fraction(x) for x in p["a"]]
            d0 = [a0[i] + p["sg"][i] * Fraction(p["d"][i]) for i in range(3)]
            reqs.append("c11.box " + ",".join(core.rat(x) for x in a0) + " " + ",".join(core.rat(x) for x in d0))
        for b in impl["blocks"]:
            reqs.append("c11.rh " + " ".join(",".join(impl["verts"][v]) for v in b))
        return reqs

    def compare(self, case: dict, impl: Any, model: List[str]) -> Optional[str]:
        if case["kind"] == "malformed":
            bad = [a for a in model if a != "bad-op"]
            return f"malformed requests answered: {bad}" if bad else None
        if case["kind"] == "Pts":
            return pts_compare(case, impl, model)
        it = iter(model)
        ans = next(it)
        flat = [v for b in impl["blocks"] for v in b]
        if impl["write"] == "ok":
            if ans != "ok":
                return f"write succeeded, model predicts `{ans}`"
        elif impl["write"] == "UndefinedGradingsError":
            want = "undefined [" + ",".join(map(str, impl["undefined"])) + "]"
            if ans != want:
                return f"write raised UndefinedGradingsError for blocks {impl['undefined']}, model predicts `{ans}`"
        elif impl["write"] not in ("timeout", "chop-arithmetic") and ans != "ok":
            return f"write raised {impl['write']}, model predicts `{ans}`"
        fam = next(it)
        want = "[" + ",".join(map(str, _mesh_families(impl["blocks"]))) + "]"
        if fam != want:
            return f"wire families: harness {want}, model {fam}"
        k, p = case["kind"], case["p"]
        if k in LOFTED or k in STACKS or (k == "ExtrudedRing" and not case.get("touch")):
            a = next(it).split(" ")
            if a[0] != "[" + ",".join(map(str, flat)) + "]":
                return f"blocking of {k}({p.get('sketch', '')}): implementation {impl['blocks']}, model {a[0]}"
            if len(a) > 1 and p.get("sketch") not in ("Grid", "Annulus"):
                if sorted(json.loads(a[1])) != impl["chopped"]:
                    return f"chopped axes of {k}({p.get('sketch', '')}): implementation {impl['chopped']}, model {a[1]}"
        if k == "NJoint":
            # the uniform hand model of a joint with any number of branches
            a = next(it).split(" ")
            if a[0] != "[" + ",".join(map(str, flat)) + "]":
                return f"blocking of NJoint({p['k']}): implementation {impl['blocks']}, joint model {a[0]}"
            if sorted(json.loads(a[1])) != impl["chopped"]:
                return f"chop dispatch of NJoint({p['k']}): implementation {impl['chopped']}, joint model {a[1]}"
        if self._table_name(case):
            a = next(it).split(" ")
            if a[0] != "[" + ",".join(map(str, flat)) + "]":
                return f"blocking of {k} differs from the probe table {self._table_name(case)}: {impl['blocks']} vs {a[0]}"
            if sorted(json.loads(a[1])) != impl["chopped"]:
                return f"chop dispatch of {k}: implementation {impl['chopped']}, probe table {a[1]}"
        if "box_local" in impl:
            got = [[core.parse_rat(c) for c in pt.split(",")] for pt in next(it).split(" ")]
            want = [[core.parse_rat(c) for c in pt] for pt in impl["box_local"]]
            if len(got) != 8 or any(abs(float(g - w)) > 1e-12 for gp, wp in zip(got, want) for g, w in zip(gp, wp)):
                return f"corners of Box({p['a']}, ...): implementation {impl['box_local']}, model {got}"
        for bi, b in enumerate(impl["blocks"]):
            a = next(it)
            bad = _bad_corners([[core.parse_rat(c) for c in impl["verts"][v]] for v in b])
            want = "ok" if not bad else "fail [" + ",".join(map(str, bad)) + "]"
            if a != want:
                return f"handedness validator on block {bi}: harness {want}, model {a}"
        return None

    # ------------------------------------------------------------------ oracle
    def oracle(self, case: dict, impl: Any) -> List[dict]:
        if case["kind"] == "malformed":
            return []
        if case["kind"] == "Pts":
            return pts_oracle(case, impl)
        return oracle(case, impl)

    def nontrivial_key(self, case, impl):
        if case["kind"] == "Pts":
            return json.dumps(case, sort_keys=True) if "pts" in impl else None
        if case["kind"] == "malformed" or "blocks" not in impl:
            return None
        return json.dumps(case, sort_keys=True)

    def classify(self, case, impl):
        k = case["kind"]
        if k == "malformed":
            return "malformed"
        if k == "Pts":
            return "Pts:" + case["what"] + ("" if "pts" in impl else ":not-built")
        tag = k
        if k in LOFTED or k in STACKS:
            tag += ":" + case["p"]["sketch"]
        if k == "Chain":
            tag += ":" + "+".join(l["op"] + ("~" if l.get("pre") else "") + ("c" if (l.get("pre") or {}).get("copy") else "") for l in case["p"]["links"])
        for key, mark in (("far", "far"), ("post", "post"), ("touch", "touch")):
            if case.get(key):
                tag += "+" + mark
        if (case.get("post") or {}).get("scale"):
            tag += "+scale"
        for key in ("reuse", "nlen", "taper"):
            if case.get("p", {}).get(key) not in (None, 0, "1"):
                tag += "+" + key
        if "blocks" not in impl:
            return tag + ":not-built"
        if impl["write"] == "timeout":
            # a hang of the propagation loop is C02's business: machinery time-out (exit 2), never a VIOLATION of C11
            raise TimeoutError(f"Mesh.write did not return within {WRITE_TIMEOUT} s for {json.dumps(case)}")
        return tag + ("" if impl["write"] == "ok" else ":" + impl["write"])


# ----------------------------------------------------------------------------- oracle implementation
def _sub(a, b):
    return [a[0] - b[0], a[1] - b[1], a[2] - b[2]]


def _triple(a, b, c):
    return (a[1] * b[2] - a[2] * b[1]) * c[0] + (a[2] * b[0] - a[0] * b[2]) * c[1] + (a[0] * b[1] - a[1] * b[0]) * c[2]


def _bad_corners(pts) -> List[int]:
    bad = []
    for c in range(8):
        x, y, z = BM_NBRS[c]
        if not _triple(_sub(pts[x], pts[c]), _sub(pts[y], pts[c]), _sub(pts[z], pts[c])) > 0:
            bad.append(c)
    return bad


def site_class(case: dict) -> str:
    k = case["kind"]
    if k in LOFTED or k in STACKS:
        return f"{k}({case['p']['sketch']})"
    return k


def expected_counts(case: dict) -> Optional[Tuple[int, int]]:
    """(blocks, vertices) expected from the documented blocking of each class; None where not tabulated"""
    base = expected_counts_alone(case)
    tch = case.get("touch")
    if base and tch:
        nshell = {"Cylinder": 8, "Frustum": 8, "SemiCylinder": 4}.get(case["kind"]) or case["p"]["n"]
        nrim = {"Cylinder": 8, "Frustum": 8, "SemiCylinder": 5}.get(case["kind"]) or case["p"]["n"]
        return (base[0] + nshell, base[1] + 2 * nrim) if tch["how"] == "shell" else (base[0] + 1, base[1] + 4)
    return base


def expected_counts_alone(case: dict) -> Optional[Tuple[int, int]]:
    k, p = case["kind"], case["p"]
    if k in ("Cylinder", "Frustum", "Elbow"):
        return 12, 34
    if k == "SemiCylinder":
        return 6, 22
    if k in ("ExtrudedRing", "RevolvedRing"):
        return p["n"], 4 * p["n"]
    if k == "Hemisphere":
        return 16, 35
    if k in JOINTS:
        n = {"LJoint": 2, "TJoint": 3}.get(k) or p["k"]
        return 12 * n, 23 * n + 5
    if k in ("Box", "Extrude", "Revolve", "Wedge"):
        return 1, 8
    if k == "Shell":
        return 7, 16
    if k in LOFTED:
        return SKETCH_FACES[p["sketch"]], 2 * SKETCH_POINTS[p["sketch"]]
    if k in STACKS:
        if p["sketch"] == "Grid":
            return p["n"] * p["m"] * p["k"], (p["n"] + 1) * (p["m"] + 1) * (p["k"] + 1)
        if p["sketch"] == "Annulus":
            return p["n"] * p["k"], 2 * p["n"] * (p["k"] + 1)
        return SKETCH_FACES[p["sketch"]] * p["k"], SKETCH_POINTS[p["sketch"]] * (p["k"] + 1)
    return None


def circles(case: dict) -> List[dict]:
    """the intended circles of the round single-shape cases: centre, unit normal, radius, #rim vertices, #arcs"""
    import numpy as np

    k, p = case["kind"], case["p"]
    fr = Frame(case)
    out = []
    nz = fr.V(0, 0, 1)

    pmap, vmap = post_maps(case)

    def add(c, n, r, nv, na):
        out.append({"c": pmap(c), "n": vmap(n), "r": float(r) * post_scale(case), "nv": nv, "na": na})

    if k in ("Cylinder", "SemiCylinder", "Frustum"):
        nv, na = (5, 4) if k == "SemiCylinder" else (8, 8)
        add(fr.P(0, 0, 0), nz, fr.L(p["R"]), nv, na)
        add(fr.P(0, 0, fl(p["L"])), nz, fr.L(p.get("R2", p["R"])), nv, na)
    elif k == "Elbow":
        add(fr.P(0, 0, 0), nz, fr.L(p["R"]), 8, 8)
        a, d = fl(p["sweep"]), fl(p["D"])
        # rotation by `a` about the local y axis through (D, 0, 0)
        add(fr.P(d - d * math.cos(a), 0, d * math.sin(a)), fr.V(math.sin(a), 0, math.cos(a)), fr.L(p["R2"]), 8, 8)
    elif k == "ExtrudedRing":
        for z in (0.0, fl(p["L"])):
            add(fr.P(0, 0, z), nz, fr.L(p["R"]), p["n"], p["n"])
            add(fr.P(0, 0, z), nz, fr.L(p["r"]), p["n"], p["n"])
    elif k == "RevolvedRing":
        for x, y in p["face"]:
            add(fr.P(fl(x), 0, 0), fr.V(1, 0, 0), fr.L(y), p["n"], p["n"])
    elif k == "Revolve":
        for x, y in p["face"]:
            add(fr.P(fl(x), 0, 0), fr.V(1, 0, 0), fr.L(y), 2, 1)
    elif k == "Hemisphere":
        # the equator: its edges are projected to the sphere, not arcs
        add(fr.P(0, 0, 0), nz, fr.L(p["R"]), 8, 0)
    elif k in JOINTS:
        n = {"LJoint": 2, "TJoint": 3}.get(k) or p["k"]
        angles = {"LJoint": [0, math.pi / 2], "TJoint": [0, math.pi / 2, 3 * math.pi / 2]}.get(k) or [2 * math.pi * i / n for i in range(n)]
        L, R = fl(p["L"]), fl(p["R"])
        cs, sn = math.cos(fl(p["phi"])), math.sin(fl(p["phi"]))
        for a in angles:
            # rotation of the local frame by `a` about the radius direction (cs, 0, sn) through the origin
            import numpy as np

            ax = np.array([cs, 0.0, sn])
            v = np.array([0.0, -L, 0.0])
            vr = v * math.cos(a) + np.cross(ax, v) * math.sin(a) + ax * np.dot(ax, v) * (1 - math.cos(a))
            add(fr.P(*vr), fr.V(*(vr / L)), fr.L(R), 8, 8)
    elif k in LOFTED and k == "ExtrudedShape" or k == "ExtrudedStack":
        sk = p["sketch"]
        if "amount" in p:
            tiers = p.get("k", 1)
            dz = fl(p["amount"]) / tiers
            shifts = [[0, 0, i * dz] for i in range(tiers + 1)]
        else:
            shifts = [[0, 0, 0], [fl(x) for x in p["vec"]]]
        for sh in shifts:
            o = fr.P(*sh)
            if sk in ("OneCoreDisk", "QuarterDisk", "HalfDisk", "FourCoreDisk"):
                nv, na = {"OneCoreDisk": (4, 4), "QuarterDisk": (3, 2), "HalfDisk": (5, 4), "FourCoreDisk": (8, 8)}[sk]
                add(o, nz, fr.L(p["R"]), nv, na)
            elif sk == "WrappedDisk":
                add(o, nz, fr.L(fl(p["f"]) * fl(p["D"]) / math.sqrt(2)), 4, 4)
            elif sk == "Oval":
                x, y = polar(p["d"], p["phi"])
                add(o, nz, fr.L(p["R"]), 5, 4)
                add(fr.P(sh[0] + x, sh[1] + y, sh[2]), nz, fr.L(p["R"]), 5, 4)
    return out


def revolve_axis(case: dict):
    """(point on the axis, unit direction, number of side arcs) of the revolved kinds, in the world as placed"""
    import numpy as np

    k, p = case["kind"], case["p"]
    fr = Frame(case)
    pmap, vmap = post_maps(case)
    if k == "RevolvedShape":
        o, d, n = fr.P(0, -fl(p["off"]), 0), fr.V(1, 0, 0), SKETCH_POINTS[p["sketch"]]
    elif k == "Revolve":
        o, d, n = fr.P(0, 0, 0), fr.V(1, 0, 0), 4
    elif k == "RevolvedRing":
        o, d, n = fr.P(0, 0, 0), fr.V(1, 0, 0), 4 * p["n"]
    else:
        return None
    d = vmap(d)
    return pmap(o), d / np.linalg.norm(d), n


def oracle(case: dict, impl: dict) -> List[dict]:
    import numpy as np

    cls = site_class(case)
    out: List[dict] = []

    def viol(site, what, observed=None, expected=None):
        out.append({"site": site, "what": what, "observed": observed, "expected": expected})

    if "build_error" in impl or "assemble_error" in impl:
        viol(f"{cls}:cannot-be-built", f"a valid {cls} raises {impl.get('build_error') or impl.get('assemble_error')}: {impl.get('msg')}")
        return out
    blocks = impl["blocks"]
    pts = [[core.parse_rat(c) for c in v] for v in impl["verts"]]
    fpts = np.array([[float(c) for c in v] for v in pts])
    size = float(np.max(np.linalg.norm(fpts - fpts.mean(axis=0), axis=1))) or 1.0

    # the class of the shape a block belongs to (chains: the link that created it)
    def block_cls(bi: int) -> str:
        if case["kind"] != "Chain":
            return cls
        for i, (a, b) in enumerate(impl["parts"]):
            if a <= bi < b:
                return case["p"]["base"] if i == 0 else case["p"]["links"][i - 1]["op"]
        return cls

    # 1. handedness (exact)
    for bi, b in enumerate(blocks):
        bad = _bad_corners([pts[v] for v in b])
        if bad:
            viol(f"{block_cls(bi)}:left-handed-block", f"block {bi} has non-positive Jacobians at corners {bad}", bad, [])
            break

    # 2. conformity against the blockMesh hexahedron
    vsets = [set(b) for b in blocks]
    if any(len(s) != 8 for s in vsets):
        viol(f"{cls}:degenerate-block", "a block has coincident corners")
    face_owner: Dict[frozenset, List[int]] = {}
    for bi, b in enumerate(blocks):
        for f in BM_FACES:
            face_owner.setdefault(frozenset(b[c] for c in f), []).append(bi)
    edges = [{frozenset((b[c1], b[c2])) for c1, c2 in BM_EDGES} for b in blocks]
    faces = [{frozenset(b[c] for c in f) for f in BM_FACES} for b in blocks]
    done = False
    for i in range(len(blocks)):
        for j in range(i + 1, len(blocks)):
            common = vsets[i] & vsets[j]
            n = len(common)
            ok = n in (0, 1) or (n == 2 and frozenset(common) in edges[i] and frozenset(common) in edges[j]) or (
                n == 4 and frozenset(common) in faces[i] and frozenset(common) in faces[j]
            )
            if not ok:
                viol(f"{block_cls(j)}:non-conformal-blocks", f"blocks {i} and {j} share vertices {sorted(common)} which are not a common edge or face", sorted(common))
                done = True
                break
        if done:
            break
    if any(len(o) > 2 for o in face_owner.values()):
        viol(f"{cls}:face-shared-by-three-blocks", "an internal face belongs to more than two blocks")
    # face-connectedness
    adjm: Dict[int, set] = {i: set() for i in range(len(blocks))}
    for o in face_owner.values():
        if len(o) == 2:
            adjm[o[0]].add(o[1])
            adjm[o[1]].add(o[0])
    seen, todo = {0}, [0]
    while todo:
        x = todo.pop()
        for y in adjm[x]:
            if y not in seen:
                seen.add(y)
                todo.append(y)
    if len(seen) != len(blocks):
        viol(f"{cls}:not-face-connected", f"only {len(seen)} of {len(blocks)} blocks are reachable through shared faces", len(seen), len(blocks))
    # blocks do not overlap: no block centre lies inside another block (straight-edged hexahedron, each face
    # taken as the plane through its centre spanned by its diagonals; margin 1e-3 of the block size)
    cen = np.array([fpts[b].mean(axis=0) for b in blocks])
    inside_of = None
    # chains: a shape is compared with itself and with its source only (two shapes attached to different sides of a
    # third one may well run into each other; that is the generator's doing, not the library's)
    part_of = np.zeros(len(blocks), dtype=int)
    related = None
    if case["kind"] == "Chain":
        for i, (a, b_) in enumerate(impl["parts"]):
            part_of[a:b_] = i
        srcs = [0] + [l["src"] for l in case["p"]["links"]]
        related = np.array([[i == j or srcs[i] == j or srcs[j] == i for j in range(len(srcs))] for i in range(len(srcs))])
    for bi, b in enumerate(blocks):
        p = fpts[b]
        ok_mask = np.ones(len(blocks), dtype=bool)
        ok_mask[bi] = False
        if related is not None:
            ok_mask &= related[part_of[bi]][part_of]
        ext = float(np.max(np.linalg.norm(p - cen[bi], axis=1)))
        for f in BM_FACES:
            q = p[list(f)]
            fc = q.mean(axis=0)
            nrm = np.cross(q[2] - q[0], q[3] - q[1])
            ln = np.linalg.norm(nrm)
            if ln == 0:
                ok_mask[:] = False
                break
            nrm = nrm / ln
            if np.dot(nrm, cen[bi] - fc) > 0:
                nrm = -nrm  # outward
            ok_mask &= (cen - fc) @ nrm < -1e-3 * ext
        hit = np.nonzero(ok_mask)[0]
        if len(hit):
            inside_of = (int(hit[0]), bi)
            break
    if inside_of:
        viol(f"{block_cls(inside_of[0])}:overlapping-blocks", f"the centre of block {inside_of[0]} lies inside block {inside_of[1]}", list(inside_of))
    # distinct vertices must be well separated (a near miss is a vertex that should have been shared)
    if len(fpts) > 1:
        d = np.linalg.norm(fpts[:, None, :] - fpts[None, :, :], axis=2) + np.eye(len(fpts)) * 1e9
        if d.min() < 1e-5 * size:
            i, j = np.unravel_index(np.argmin(d), d.shape)
            viol(f"{cls}:unmerged-vertices", f"vertices {i} and {j} are {d.min():.3g} apart", float(d.min()))
    exp = expected_counts(case)
    if exp and (len(blocks), len(pts)) != exp:
        viol(f"{cls}:block-or-vertex-count", f"{len(blocks)} blocks / {len(pts)} vertices", [len(blocks), len(pts)], list(exp))

    # 3. outer arcs on the intended circles
    tol = 1e-6 * size
    for ci, c in enumerate(circles(case)):
        rel = fpts - c["c"]
        h = rel @ c["n"]
        rad = np.linalg.norm(rel - np.outer(h, c["n"]), axis=1)
        rim = {i for i in range(len(fpts)) if abs(h[i]) < tol and abs(rad[i] - c["r"]) < tol}
        # (other vertices may happen to lie on the same circle, e.g. the two half circles of an oval with d = 2R)
        if len(rim) < c["nv"]:
            viol(f"{cls}:off-circle", f"circle {ci} (radius {c['r']:.6g}) holds {len(rim)} vertices instead of {c['nv']}", len(rim), c["nv"])
            continue
        na = 0
        for v1, v2, kind, tp, _org in impl["arcs"]:
            if v1 in rim and v2 in rim:
                q = np.array([float(core.parse_rat(x)) for x in tp]) - c["c"]
                hq = float(q @ c["n"])
                mid = (fpts[v1] + fpts[v2]) / 2 - c["c"]
                if abs(hq) < tol and abs(np.linalg.norm(q - hq * c["n"]) - c["r"]) < tol and float(q @ mid) > 0:
                    # on the circle, and on the short way round (every arc of these shapes spans less than 180 degrees)
                    na += 1
                else:
                    viol(f"{cls}:arc-off-circle", f"arc {v1}-{v2} of circle {ci} passes through a point off the circle", [hq, float(np.linalg.norm(q))], c["r"])
        if na < c["na"] and not any(v["site"].endswith("arc-off-circle") for v in out):
            viol(f"{cls}:missing-arc", f"circle {ci} carries {na} arcs instead of {c['na']}", na, c["na"])

    # an arc given by its origin lies on a circle about that origin only if both ends are equally far from it
    for v1, v2, kind, tp, org in impl["arcs"]:
        if org is not None:
            o = np.array([float(core.parse_rat(x)) for x in org])
            d1, d2 = np.linalg.norm(fpts[v1] - o), np.linalg.norm(fpts[v2] - o)
            if abs(d1 - d2) > tol:
                owner = next((bi for bi, b in enumerate(blocks) if v1 in b and v2 in b), 0)
                viol(
                    f"{block_cls(owner)}:arc-origin-not-equidistant",
                    f"arc {v1}-{v2} is given by an origin that is {d1:.6g} resp. {d2:.6g} away from its ends",
                    [float(d1), float(d2)],
                )
                break
    # side edges of revolved shapes: every `angle` arc runs on a circle about the revolution axis of the shape as
    # it is placed (both ends and the written arc point equally far from the axis, at the same position along it)
    rax = revolve_axis(case)
    if rax is not None:
        o, d, want = rax
        nang = 0
        for v1, v2, kind, tp, _org in impl["arcs"]:
            if kind != "angle":
                continue
            nang += 1
            q = np.array([float(core.parse_rat(x)) for x in tp])
            rel = [fpts[v1] - o, fpts[v2] - o, q - o]
            al = [float(r @ d) for r in rel]
            rd = [float(np.linalg.norm(r - a * d)) for r, a in zip(rel, al)]
            mid = (rel[0] + rel[1]) / 2
            short = float((rel[2] - al[2] * d) @ (mid - float(mid @ d) * d)) > 0
            if max(al) - min(al) > tol or max(rd) - min(rd) > tol or not short:
                viol(f"{cls}:side-arc-off-axis", f"the arc {v1}-{v2} does not run about the revolution axis: distances {rd}, positions {al}", [rd, al])
                break
        else:
            if nang < want:
                viol(f"{cls}:missing-side-arc", f"{nang} revolved side edges are arcs instead of {want}", nang, want)
    if case["kind"] == "Hemisphere":
        c0 = post_maps(case)[0](Frame(case).P(0, 0, 0))
        rr = Frame(case).L(case["p"]["R"]) * post_scale(case)
        dist = np.linalg.norm(fpts - c0, axis=1)
        on = int(np.sum(np.abs(dist - rr) < tol))
        if on != 17 or np.any(dist > rr + tol):
            viol(f"{cls}:off-sphere", f"{on} vertices on the sphere of radius {rr:.6g} instead of 17", on, 17)

    # faces projected to a sphere: the sphere the geometry section declares passes through their vertices
    for label, vids in impl.get("projected", []):
        decl = impl.get("geometry", {}).get(label)
        if not decl or not any("searchableSphere" in x for x in decl):
            continue
        try:
            cen = next(x for x in decl if x.startswith("centre"))
            c0 = np.array([float(t) for t in cen[cen.index("(") + 1 : cen.index(")")].split()])
            r0 = float(next(x for x in decl if x.startswith("radius")).split()[1])
        except (StopIteration, ValueError):
            viol(f"{cls}:sphere-declaration", f"the declared geometry {label} cannot be read: {decl}")
            break
        dev = max(abs(float(np.linalg.norm(fpts[v] - c0)) - r0) for v in vids)
        if dev > tol + 1e-7:  # the centre is printed with 8 decimals
            owner = next((bi for bi, b in enumerate(blocks) if all(v in b for v in vids)), 0)
            viol(
                f"{block_cls(owner)}:off-declared-sphere",
                f"a face projected to {decl} has a vertex {dev:.6g} off that sphere",
                dev,
                0,
            )
            break

    # pipe joints: the curved edges of the mitre cuts lie in the plane of their (flat) face, on the wall of the
    # two pipes that meet there, and every operation that owns the edge describes the same curve
    if case["kind"] in JOINTS and "splines" in impl:
        axes = [(c["c"], c["n"]) for c in circles(case)]  # start centre and direction of every branch
        rpipe = circles(case)[0]["r"]
        seen: Dict[frozenset, Any] = {}
        for bi, c1, c2, qs in impl["splines"]:
            b = blocks[bi]
            q = np.array([[float(core.parse_rat(x)) for x in pt] for pt in qs])
            face = next((f for f in BM_FACES if c1 in f and c2 in f and (f == BM_FACES[0] or f == BM_FACES[1])), None)
            if face is not None and len(q):
                fp = fpts[[b[c] for c in face]]
                fc = fp.mean(axis=0)
                nrm = np.cross(fp[2] - fp[0], fp[3] - fp[1])
                nrm = nrm / np.linalg.norm(nrm)
                flat = float(np.max(np.abs((fp - fc) @ nrm)))
                off = float(np.max(np.abs((q - fc) @ nrm)))
                if flat < tol and off > 10 * tol:
                    viol(f"{cls}:curved-edge-off-its-face", f"the spline of edge {b[c1]}-{b[c2]} (block {bi}) leaves the plane of its face by {off:.6g}", off, 0)
                    break
            if len(q):
                # an outer edge: both ends on the wall of a branch (of both branches for a mitre edge);
                # the curve stays on every wall its ends lie on
                ends = fpts[[b[c1], b[c2]]]
                bad_wall = None
                for ai, (o, d) in enumerate(axes):
                    rel = ends - o
                    if float(np.max(np.abs(np.linalg.norm(rel - np.outer(rel @ d, d), axis=1) - rpipe))) > tol:
                        continue
                    rel = q - o
                    rad = np.linalg.norm(rel - np.outer(rel @ d, d), axis=1)
                    if float(np.max(np.abs(rad - rpipe))) > 10 * tol:
                        bad_wall = (ai, float(np.max(np.abs(rad - rpipe))))
                        break
                if bad_wall:
                    viol(f"{cls}:curved-edge-off-the-pipe-wall", f"the spline of edge {b[c1]}-{b[c2]} (block {bi}) leaves the wall of branch {bad_wall[0]}, on which both its ends lie, by {bad_wall[1]:.6g}", bad_wall[1], 0)
                    break
            key = frozenset((b[c1], b[c2]))
            if key in seen and len(q) == len(seen[key][1]):
                q0 = seen[key][1] if seen[key][0] == b[c1] else seen[key][1][::-1]
                d = float(np.max(np.linalg.norm(q - q0, axis=1))) if len(q) else 0.0
                if d > 10 * tol:
                    viol(f"{cls}:shared-edge-described-differently", f"edge {sorted(key)} is a different curve in block {bi} than in block {seen[key][2]} (up to {d:.6g} apart)", d, 0)
                    break
            else:
                seen.setdefault(key, (b[c1], q, bi))

    # 4. the documented chop calls are sufficient for writing
    w = impl["write"]
    if w not in ("ok", "timeout", "chop-arithmetic"):
        viol(f"{cls}:write-{w}", f"Mesh.write() after the documented chop calls raises {w}: {impl.get('msg', '')[:300]}", w, "ok")
    if w == "ok":
        cnt: Dict[frozenset, Tuple[int, int, int]] = {}
        for bi, b in enumerate(blocks):
            for a in range(3):
                for c1, c2 in BM_AXIS_EDGES[a]:
                    key = frozenset((b[c1], b[c2]))
                    n = impl["counts"][bi][a]
                    if key in cnt and cnt[key][0] != n:
                        viol(f"{block_cls(bi)}:inconsistent-counts", f"edge {sorted(key)} has {cnt[key][0]} cells in block {cnt[key][1]} and {n} in block {bi}", n, cnt[key][0])
                        break
                    cnt.setdefault(key, (n, bi, a))
                else:
                    continue
                break
        if any(c <= 0 for row in impl["counts"] for c in row):
            viol(f"{cls}:non-positive-count", "a written block has a non-positive cell count")

    # 5. chained shapes share exactly the interface vertices with their source
    if case["kind"] == "Chain":
        out.extend(chain_oracle(case, impl, blocks, fpts, size))
    return out


def chain_oracle(case, impl, blocks, fpts, size) -> List[dict]:
    import numpy as np

    out = []
    parts = impl["parts"]
    vs = [set(v for b in blocks[a:b_] for v in b) for a, b_ in parts]
    kinds = [case["p"]["base"]] + [l["op"].split(".")[0] for l in case["p"]["links"]]
    ring_n = {}
    if case["p"]["base"] == "ExtrudedRing":
        ring_n[0] = case["p"]["bp"]["n"]
    for li, link in enumerate(case["p"]["links"]):
        i, src = li + 1, link["src"]
        op = link["op"]
        if kinds[src] == "ExtrudedRing":
            n = ring_n[src]
        else:
            n = 8
        if kinds[i] == "ExtrudedRing":
            ring_n[i] = n
        shared = vs[i] & vs[src]
        if op in ("Cylinder.chain", "Frustum.chain", "Elbow.chain", "Hemisphere.chain"):
            want = 17
        elif op == "ExtrudedRing.chain":
            want = 2 * n
        elif op in ("ExtrudedRing.expand", "ExtrudedRing.contract"):
            want = 2 * n
        else:  # Cylinder.fill
            want = 16
        if len(shared) != want:
            out.append({"site": f"{op}:interface-vertices", "what": f"{op} on shape {src} ({kinds[src]}) shares {len(shared)} vertices with its source instead of {want}", "observed": len(shared), "expected": want})
            continue
        # the shared vertices lie on one plane (chain) resp. one cylinder (expand / contract / fill)
        sp = fpts[sorted(shared)]
        if op.endswith(".chain"):
            c = sp.mean(axis=0)
            _, sv, _ = np.linalg.svd(sp - c)
            if sv[2] > 1e-6 * size:
                out.append({"site": f"{op}:interface-not-planar", "what": f"the vertices shared by {op} and its source are not coplanar (sigma {sv[2]:.3g})", "observed": float(sv[2])})
    return out


# ----------------------------------------------------------------------------- entry
if __name__ == "__main__":
    sys.exit(core.main(C11()))
