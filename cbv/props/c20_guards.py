"""C20 — translator for guards: reads, with `ast`, the `if <cond>: raise <Exc>` statements at the head of every
covered entry point of the *current* source (and of the helpers it calls) and turns them into a small syntax tree

    statement  S ::= raise Cls C | ret C | mut what | each var list [S…]
    condition  C ::= not C | and C C | or C C | cmp op E E | iin E [ints] | sin name [strs] | seq name str
                   | pairin E E [(i, j)…] | shapeeq name [dims] | flag name
    scalar     E ::= int n | tol | var name | len name | dim name k | abs E | neg E | add E E | sub E E | mul E E
                   | dot V V | norm V
    vector     V ::= vvar name | vsub V V | vadd V V | cross V V | unit V

keeping literally: the comparison operators, `abs()` present or not, the constants, `TOL`, index ranges, `isinstance` /
`is None` tests (as named flags), the exception class, the ORDER of the guards, early returns before a guard (`ret`) and
any mutation of `self` state that precedes a guard (`mut`).  Local assignments are inlined (`diff = abs(np.dot(axis, …))`
with `axis = np.asarray(axis_point_2) - axis_point_1` becomes an expression over the parameters).  Whatever the
translator does not understand at a covered entry point raises `GuardSyntaxError` — table generation then fails loudly.

The trees are flattened (prefix notation) into rows `(tag, int, str)` for `CBV.Gen.c20Guards`; `lean/CBV/Model/C20Syntax.lean`
holds the inductive syntax, its encoder / decoder and its semantics.
"""

from __future__ import annotations

import ast
import importlib
import inspect
import textwrap
from typing import Any, Dict, List, Optional, Tuple


class GuardSyntaxError(Exception):
    pass


# --------------------------------------------------------------------------------------------- which entry points
# model call kind -> (module, class or None, function, options)
#   follow: methods of `self` / `cls` whose guards are inlined where they are called
#   atoms:  source text (after inlining) -> atom that names it in the model's environment
#   each:   {loop variable: list argument}: `for v in <arg>: self.<followed>(v, …)`
_FACE_ATOMS = {
    "np.shape(np.asarray(points, dtype=constants.DTYPE))": ("shape", "points"),
    "self.point_array[0]": ("vvar", "points[0]"),
    "self.point_array[1]": ("vvar", "points[1]"),
    "self.point_array[2]": ("vvar", "points[2]"),
    "self.point_array[3]": ("vvar", "points[3]"),
}

ENTRIES: Dict[str, dict] = {
    "faceShape": dict(mod="construct.flat.face", cls="Face", fn="__init__", only=[0], atoms=_FACE_ATOMS),
    "faceEdges": dict(mod="construct.flat.face", cls="Face", fn="__init__", only=[1], atoms=_FACE_ATOMS),
    "faceCoplanar": dict(mod="construct.flat.face", cls="Face", fn="__init__", only=[2], atoms=_FACE_ATOMS),
    "faceAddEdge": dict(mod="construct.flat.face", cls="Face", fn="add_edge"),
    "faceProjectEdge": dict(mod="construct.flat.face", cls="Face", fn="project_edge"),
    "faceRemoveEdges": dict(mod="construct.flat.face", cls="Face", fn="remove_edges", follow=["add_edge"]),
    "pointShape": dict(mod="construct.point", cls="Point", fn="__init__",
                       atoms={"np.shape(np.array(position, dtype=DTYPE))": ("shape", "position")}),
    "arrayShape": dict(mod="construct.array", cls="Array", fn="__init__",
                       atoms={"np.shape(np.array(points, dtype=DTYPE))": ("shape", "points"),
                              "len(np.shape(np.array(points, dtype=DTYPE)))": ("len", "np.shape(points)"),
                              "len(np.array(points, dtype=DTYPE))": ("dim", "points", 0)}),
    "sideVertices": dict(mod="items.side", cls="Side", fn="__init__"),
    "opAddSideEdge": dict(mod="construct.operations.operation", cls="Operation", fn="add_side_edge"),
    "opProjectCorner": dict(mod="construct.operations.operation", cls="Operation", fn="project_corner"),
    "opProjectEdge": dict(mod="construct.operations.operation", cls="Operation", fn="project_edge"),
    "opUnchop": dict(mod="construct.operations.operation", cls="Operation", fn="unchop"),
    "opChop": dict(mod="construct.operations.operation", cls="Operation", fn="chop"),
    "opSide": dict(mod="construct.operations.operation", cls="Operation", fn="project_side", follow=["get_index_from_side"]),
    "fromSeries": dict(mod="construct.operations.operation", cls="Operation", fn="from_series"),
    "blockAddEdge": dict(mod="items.block", cls="Block", fn="add_edge"),
    "frameAddBeam": dict(mod="util.frame", cls="Frame", fn="add_beam"),
    "projectLabels": dict(mod="construct.edges", cls="Project", fn="__init__", follow=["check_length"],
                          atoms={"len(self.convert_label(label))": ("len", "label")}),
    "projectAddLabel": dict(mod="construct.edges", cls="Project", fn="add_label", follow=["check_length"],
                            atoms={"len(self.label)": ("len", "self.label")}),
    "lengthRatio": dict(mod="grading.grading", cls="Grading", fn="add_chop"),
    "annulus": dict(mod="construct.flat.sketches.annulus", cls="Annulus", fn="__init__"),
    "cylinder": dict(mod="construct.shapes.cylinder", cls="SemiCylinder", fn="__init__"),
    "frustum": dict(mod="construct.shapes.frustum", cls="Frustum", fn="__init__"),
    "chainCylinder": dict(mod="construct.shapes.cylinder", cls="Cylinder", fn="chain"),
    "chainFrustum": dict(mod="construct.shapes.frustum", cls="Frustum", fn="chain"),
    "chainRing": dict(mod="construct.shapes.rings", cls="ExtrudedRing", fn="chain"),
    "ringContract": dict(mod="construct.shapes.rings", cls="ExtrudedRing", fn="contract"),
    "cylinderFill": dict(mod="construct.shapes.cylinder", cls="Cylinder", fn="fill"),
    "loftedShape": dict(mod="construct.shape", cls="LoftedShape", fn="__init__",
                        atoms={"any([len(sketch_mid_i.faces) != len(sketch_1.faces) for sketch_mid_i in sketch_mid])": ("flag", "some mid sketch differs"),
                               "len(sketch_1.faces)": ("var", "len(sketch_1.faces)"), "len(sketch_2.faces)": ("var", "len(sketch_2.faces)")}),
    "stackSlice": dict(mod="construct.stack", cls="Stack", fn="get_slice",
                       atoms={"(len(self.shapes[0].grid[0]), len(self.shapes[0].grid), len(self.shapes))[axis]": ("var", "number of slices along axis")}),
    "curveParam": dict(mod="construct.curves.curve", cls="CurveBase", fn="_check_param"),
    "polylineShape": dict(mod="util.functions", cls=None, fn="polyline_length",
                          atoms={"len(np.shape(points))": ("len", "np.shape(points)"), "len(points[0])": ("dim", "points", 1),
                                 "np.shape(points)[0]": ("dim", "points", 0)}),
    "polarCartesian": dict(mod="util.functions", cls=None, fn="to_cartesian"),
    "polarPolar": dict(mod="util.functions", cls=None, fn="to_polar"),
    "rotationLink": dict(mod="optimize.links", cls="RotationLink", fn="__init__",
                         atoms={"self._get_radius(self.leader)": ("vvar", "leader radius vector")}),
    "elbowChain": dict(mod="construct.shapes.elbow", cls="Elbow", fn="chain"),
    # round 6b: two guarded entry points that were outside the catalogue
    "arcTheta": dict(mod="items.edges.arcs.angle", cls=None, fn="arc_from_theta", atoms={"np.pi * 2": ("var", "np.pi * 2")}),
    "edgeVertices": dict(mod="items.edges.edge", cls="Edge", fn="__post_init__"),
    # the state machines: the guards of their steps
    "meshGrade": dict(mod="mesh", cls="Mesh", fn="grade"),
    "meshBackport": dict(mod="mesh", cls="Mesh", fn="backport"),
    "junctionAddClamp": dict(mod="optimize.junction", cls="Junction", fn="add_clamp"),
    "gridAddLink": dict(mod="optimize.grid", cls="GridBase", fn="add_link",
                        atoms={"leader_index": ("var", "leader_index"), "follower_index": ("var", "follower_index")}),
}  # fmt: skip

OPS = {ast.Lt: "lt", ast.LtE: "le", ast.Gt: "gt", ast.GtE: "ge", ast.Eq: "eq", ast.NotEq: "ne"}
MUTATORS = {"append", "extend", "insert", "pop", "remove", "clear", "sort", "reverse", "update", "add", "discard", "setdefault"}


def _module(name: str):
    return importlib.import_module("classy_blocks." + name)


def _function_node(mod, cls: Optional[str], fn: str) -> Tuple[ast.FunctionDef, Any]:
    owner = getattr(mod, cls) if cls else mod
    obj = owner.__dict__[fn] if cls else getattr(mod, fn)
    if isinstance(obj, (classmethod, staticmethod)):
        obj = obj.__func__
    src = textwrap.dedent(inspect.getsource(obj))
    node = ast.parse(src).body[0]
    if not isinstance(node, ast.FunctionDef):
        raise GuardSyntaxError(f"{cls}.{fn}: not a plain function")
    return node, owner


class Translator:
    def __init__(self, entry: str, spec: dict):
        self.entry = entry
        self.spec = spec
        self.mod = _module(spec["mod"])
        self.atoms: Dict[str, tuple] = dict(spec.get("atoms", {}))
        self.follow: List[str] = list(spec.get("follow", []))

    def fail(self, node: Optional[ast.AST], why: str):
        txt = ast.unparse(node) if node is not None else ""
        raise GuardSyntaxError(f"{self.entry} ({self.spec['mod']}.{self.spec.get('cls')}.{self.spec['fn']}): {why}: `{txt}`")

    # ---------------------------------------------------------------- inlining
    class _Subst(ast.NodeTransformer):
        def __init__(self, names: Dict[str, ast.AST], selfattrs: Dict[str, ast.AST]):
            self.names, self.selfattrs = names, selfattrs

        def visit_Name(self, node: ast.Name):
            if isinstance(node.ctx, ast.Load) and node.id in self.names:
                return self.names[node.id]  # already inlined when it was bound: not visited again
            return node

        def visit_Attribute(self, node: ast.Attribute):
            if isinstance(node.value, ast.Name) and node.value.id == "self" and node.attr in self.selfattrs:
                return self.selfattrs[node.attr]
            return self.generic_visit(node)

        def visit_ListComp(self, node):  # comprehension variables shadow nothing we bind; keep as it is
            return node

    def inline(self, node: ast.AST, env) -> ast.AST:
        import copy

        return self._Subst(env["names"], env["selfattrs"]).visit(copy.deepcopy(node))

    # ---------------------------------------------------------------- constants of the source
    def resolve_const(self, node: ast.AST, owner) -> Any:
        """value of a name / attribute that denotes a module constant or a class attribute (read from the imported package)"""
        if isinstance(node, (ast.List, ast.Tuple, ast.Set)):
            return [self.resolve_const(e, owner) for e in node.elts]
        if isinstance(node, ast.Constant):
            return node.value
        if isinstance(node, ast.UnaryOp) and isinstance(node.op, ast.USub) and isinstance(node.operand, ast.Constant):
            return -node.operand.value
        if isinstance(node, ast.Name) and hasattr(self.mod, node.id):
            return getattr(self.mod, node.id)
        if isinstance(node, ast.Attribute) and isinstance(node.value, ast.Name):
            if node.value.id == "self" and owner is not None and hasattr(owner, node.attr):
                return getattr(owner, node.attr)
            if hasattr(self.mod, node.value.id) and hasattr(getattr(self.mod, node.value.id), node.attr):
                return getattr(getattr(self.mod, node.value.id), node.attr)
        self.fail(node, "constant not resolvable")

    def is_tol(self, node: ast.AST) -> bool:
        from classy_blocks.util import constants

        if isinstance(node, ast.Name) and node.id == "TOL":
            return getattr(self.mod, "TOL", None) is constants.TOL
        if isinstance(node, ast.Attribute) and node.attr == "TOL" and isinstance(node.value, ast.Name):
            return getattr(self.mod, node.value.id, None) is constants
        return False

    # ---------------------------------------------------------------- expressions
    def atom(self, node: ast.AST) -> Optional[tuple]:
        return self.atoms.get(ast.unparse(node))

    @staticmethod
    def _np_call(node: ast.AST, names) -> Optional[ast.Call]:
        if isinstance(node, ast.Call) and isinstance(node.func, ast.Attribute) and isinstance(node.func.value, ast.Name):
            if node.func.value.id in ("np", "f") and node.func.attr in names:
                return node
        return None

    def vexpr(self, node: ast.AST) -> tuple:
        a = self.atom(node)
        if a is not None:
            if a[0] != "vvar":
                self.fail(node, "atom is not a vector")
            return a
        if self._np_call(node, ("asarray", "array")):
            return self.vexpr(node.args[0])
        if self._np_call(node, ("cross",)) and len(node.args) == 2:
            return ("cross", self.vexpr(node.args[0]), self.vexpr(node.args[1]))
        if self._np_call(node, ("unit_vector",)) and len(node.args) == 1:
            return ("unit", self.vexpr(node.args[0]))
        if isinstance(node, ast.BinOp) and isinstance(node.op, (ast.Sub, ast.Add)):
            return ("vsub" if isinstance(node.op, ast.Sub) else "vadd", self.vexpr(node.left), self.vexpr(node.right))
        if isinstance(node, ast.Name):
            return ("vvar", node.id)
        if isinstance(node, ast.Attribute) and isinstance(node.value, ast.Name):
            return ("vvar", ast.unparse(node))
        self.fail(node, "unsupported vector expression")

    def sexpr(self, node: ast.AST) -> tuple:
        a = self.atom(node)
        if a is not None:
            if a[0] not in ("var", "len", "dim"):
                self.fail(node, "atom is not a scalar")
            return a
        if isinstance(node, ast.Constant) and isinstance(node.value, int) and not isinstance(node.value, bool):
            return ("int", node.value)
        if isinstance(node, ast.UnaryOp) and isinstance(node.op, ast.USub):
            if isinstance(node.operand, ast.Constant) and isinstance(node.operand.value, int):
                return ("int", -node.operand.value)
            return ("neg", self.sexpr(node.operand))
        if self.is_tol(node):
            return ("tol",)
        if isinstance(node, ast.Call) and isinstance(node.func, ast.Name) and node.func.id == "abs" and len(node.args) == 1:
            return ("abs", self.sexpr(node.args[0]))
        if isinstance(node, ast.Call) and isinstance(node.func, ast.Name) and node.func.id == "len" and len(node.args) == 1:
            arg = node.args[0]
            if isinstance(arg, ast.Name):
                return ("len", arg.id)
            self.fail(node, "len() of something that is not an argument (declare an atom)")
        if self._np_call(node, ("dot",)) and len(node.args) == 2:
            return ("dot", self.vexpr(node.args[0]), self.vexpr(node.args[1]))
        if self._np_call(node, ("norm",)) and len(node.args) == 1:
            return ("norm", self.vexpr(node.args[0]))
        if isinstance(node, ast.BinOp) and isinstance(node.op, (ast.Sub, ast.Add, ast.Mult)):
            tag = {ast.Sub: "sub", ast.Add: "add", ast.Mult: "mul"}[type(node.op)]
            return (tag, self.sexpr(node.left), self.sexpr(node.right))
        if isinstance(node, ast.Subscript) and isinstance(node.slice, ast.Constant) and isinstance(node.slice.value, int):
            inner = self.atom(node.value)
            if inner is not None and inner[0] == "shape":
                return ("dim", inner[1], node.slice.value)
            if isinstance(node.value, ast.Attribute):  # self.bounds[0]
                return ("var", ast.unparse(node))
        if isinstance(node, ast.Name):
            return ("var", node.id)
        if isinstance(node, ast.Attribute):
            base = node
            while isinstance(base, ast.Attribute):
                base = base.value
            if isinstance(base, ast.Name):
                return ("var", ast.unparse(node))
        self.fail(node, "unsupported scalar expression")

    def cond(self, node: ast.AST, owner) -> tuple:
        a = self.atom(node)
        if a is not None:
            if a[0] != "flag":
                self.fail(node, "atom is not a flag")
            return a
        if isinstance(node, ast.BoolOp):
            tag = "and" if isinstance(node.op, ast.And) else "or"
            parts = [self.cond(v, owner) for v in node.values]
            out = parts[0]
            for p in parts[1:]:
                out = (tag, out, p)
            return out
        if isinstance(node, ast.UnaryOp) and isinstance(node.op, ast.Not):
            return ("not", self.cond(node.operand, owner))
        if isinstance(node, ast.Name):
            return ("flag", node.id)
        if isinstance(node, ast.Attribute) and isinstance(node.value, ast.Name):
            return ("flag", ast.unparse(node))
        if isinstance(node, ast.Call) and isinstance(node.func, ast.Name) and node.func.id == "isinstance":
            return ("flag", ast.unparse(node))
        if isinstance(node, ast.Compare):
            if len(node.ops) > 1:  # a <= b < c  is  (a <= b) and (b < c)
                parts = []
                left = node.left
                for op, right in zip(node.ops, node.comparators):
                    parts.append(self.cond(ast.Compare(left=left, ops=[op], comparators=[right]), owner))
                    left = right
                out = parts[0]
                for p in parts[1:]:
                    out = ("and", out, p)
                return out
            op, left, right = node.ops[0], node.left, node.comparators[0]
            if isinstance(op, (ast.Is, ast.IsNot)):
                if not (isinstance(right, ast.Constant) and right.value is None):
                    self.fail(node, "`is` with something else than None")
                flag = ("flag", ast.unparse(left) + " is not None")
                return flag if isinstance(op, ast.IsNot) else ("not", flag)
            if isinstance(op, (ast.In, ast.NotIn)):
                c = self.member(left, right, owner, node)
                return c if isinstance(op, ast.In) else ("not", c)
            if type(op) not in OPS:
                self.fail(node, "unsupported comparison operator")
            la = self.atom(left)
            if la is not None and la[0] == "shape" or self._is_shape(left):
                if not isinstance(op, (ast.Eq, ast.NotEq)):
                    self.fail(node, "shape compared with an order relation")
                name = la[1] if la is not None else self._is_shape(left)
                dims = self.resolve_const(right, owner)
                if not (isinstance(dims, list) and all(isinstance(d, int) and d >= 0 for d in dims)):
                    self.fail(node, "shape compared with something that is not a tuple of sizes")
                c = ("shapeeq", name, dims)
                return c if isinstance(op, ast.Eq) else ("not", c)
            if isinstance(right, ast.Constant) and isinstance(right.value, str):
                if not isinstance(left, ast.Name) or not isinstance(op, (ast.Eq, ast.NotEq)):
                    self.fail(node, "unsupported string comparison")
                c = ("seq", left.id, right.value)
                return c if isinstance(op, ast.Eq) else ("not", c)
            return ("cmp", OPS[type(op)], self.sexpr(left), self.sexpr(right))
        self.fail(node, "unsupported condition")

    def _is_shape(self, node: ast.AST) -> Optional[str]:
        if self._np_call(node, ("shape",)) and len(node.args) == 1 and isinstance(node.args[0], ast.Name):
            return node.args[0].id
        return None

    def member(self, left: ast.AST, right: ast.AST, owner, whole: ast.AST) -> tuple:
        if isinstance(right, ast.Attribute) and isinstance(right.value, ast.Name) and right.value.id == "self" and not hasattr(owner, right.attr):
            values = self.instance_dict_keys(owner, right.attr, whole)
        else:
            values = self.resolve_const(right, owner)
        if isinstance(values, dict):
            values = list(values.keys())
        if isinstance(left, ast.Set) and len(left.elts) == 2:  # {a, b} in <list of sets>
            pairs = []
            for s in values:
                s = sorted(s)
                if len(s) != 2 or not all(isinstance(x, int) for x in s):
                    self.fail(whole, "pair membership in something that is not a list of pairs")
                pairs.append((s[0], s[1]))
            return ("pairin", self.sexpr(left.elts[0]), self.sexpr(left.elts[1]), pairs)
        values = list(values)
        if values and all(isinstance(v, str) for v in values):
            if not isinstance(left, ast.Name):
                self.fail(whole, "string membership of something that is not an argument")
            return ("sin", left.id, values)
        if values and all(isinstance(v, int) and not isinstance(v, bool) for v in values):
            return ("iin", self.sexpr(left), values)
        self.fail(whole, "membership in something that is neither a list of ints nor of strings")

    def instance_dict_keys(self, owner, attr: str, whole: ast.AST) -> list:
        """`x in self.<attr>` where `__init__` of the class (or a base class) sets `self.<attr> = {k: …, …}` literally"""
        for klass in owner.__mro__:
            init = klass.__dict__.get("__init__")
            if init is None:
                continue
            tree = ast.parse(textwrap.dedent(inspect.getsource(init)))
            for node in ast.walk(tree):
                target = None
                if isinstance(node, ast.Assign) and len(node.targets) == 1:
                    target, value = node.targets[0], node.value
                elif isinstance(node, ast.AnnAssign):
                    target, value = node.target, node.value
                if isinstance(target, ast.Attribute) and isinstance(target.value, ast.Name) and target.value.id == "self" and target.attr == attr:
                    if isinstance(value, ast.Dict) and all(isinstance(k, ast.Constant) for k in value.keys):
                        return [k.value for k in value.keys]
                    self.fail(whole, f"self.{attr} is not initialised with a literal dict")
        self.fail(whole, f"no initialisation of self.{attr} found")

    def instance_literal(self, owner, attr: str):
        """("list", n) / ("dict", keys) when `__init__` of the class (or of a base class) sets `self.<attr>` to a list
        literal of n elements / a dict literal with constant keys; None otherwise"""
        if owner is None or not inspect.isclass(owner):
            return None
        for klass in owner.__mro__:
            init = klass.__dict__.get("__init__")
            if init is None or not inspect.isfunction(init):
                continue
            tree = ast.parse(textwrap.dedent(inspect.getsource(init)))
            for node in ast.walk(tree):
                target = None
                if isinstance(node, ast.Assign) and len(node.targets) == 1:
                    target, value = node.targets[0], node.value
                elif isinstance(node, ast.AnnAssign):
                    target, value = node.target, node.value
                if isinstance(target, ast.Attribute) and isinstance(target.value, ast.Name) and target.value.id == "self" and target.attr == attr:
                    if isinstance(value, ast.List) and not any(isinstance(e, ast.Starred) for e in value.elts):
                        return ("list", len(value.elts))
                    if isinstance(value, ast.Dict) and value.keys and all(isinstance(k, ast.Constant) and isinstance(k.value, int) for k in value.keys):
                        return ("dict", [k.value for k in value.keys])
                    return None
        return None

    def implicit_guards(self, st: ast.AST, owner, env) -> List[tuple]:
        """the exceptions a statement raises by itself, as far as the source shows them syntactically: `self.<attr>[i]`
        with `i` an argument and `self.<attr>` initialised with a list literal of n elements (IndexError unless
        -n <= i < n: python's negative indexing included) or, when read, with a dict literal (KeyError unless i is a key)"""
        out: List[tuple] = []
        for node in ast.walk(st):
            if not (isinstance(node, ast.Subscript) and isinstance(node.value, ast.Attribute) and isinstance(node.value.value, ast.Name) and node.value.value.id == "self"):
                continue
            idx = self.inline(node.slice, env)
            if not isinstance(idx, ast.Name):
                continue
            lit = self.instance_literal(owner, node.value.attr)
            if lit is None:
                continue
            x = ("var", idx.id)
            if lit[0] == "list":
                n = lit[1]
                g = ("implicit", "IndexError", ("not", ("and", ("cmp", "le", ("int", -n), x), ("cmp", "lt", x, ("int", n)))))
            elif isinstance(node.ctx, ast.Load):
                g = ("implicit", "KeyError", ("not", ("iin", x, list(lit[1]))))
            else:
                continue
            if g not in out:
                out.append(g)
        return out

    def branch_implicit(self, body: List[ast.stmt], owner, env) -> List[tuple]:
        out: List[tuple] = []
        for st in body:
            if isinstance(st, (ast.If, ast.For, ast.While, ast.Try, ast.With)):
                return []
            for g in self.implicit_guards(st, owner, env):
                if g not in out:
                    out.append(g)
        return out

    # ---------------------------------------------------------------- statements
    @staticmethod
    def _raises(nodes) -> bool:
        return any(isinstance(n, (ast.Raise, ast.Assert)) for s in nodes for n in ast.walk(s))

    @staticmethod
    def _mutations(stmt: ast.AST) -> List[str]:
        """state of `self` (or of an argument) that the statement changes: assignments to attributes / items, calls of
        mutating list / set / dict methods on an attribute"""
        out = []
        for n in ast.walk(stmt):
            targets = []
            if isinstance(n, ast.Assign):
                targets = n.targets
            elif isinstance(n, (ast.AugAssign, ast.AnnAssign)):
                targets = [n.target]
            for t in targets:
                base = t
                while isinstance(base, (ast.Subscript, ast.Attribute)):
                    if isinstance(base, ast.Attribute) or isinstance(base, ast.Subscript):
                        if not isinstance(t, ast.Name):
                            pass
                    base = base.value
                if isinstance(t, (ast.Attribute, ast.Subscript)) and isinstance(base, ast.Name):
                    root = t
                    while isinstance(root, ast.Subscript):
                        root = root.value
                    if isinstance(root, ast.Attribute):  # a local `x[i] = …` is not state
                        out.append(ast.unparse(root))
            if isinstance(n, ast.Call) and isinstance(n.func, ast.Attribute) and n.func.attr in MUTATORS and isinstance(n.func.value, ast.Attribute):
                out.append(ast.unparse(n.func.value))
        return out

    def exc_class(self, node: ast.Raise) -> str:
        exc = node.exc
        if isinstance(exc, ast.Call):
            exc = exc.func
        if isinstance(exc, ast.Name):
            return exc.id
        self.fail(node, "raise of something that is not a named exception class")

    def called_followed(self, stmt: ast.AST) -> List[ast.Call]:
        out = []
        for n in ast.walk(stmt):
            if isinstance(n, ast.Call) and isinstance(n.func, ast.Attribute) and isinstance(n.func.value, ast.Name):
                if n.func.value.id in ("self", "cls") and n.func.attr in self.follow:
                    out.append(n)
        return out

    def body(self, fn: ast.FunctionDef, owner, env, path: Optional[tuple], depth: int = 0) -> List[tuple]:
        return self.stmts(fn.body, owner, env, path, depth)

    def conj(self, path: Optional[tuple], c: tuple) -> tuple:
        return c if path is None else ("and", path, c)

    def stmts(self, body: List[ast.stmt], owner, env, path, depth) -> List[tuple]:
        out: List[tuple] = []
        for st in body:
            if isinstance(st, ast.Expr) and isinstance(st.value, ast.Constant):
                continue  # docstring
            if isinstance(st, ast.Assert):
                self.fail(st, "assert statements are not translated")
            if isinstance(st, (ast.While, ast.Try, ast.With, ast.Match)) and self._raises([st]):
                self.fail(st, "raise inside unsupported control flow")
            if isinstance(st, ast.Raise):
                out.append(("raise", self.exc_class(st), path if path is not None else ("not", ("flag", "never"))))
                continue
            if isinstance(st, ast.If):
                test = self.inline(st.test, env)
                only_raise = len(st.body) == 1 and isinstance(st.body[0], ast.Raise) and not st.orelse
                if only_raise:
                    out.append(("raise", self.exc_class(st.body[0]), self.conj(path, self.cond(test, owner))))
                    continue
                has_raise = self._raises(st.body) or self._raises(st.orelse)
                followed = any(self.called_followed(s) for s in st.body + st.orelse)
                if has_raise or followed:
                    c = self.cond(test, owner)
                    sub_env = {"names": dict(env["names"]), "selfattrs": dict(env["selfattrs"])}
                    out += self.stmts(st.body, owner, sub_env, self.conj(path, c), depth)
                    if st.orelse:
                        sub_env = {"names": dict(env["names"]), "selfattrs": dict(env["selfattrs"])}
                        out += self.stmts(st.orelse, owner, sub_env, self.conj(path, ("not", c)), depth)
                    # bindings made inside the branch are not known afterwards
                    for s in st.body + st.orelse:
                        for n in ast.walk(s):
                            if isinstance(n, ast.Name) and isinstance(n.ctx, ast.Store):
                                env["names"].pop(n.id, None)
                    continue
                ends_in_return = bool(st.body) and isinstance(st.body[-1], ast.Return) and not st.orelse
                if st.orelse:  # the same subscript in both branches raises whatever the test says
                    g1, g2 = self.branch_implicit(st.body, owner, env), self.branch_implicit(st.orelse, owner, env)
                    if g1 and g1 == g2:
                        out += g1
                muts = self._mutations(st)
                if ends_in_return:
                    out.append(("ret?", test, muts))  # translated lazily: only needed when a guard follows
                elif muts:
                    out.append(("mut", ",".join(sorted(set(muts)))))
                # names (re)bound in a branch are no longer known
                for n in ast.walk(st):
                    if isinstance(n, ast.Name) and isinstance(n.ctx, ast.Store):
                        env["names"].pop(n.id, None)
                continue
            if isinstance(st, ast.For):
                calls = self.called_followed(st)
                if calls:
                    if not (isinstance(st.target, ast.Name) and isinstance(st.iter, ast.Name) and len(st.body) == 1 and isinstance(st.body[0], ast.Expr) and st.body[0].value is calls[0] and not st.orelse):
                        self.fail(st, "loop around a guarded helper in an unsupported form")
                    inner = self.inline_call(calls[0], owner, env, None, depth)
                    if any(s[0] == "each" for s in inner):
                        self.fail(st, "nested loops")
                    iter_ = self.inline(st.iter, env)
                    if not isinstance(iter_, ast.Name):
                        self.fail(st, "loop over something that is not an argument")
                    out.append(("each", st.target.id, iter_.id, inner, path))
                    continue
                if self._raises([st]):
                    self.fail(st, "raise inside a loop")
                muts = self._mutations(st)
                if muts:
                    out.append(("mut", ",".join(sorted(set(muts)))))
                for n in ast.walk(st):  # names (re)bound in the loop are no longer known
                    if isinstance(n, ast.Name) and isinstance(n.ctx, ast.Store):
                        env["names"].pop(n.id, None)
                continue
            # plain statements: guarded helpers called here are inlined first, then bindings and mutations are recorded
            for call in self.called_followed(st):
                out += self.inline_call(call, owner, env, path, depth)
            if path is None and not isinstance(st, (ast.While, ast.Try, ast.With)):
                out += self.implicit_guards(st, owner, env)
            if isinstance(st, (ast.Assign, ast.AnnAssign)):
                targets = st.targets if isinstance(st, ast.Assign) else [st.target]
                value = st.value
                if value is not None and len(targets) == 1:
                    t = targets[0]
                    val = self.inline(value, env)
                    if isinstance(t, ast.Name):
                        env["names"][t.id] = val
                        continue
                    if isinstance(t, ast.Attribute) and isinstance(t.value, ast.Name) and t.value.id == "self":
                        env["selfattrs"][t.attr] = val
                        out.append(("mut", "self." + t.attr))
                        continue
                for t in targets:  # tuple targets etc.: forget the names
                    for n in ast.walk(t):
                        if isinstance(n, ast.Name):
                            env["names"].pop(n.id, None)
            muts = self._mutations(st)
            if muts:
                out.append(("mut", ",".join(sorted(set(muts)))))
        return out

    def inline_call(self, call: ast.Call, owner, env, path, depth) -> List[tuple]:
        if depth > 3:
            self.fail(call, "helper calls nested too deeply")
        name = call.func.attr
        fn, _ = _function_node(inspect.getmodule(owner) if inspect.isclass(owner) else self.mod, owner.__name__ if inspect.isclass(owner) else None, name) if name in getattr(owner, "__dict__", {}) else self._find_method(owner, name)
        params = [a.arg for a in fn.args.args]
        is_static = isinstance(inspect.getattr_static(owner, name), staticmethod)
        if not is_static:
            params = params[1:]
        if call.keywords or len(call.args) > len(params):
            self.fail(call, "helper call with keyword / surplus arguments")
        names = {p: self.inline(a, env) for p, a in zip(params, call.args)}
        sub_env = {"names": names, "selfattrs": dict(env["selfattrs"])}
        inner = self.stmts(fn.body, owner, sub_env, path, depth + 1)
        env["selfattrs"].update(sub_env["selfattrs"])
        return inner

    def _find_method(self, owner, name: str):
        for klass in owner.__mro__:
            if name in klass.__dict__:
                return _function_node(inspect.getmodule(klass), klass.__name__, name)
        self.fail(None, f"helper {name} not found")

    # ---------------------------------------------------------------- one entry point
    def translate(self) -> List[tuple]:
        fn, owner = _function_node(self.mod, self.spec.get("cls"), self.spec["fn"])
        env = {"names": {}, "selfattrs": {}}
        raw = self.stmts(fn.body, owner if self.spec.get("cls") else None, env, None, 0)
        # trailing statements after the last guard decide nothing
        last = max((k for k, s in enumerate(raw) if s[0] in ("raise", "each", "implicit")), default=-1)
        if last < 0:
            self.fail(None, "no guard found at this entry point")
        raw = raw[: last + 1]
        out = []
        for s in raw:
            if s[0] == "ret?":
                c = self.cond(s[1], owner if self.spec.get("cls") else None)
                if s[2]:
                    out.append(("mut", ",".join(sorted(set(s[2])))))
                out.append(("ret", c))
            elif s[0] == "each":
                if s[4] is not None:
                    self.fail(None, "loop around a guarded helper under a condition")
                inner = [x for x in s[3]]
                if any(x[0] not in ("raise", "ret", "mut", "implicit") for x in inner):
                    self.fail(None, "unsupported statement inside a loop around a guarded helper")
                out.append(("each", s[1], s[2], inner))
            else:
                out.append(s)
        only = self.spec.get("only")
        if only is not None:  # this call kind of the model is about some of the guards of the function
            raises = [k for k, s in enumerate(out) if s[0] == "raise"]
            keep = {raises[i] for i in only if i < len(raises)}
            if len(keep) != len(only):
                self.fail(None, f"expected at least {max(only) + 1} guards")
            first = min(keep)
            out = [s for k, s in enumerate(out) if k in keep or (s[0] != "raise" and k < first and False)]
        return out


# --------------------------------------------------------------------------------------------- flattening
def _flat_e(e: tuple, out: list):
    tag = e[0]
    if tag == "int":
        out.append(("int", e[1], ""))
    elif tag == "tol":
        out.append(("tol", 0, ""))
    elif tag in ("var", "len", "vvar"):
        out.append((tag, 0, e[1]))
    elif tag == "dim":
        out.append(("dim", e[2], e[1]))
    elif tag in ("abs", "neg", "unit", "norm"):
        out.append((tag, 0, ""))
        _flat_e(e[1], out)
    elif tag in ("add", "sub", "mul", "dot", "vsub", "vadd", "cross"):
        out.append((tag, 0, ""))
        _flat_e(e[1], out)
        _flat_e(e[2], out)
    else:
        raise GuardSyntaxError(f"cannot flatten {e!r}")


def _flat_c(c: tuple, out: list):
    tag = c[0]
    if tag == "not":
        out.append(("not", 0, ""))
        _flat_c(c[1], out)
    elif tag in ("and", "or"):
        out.append((tag, 0, ""))
        _flat_c(c[1], out)
        _flat_c(c[2], out)
    elif tag == "cmp":
        out.append(("cmp", 0, c[1]))
        _flat_e(c[2], out)
        _flat_e(c[3], out)
    elif tag == "iin":
        out.append(("iin", len(c[2]), ""))
        _flat_e(c[1], out)
        out += [("int", v, "") for v in c[2]]
    elif tag == "sin":
        out.append(("sin", len(c[2]), c[1]))
        out += [("str", 0, v) for v in c[2]]
    elif tag == "seq":
        out.append(("seq", 0, c[1]))
        out.append(("str", 0, c[2]))
    elif tag == "pairin":
        out.append(("pairin", len(c[3]), ""))
        _flat_e(c[1], out)
        _flat_e(c[2], out)
        for a, b in c[3]:
            out += [("int", a, ""), ("int", b, "")]
    elif tag == "shapeeq":
        out.append(("shapeeq", len(c[2]), c[1]))
        out += [("int", d, "") for d in c[2]]
    elif tag == "flag":
        out.append(("flag", 0, c[1]))
    else:
        raise GuardSyntaxError(f"cannot flatten {c!r}")


def _flat_s(s: tuple, out: list):
    if s[0] in ("raise", "implicit"):
        out.append((s[0], 0, s[1]))
        _flat_c(s[2], out)
    elif s[0] == "ret":
        out.append(("ret", 0, ""))
        _flat_c(s[1], out)
    elif s[0] == "mut":
        out.append(("mut", 0, s[1]))
    elif s[0] == "each":
        out.append(("each", len(s[3]), s[1]))
        out.append(("list", 0, s[2]))
        for x in s[3]:
            _flat_s(x, out)
    else:
        raise GuardSyntaxError(f"cannot flatten {s!r}")


def flatten(stmts: List[tuple]) -> List[Tuple[str, int, str]]:
    out: list = []
    for s in stmts:
        _flat_s(s, out)
    return out


_cache: Dict[str, List[tuple]] = {}


def guards(entry: str) -> List[tuple]:
    if entry not in _cache:
        _cache[entry] = Translator(entry, ENTRIES[entry]).translate()
    return _cache[entry]


def all_guards() -> Dict[str, List[tuple]]:
    return {e: guards(e) for e in ENTRIES}


# --------------------------------------------------------------------------------------------- coverage of the source
def enumerate_raises() -> List[dict]:
    """every `raise` / `assert` of src/classy_blocks with the function it sits in"""
    import pathlib

    import classy_blocks

    root = pathlib.Path(classy_blocks.__file__).parent
    rows = []
    for path in sorted(root.rglob("*.py")):
        tree = ast.parse(path.read_text())
        stack: List[str] = []

        def walk(node):
            for child in ast.iter_child_nodes(node):
                if isinstance(child, (ast.ClassDef, ast.FunctionDef, ast.AsyncFunctionDef)):
                    stack.append(child.name)
                    walk(child)
                    stack.pop()
                    continue
                if isinstance(child, (ast.Raise, ast.Assert)):
                    exc = ""
                    if isinstance(child, ast.Raise) and child.exc is not None:
                        e = child.exc.func if isinstance(child.exc, ast.Call) else child.exc
                        exc = ast.unparse(e)
                    rows.append({"file": str(path.relative_to(root)), "line": child.lineno, "where": ".".join(stack), "kind": "assert" if isinstance(child, ast.Assert) else "raise", "exc": exc})
                walk(child)

        walk(tree)
    return rows


def covered_functions() -> Dict[Tuple[str, str], str]:
    """(file, qualified function) -> entry, for the functions whose guards the translator reads (helpers included)"""
    out: Dict[Tuple[str, str], str] = {}
    for entry, spec in ENTRIES.items():
        f = spec["mod"].replace(".", "/") + ".py"
        out[(f, (spec["cls"] + "." if spec.get("cls") else "") + spec["fn"])] = entry
        for h in spec.get("follow", []):
            out[(f, (spec["cls"] + "." if spec.get("cls") else "") + h)] = entry
    return out


# state machines and call kinds of the model whose guards are not `if …: raise` statements of one function (loops with
# `return` inside, look-ups) and are tied by probes + correspondence only
MODEL_ONLY = {
    ("optimize/grid.py", "GridBase.add_clamp"): "grid state machine (loop with return; modelled, not translated)",
    ("util/tools.py", "EdgeLocation.start_corner"): "reached through Operation.project_edge (modelled as look-up)",
}


def coverage() -> dict:
    rows = enumerate_raises()
    cov = covered_functions()
    translated, modelled, outside = [], [], []
    for r in rows:
        key = (r["file"], r["where"])
        if key in cov:
            translated.append(r)
        elif key in MODEL_ONLY:
            modelled.append(r)
        else:
            outside.append(r)
    return {"total": len(rows), "translated": translated, "modelled_only": modelled, "outside": outside}


if __name__ == "__main__":
    import json
    import sys

    if len(sys.argv) > 1 and sys.argv[1] == "coverage":
        c = coverage()
        print(json.dumps({k: (v if isinstance(v, int) else [f"{r['file']}:{r['line']} {r['where']} {r['exc']}" for r in v]) for k, v in c.items()}, indent=1))
    else:
        for e in ENTRIES:
            print(e)
            for s in guards(e):
                print("   ", s)


# --------------------------------------------------------------------------------------------- Lean terms (bootstrap of the model's table)
def _ls(x: str) -> str:
    return '"' + x.replace("\\", "\\\\").replace('"', '\\"') + '"'


def lean_term(t: tuple) -> str:
    tag = t[0]
    if tag == "int":
        return f"(.int {t[1]})" if t[1] >= 0 else f"(.int ({t[1]}))"
    if tag == "tol":
        return ".tol"
    if tag in ("var", "len", "vvar", "flag"):
        return f"(.{tag} {_ls(t[1])})"
    if tag == "dim":
        return f"(.dim {_ls(t[1])} {t[2]})"
    if tag in ("abs", "neg", "unit", "norm", "not"):
        return f"(.{tag} {lean_term(t[1])})"
    if tag in ("add", "sub", "mul", "dot", "vsub", "vadd", "cross", "and", "or"):
        return f"(.{tag} {lean_term(t[1])} {lean_term(t[2])})"
    if tag == "cmp":
        return f"(.cmp .{t[1]} {lean_term(t[2])} {lean_term(t[3])})"
    if tag == "iin":
        return f"(.iin {lean_term(t[1])} [{', '.join(str(v) for v in t[2])}])"
    if tag == "sin":
        return f"(.sin {_ls(t[1])} [{', '.join(_ls(v) for v in t[2])}])"
    if tag == "seq":
        return f"(.seq {_ls(t[1])} {_ls(t[2])})"
    if tag == "pairin":
        return f"(.pairin {lean_term(t[1])} {lean_term(t[2])} [{', '.join(f'({a}, {b})' for a, b in t[3])}])"
    if tag == "shapeeq":
        return f"(.shapeeq {_ls(t[1])} [{', '.join(str(d) for d in t[2])}])"
    if tag in ("raise", "implicit"):
        return f".{tag} {_ls(t[1])} {lean_term(t[2])}"
    if tag == "ret":
        return f".ret {lean_term(t[1])}"
    if tag == "mut":
        return f".mutate {_ls(t[1])}"
    raise GuardSyntaxError(f"no Lean term for {t!r}")


def lean_stmt(s: tuple) -> str:
    if s[0] == "each":
        return f".each {_ls(s[1])} {_ls(s[2])} [{', '.join(lean_term(x) for x in s[3])}]"
    return f".s ({lean_term(s)})"


def lean_table() -> str:
    rows = []
    for e in ENTRIES:
        rows.append(f"  ({_ls(e)}, [\n      " + ",\n      ".join(lean_stmt(s) for s in guards(e)) + "])")
    return "[\n" + ",\n".join(rows) + "]"
