"""Common pipeline of every check (see DESIGN.md sections 2, 3, 7).

    regenerate tables -> lake build Props -> audit (grep + #print axioms) ->
    correspondence (implementation vs. Lean model through the line protocol) ->
    direct oracle on the implementation -> failing-input search when something is red ->
    evidence file, verdict line, exit code.

Exit codes: 0 held, 1 violation (with a VIOLATION line), 2 internal error / time-out of the
machinery (never a VIOLATION line).
"""

from __future__ import annotations

import fcntl
import hashlib
import json
import os
import random
import re
import subprocess
import sys
import time
import traceback
from pathlib import Path
from typing import Any, Dict, List, Optional, Sequence, Tuple

ROOT = Path(__file__).resolve().parent.parent
LEAN = ROOT / "lean"
EVID = ROOT / "evidence"
REPLAYS = ROOT / "replays"
CORPUS = ROOT / "corpus"
REPO = Path(os.environ.get("CB_REPO", "/repo"))

ALLOWED_AXIOMS = {"propext", "Classical.choice", "Quot.sound"}
FORBIDDEN = re.compile(
    r"\b(sorry|admit|native_decide|bv_decide|implemented_by|unsafe)\b|^\s*axiom\s|maxHeartbeats\s+0\b", re.M
)

TRUSTED_BASE = [
    "Lean 4.33.0 kernel (theorems re-elaborated by `lake build` on every run; leanchecker in the thorough tier)",
    "axioms allowed in property theorems: propext, Classical.choice, Quot.sound (audited with #print axioms); "
    "no native_decide, no bv_decide, no axiom declarations, no sorry",
    "Mathlib v4.33.0 single modules imported by CBV/Lemmas and CBV/Props only",
    "the translator cbv/gen_tables.py + cbv/tables/*.py (prints Python values of /repo's tables and, read with ast/inspect "
    "from the current source text, expressions, guards, index tables and statement outlines as Lean literals: its parsers "
    "and token encodings are trusted, what the tie theorems prove is about its output)",
    "the Python harness cbv/ (case generators, canonicalisers, float->rational conversion) and the request parser of the "
    "generated line-protocol driver (core.write_driver)",
    "correspondence is differential testing: Python/numpy/scipy semantics of the modelled methods are validated on the "
    "generated inputs only, not verified",
]


# --------------------------------------------------------------------------- small helpers
def log(*a: Any) -> None:
    print(*a, file=sys.stderr, flush=True)


def strip_comments(src: str) -> str:
    """Removes Lean comments (nested block comments and line comments) and string literals."""
    out = []
    i, n, depth = 0, len(src), 0
    while i < n:
        two = src[i : i + 2]
        if depth == 0 and src[i] == '"':
            j = i + 1
            while j < n and src[j] != '"':
                j += 2 if src[j] == "\\" else 1
            i = j + 1
            out.append('""')
            continue
        if two == "/-":
            depth += 1
            i += 2
            continue
        if two == "-/" and depth > 0:
            depth -= 1
            i += 2
            continue
        if depth == 0 and two == "--":
            while i < n and src[i] != "\n":
                i += 1
            continue
        if depth == 0:
            out.append(src[i])
        i += 1
    return "".join(out)


def rat(x: Any) -> str:
    """Exact rational image of a float / int / Fraction, as `n/d`."""
    from fractions import Fraction

    if isinstance(x, Fraction):
        f = x
    elif isinstance(x, int):
        f = Fraction(x)
    else:
        f = Fraction(float(x))
    return f"{f.numerator}/{f.denominator}"


def parse_rat(s: str):
    from fractions import Fraction

    n, _, d = s.partition("/")
    return Fraction(int(n), int(d or 1))


class Lock:
    def __init__(self, path: Path):
        self.path = path

    def __enter__(self):
        self.path.parent.mkdir(parents=True, exist_ok=True)
        self.f = open(self.path, "w")
        fcntl.flock(self.f, fcntl.LOCK_EX)
        return self

    def __exit__(self, *a):
        fcntl.flock(self.f, fcntl.LOCK_UN)
        self.f.close()


# --------------------------------------------------------------------------- lean side
def lake(args: Sequence[str], timeout: int = 3600) -> Tuple[int, str]:
    env = dict(os.environ)
    p = subprocess.run(["lake", *args], cwd=LEAN, capture_output=True, text=True, timeout=timeout, env=env)
    return p.returncode, p.stdout + p.stderr


TABLE_FAILURES: Dict[str, str] = {}  # stem of CBV/Gen/<stem>.lean -> traceback of the translator, from the last regeneration


def regenerate_tables() -> Tuple[bool, str]:
    """Runs the translator; rewrites a file of CBV/Gen only when its content changes (one file per table module, so
    that a change of one module's tables rebuilds, and a failing translator module breaks, only what uses them).
    Returns (False, traceback) only when the common hexahedron tables cannot be produced; failures of single table
    modules are left in TABLE_FAILURES (their files become stubs without definitions)."""
    from . import gen_tables

    # the probes of the table modules must not leak interpreter state into the implementation runs
    import warnings

    try:
        import numpy as np

        saved_err = np.geterr()
    except Exception:
        np = None
    saved_filters = warnings.filters[:]
    try:
        files, failures = gen_tables.generate_files()
    except Exception:  # the translator itself is broken
        return False, traceback.format_exc()
    finally:
        if np is not None:
            np.seterr(**saved_err)
        warnings.filters[:] = saved_filters
    TABLE_FAILURES.clear()
    TABLE_FAILURES.update(failures)
    gen = LEAN / "CBV" / "Gen"
    with Lock(LEAN / ".lake" / "cbv.lock"):
        gen.mkdir(parents=True, exist_ok=True)
        for stem, text in files.items():
            target = gen / f"{stem}.lean"
            if not target.exists() or target.read_text() != text:
                target.write_text(text)
        for old in gen.glob("*.lean"):
            if old.stem not in files:
                old.unlink()
    if "Tables" in failures:
        return False, failures["Tables"]
    return True, hashlib.sha256("".join(files[k] for k in sorted(files)).encode()).hexdigest()[:16]


def import_closure(modules: Sequence[str]) -> List[str]:
    """All modules of this library that the given ones import, directly or not (read from the import lines)."""
    seen: List[str] = []
    todo = list(modules)
    while todo:
        m = todo.pop()
        if m in seen or not m.startswith("CBV"):
            continue
        seen.append(m)
        f = LEAN / (m.replace(".", "/") + ".lean")
        if f.exists():
            todo += re.findall(r"^import\s+(CBV[\w.]*)", f.read_text(), re.M)
    return seen


def build(modules: Sequence[str]) -> Tuple[bool, str]:
    with Lock(LEAN / ".lake" / "cbv.lock"):
        rc, out = lake(["build", *modules])
    return rc == 0, out


def theorem_names(module: str) -> Tuple[List[str], int]:
    """Fully qualified names of the theorems of a Props module and the number of `example`s in it."""
    path = LEAN / (module.replace(".", "/") + ".lean")
    src = strip_comments(path.read_text())
    names: List[str] = []
    stack: List[str] = []
    examples = 0
    for line in src.splitlines():
        m = re.match(r"^\s*namespace\s+(\S+)", line)
        if m:
            stack.append(m.group(1))
            continue
        m = re.match(r"^\s*end\s+(\S+)", line)
        if m and stack and stack[-1] == m.group(1):
            stack.pop()
            continue
        m = re.match(r"^\s*(?:@\[[^\]]*\]\s*)?(?:private\s+|protected\s+)?theorem\s+([A-Za-z0-9_.']+)", line)
        if m:
            names.append(".".join(stack + [m.group(1)]))
        if re.match(r"^\s*example\b", line):
            examples += 1
    return names, examples


def audit(module: str) -> Dict[str, Any]:
    """grep for forbidden constructs in all of lean/CBV + `#print axioms` of every theorem of module."""
    res: Dict[str, Any] = {"ok": True, "problems": [], "axioms": {}}
    for f in sorted((LEAN / "CBV").rglob("*.lean")) + [LEAN / "Driver.lean"]:
        if not f.exists():
            continue
        hit = FORBIDDEN.search(strip_comments(f.read_text()))
        if hit:
            res["ok"] = False
            res["problems"].append(f"{f.relative_to(LEAN)}: forbidden construct `{hit.group(0).strip()}`")
    names, examples = theorem_names(module)
    ns = None
    res["theorems"] = names
    res["examples"] = examples
    adir = LEAN / ".audit"
    adir.mkdir(exist_ok=True)
    afile = adir / (module.replace(".", "_") + ".lean")
    lines = [f"import {module}"]
    if ns:
        lines.append(f"open {ns}")
    for n in names:
        lines.append(f"#print axioms {n}")
    afile.write_text("\n".join(lines) + "\n")
    rc, out = lake(["env", "lean", str(afile)])
    if rc != 0:
        res["ok"] = False
        res["problems"].append("audit file failed to elaborate: " + out[-2000:])
        return res
    for m in re.finditer(r"'([^']+)' depends on axioms: \[([^\]]*)\]", out, re.S):
        ax = [a.strip() for a in m.group(2).replace("\n", " ").split(",") if a.strip()]
        res["axioms"][m.group(1)] = ax
        bad = [a for a in ax if a not in ALLOWED_AXIOMS]
        if bad:
            res["ok"] = False
            res["problems"].append(f"{m.group(1)} depends on disallowed axioms {bad}")
    for m in re.finditer(r"'([^']+)' does not depend on any axioms", out):
        res["axioms"][m.group(1)] = []
    missing = [n for n in names if not any(k == n or k.endswith("." + n) for k in res["axioms"])]
    if missing:
        res["ok"] = False
        res["problems"].append(f"no axiom report for {missing}")
    return res


def model_modules_for(lines: Sequence[str]) -> List[str]:
    """The model modules that answer the given requests (`cNN.entry ...` is answered by CBV.Model.CNN)."""
    pre = sorted({l.split(".", 1)[0].strip() for l in lines if "." in l.split(" ", 1)[0]})
    return [f"CBV.Model.{p.upper()}" for p in pre if re.fullmatch(r"c\d\d", p)]


def write_driver(mods: Sequence[str]) -> Path:
    """A line-protocol interpreter that imports only the given model modules (so that a model that does not build
    for the current source takes down only the checks that use it).  Same protocol as Driver.lean."""
    adir = LEAN / ".audit"
    adir.mkdir(exist_ok=True)
    name = "Driver_" + "_".join(m.rsplit(".", 1)[1] for m in mods) + ".lean"
    arms = "\n".join(f'  | some "{m.rsplit(".", 1)[1].lower()}" => CBV.{m.rsplit(".", 1)[1]}.handle op args' for m in mods)
    text = (
        "\n".join(f"import {m}" for m in mods)
        + """

def dispatch (op : String) (args : List String) : Option String :=
  match (op.splitOn ".").head? with
"""
        + arms
        + """
  | _ => none

def answer (line : String) : String :=
  let toks := (line.trimAscii.toString.splitOn " ").filter (· ≠ "")
  match toks with
  | [] => "bad-op"
  | op :: args => (dispatch op args).getD "bad-op"

partial def loop (h : IO.FS.Stream) (out : IO.FS.Stream) : IO Unit := do
  let line ← h.getLine
  if line.isEmpty then return ()
  out.putStrLn (answer line)
  loop h out

def main : IO Unit := do
  let out ← IO.getStdout
  loop (← IO.getStdin) out
"""
    )
    f = adir / name
    if not f.exists() or f.read_text() != text:
        f.write_text(text)
    return f


def run_driver(lines: Sequence[str], timeout: int = 1800) -> List[str]:
    """Pipes request lines to the Lean model (an interpreted driver over the model modules the requests address),
    returns the answer lines."""
    if not lines:
        return []
    mods = model_modules_for(lines)
    if not mods:
        raise DriverError("no request addresses a model module")
    ok, out = build(mods)
    if not ok:
        errs = re.findall(r"^error: (.*)$", out, re.M)[:6]
        raise DriverError(f"lake build {' '.join(mods)} failed: " + " | ".join(errs or [out[-800:]]))
    driver = write_driver(mods)
    data = "\n".join(lines) + "\n"
    p = subprocess.run(
        ["lake", "env", "lean", "--run", str(driver)],
        cwd=LEAN,
        input=data,
        capture_output=True,
        text=True,
        timeout=timeout,
    )
    out = p.stdout.splitlines()
    if p.returncode != 0 or len(out) != len(lines):
        raise DriverError(f"driver rc={p.returncode}, {len(out)} answers for {len(lines)} requests\n{p.stderr[-3000:]}")
    return out


class DriverError(Exception):
    pass


# --------------------------------------------------------------------------- the property interface
class Check:
    """One property.  Subclasses fill in the hooks; `main` runs the pipeline."""

    pid = "C00"
    props_module = "CBV.Props.C00"
    extra_modules: List[str] = []
    assumptions: List[str] = []
    partial_note = ""
    rule = ""

    # ---- hooks
    def corpus(self) -> List[dict]:
        d = CORPUS / self.pid.lower()
        out = []
        if d.is_dir():
            for f in sorted(d.glob("*.json")):
                c = json.loads(f.read_text())
                c.setdefault("origin", f"corpus/{f.name}")
                out.append(c)
        return out

    def gen_cases(self, rng: random.Random, tier: str) -> List[dict]:
        return []

    def search_cases(self, rng: random.Random, tier: str) -> List[dict]:
        """Extra cases for the failing-input search (default: a fresh batch of gen_cases)."""
        return self.gen_cases(rng, tier)

    def run_impl(self, case: dict) -> Any:
        raise NotImplementedError

    def requests(self, case: dict, impl: Any) -> List[str]:
        return []

    def compare(self, case: dict, impl: Any, model: List[str]) -> Optional[str]:
        return None

    def oracle(self, case: dict, impl: Any) -> List[dict]:
        """Direct property oracle on the implementation: list of {site, what}."""
        return []

    def nontrivial_key(self, case: dict, impl: Any) -> Optional[str]:
        """A key identifying the case when it is non-trivial, else None."""
        return json.dumps(case, sort_keys=True, default=str)

    def classify(self, case: dict, impl: Any) -> str:
        return case.get("kind", "case")

    def shrink_candidates(self, case: dict) -> List[dict]:
        """Smaller variants of a failing case (delta debugging); default: none."""
        return []

    def static_checks(self) -> List[str]:
        """Property-specific extra obligations on the generated tables etc.; returns problems."""
        return []


def known_findings() -> dict:
    """known_findings.json (+ per-property fragments findings/Cxx.json while a property is being built)."""
    res: Dict[str, list] = {"findings": [], "fixed": []}
    files = [ROOT / "known_findings.json", *sorted((ROOT / "findings").glob("*.json"))]
    for f in files:
        if f.exists():
            d = json.loads(f.read_text())
            res["findings"] += d.get("findings", [])
            res["fixed"] += d.get("fixed", [])
    return res


def jsonable(x: Any) -> Any:
    try:
        json.dumps(x)
        return x
    except TypeError:
        return json.loads(json.dumps(x, default=str))


def write_replay(pid: str, seed: int, n: int, payload: dict) -> Path:
    REPLAYS.mkdir(exist_ok=True)
    p = REPLAYS / f"{pid}-{seed}-{n}.json"
    p.write_text(json.dumps(jsonable(payload), indent=1))
    return p


def main(check: Check, argv: Optional[List[str]] = None) -> int:
    import argparse

    ap = argparse.ArgumentParser()
    ap.add_argument("--tier", default=os.environ.get("VERIF_TIER", "quick"), choices=["quick", "thorough"])
    ap.add_argument("--replay", default=None)
    ap.add_argument("--seed", type=int, default=int(os.environ.get("VERIF_SEED", "20260929")))
    args = ap.parse_args(argv)
    t0 = time.time()
    try:
        return _run(check, args.tier, args.seed, args.replay, t0)
    except subprocess.TimeoutExpired as e:
        log(f"machinery time-out: {e}")
        return 2
    except Exception:
        log("internal error of the machinery:\n" + traceback.format_exc())
        return 2


def _impl_one(args):
    check, c = args
    try:
        return check.run_impl(c)
    except Exception:
        return {"harness_error": traceback.format_exc()[-1500:]}


def _run_impl_all(check: Check, cases: List[dict]) -> List[Any]:
    """Runs the implementation on every case; in worker processes when the check asks for it."""
    workers = getattr(check, "workers", 1)
    if workers > 1 and len(cases) >= 4 * workers:
        import multiprocessing as mp

        with mp.get_context("fork").Pool(workers) as pool:
            return pool.map(_impl_one, [(check, c) for c in cases], chunksize=max(1, len(cases) // (8 * workers)))
    return [_impl_one((check, c)) for c in cases]


def _eval_cases(check: Check, cases: List[dict], with_model: bool, stats: dict):
    """Runs implementation, model, compare, oracle on cases.  Returns (disagreements, violations)."""
    impls: List[Any] = []
    reqs: List[List[str]] = []
    raw = _run_impl_all(check, cases)
    for c, out in zip(cases, raw):
        impls.append(out)
        r: List[str] = []
        if with_model and not (isinstance(out, dict) and "harness_error" in out):
            try:
                r = check.requests(c, out)
            except Exception:
                impls[-1] = {"harness_error": traceback.format_exc()[-1500:]}
        reqs.append(r)
    flat = [l for r in reqs for l in r]
    answers: List[str] = []
    driver_problem = None
    if with_model and flat:
        try:
            answers = run_driver(flat)
        except DriverError as e:
            # a driver process that died for a reason outside the model (memory pressure, a signal) must not
            # become an alarm: run it once more; only a failure that repeats is reported as a broken tie
            log(f"driver failed once, retrying: {str(e)[:300]}")
            try:
                answers = run_driver(flat)
            except DriverError as e2:
                driver_problem = str(e2)
    disagreements: List[dict] = []
    violations: List[dict] = []
    pos = 0
    for c, out, r in zip(cases, impls, reqs):
        stats["evaluations"] += 1
        if isinstance(out, dict) and "harness_error" in out:
            disagreements.append({"case": c, "why": "harness error", "detail": out["harness_error"]})
            continue
        k = check.classify(c, out)
        stats["histogram"][k] = stats["histogram"].get(k, 0) + 1
        key = check.nontrivial_key(c, out)
        if key is not None:
            stats["keys"].add(hashlib.sha1(key.encode()).hexdigest())
        if with_model and r:
            if driver_problem is not None:
                disagreements.append({"case": c, "why": "driver failed", "detail": driver_problem})
            else:
                ans = answers[pos : pos + len(r)]
                pos += len(r)
                stats["model_requests"] += len(r)
                try:
                    why = check.compare(c, out, ans)
                except Exception:
                    why = "compare raised: " + traceback.format_exc()[-800:]
                if why:
                    disagreements.append({"case": c, "why": why, "impl": jsonable(out), "model": ans, "requests": r})
        try:
            for v in check.oracle(c, out):
                v = dict(v)
                v["case"] = c
                violations.append(v)
        except Exception:
            disagreements.append({"case": c, "why": "oracle raised", "detail": traceback.format_exc()[-1500:]})
        if len(stats["samples"]) < 3 and key is not None:
            stats["samples"].append({"case": jsonable(c), "implementation": jsonable(out)})
    return disagreements, violations


def _shrink(check: Check, case: dict, site: str, budget: float = 25.0) -> Optional[dict]:
    """Greedy minimisation: keep a smaller variant as long as the oracle still reports the same site."""
    ts = time.time()
    best, improved = case, True
    shrunk = False
    while improved and time.time() - ts < budget:
        improved = False
        for cand in check.shrink_candidates(best):
            if time.time() - ts > budget:
                break
            out = _impl_one((check, cand))
            if isinstance(out, dict) and "harness_error" in out:
                continue
            try:
                sites = {v.get("site") for v in check.oracle(cand, out)}
            except Exception:
                continue
            if site in sites:
                best, improved, shrunk = cand, True, True
                break
    return best if shrunk else None


def _run(check: Check, tier: str, seed: int, replay: Optional[str], t0: float) -> int:
    pid = check.pid
    rng = random.Random(f"{pid}-{seed}")
    if not replay and REPLAYS.is_dir():
        for old in REPLAYS.glob(f"{pid}-{seed}-*.json"):  # replays of an earlier run with this seed would only confuse
            old.unlink()
    red: List[str] = []  # names of proof obligations / ties that no longer check
    detail: Dict[str, Any] = {}

    ok, info = regenerate_tables()
    detail["tables"] = info if ok else "FAILED"
    if not ok:
        red.append("translator cbv/gen_tables.py could not read the source tables: " + info[-600:])

    modules = [check.props_module, *check.extra_modules]
    own_model = f"CBV.Model.{pid}"
    targets = [*modules] + ([own_model] if (LEAN / "CBV" / "Model" / f"{pid}.lean").exists() else [])
    # a table module whose translator failed concerns this property only if its Lean modules import those tables
    used = {m.rsplit(".", 1)[1] for m in import_closure(targets) if m.startswith("CBV.Gen.")}
    built, out = build(targets)
    if not built:  # tables that could not be produced matter only when something that is built here names them
        for stem, tb in sorted(TABLE_FAILURES.items()):
            if stem in used and stem != "Tables":
                red.append(f"translator of CBV/Gen/{stem}.lean could not translate part of the current source: " + tb[-600:])
    detail["build_ok"] = built
    if not built:
        errs = re.findall(r"^error: (.*)$", out, re.M)[:8]
        red.append(f"lake build {' '.join(modules)} failed: " + " | ".join(errs or [out[-800:]]))
        detail["build_log_tail"] = out[-4000:]
    aud: Dict[str, Any] = {"theorems": [], "examples": 0, "axioms": {}, "problems": []}
    if built:
        aud = audit(check.props_module)
        if not aud["ok"]:
            red.extend("audit: " + p for p in aud["problems"])
    else:
        names, ex = theorem_names(check.props_module)
        aud["theorems"], aud["examples"] = names, ex
    obligations = len(aud["theorems"]) + aud["examples"]
    discharged = obligations if built and not aud["problems"] else 0

    if tier == "thorough" and built:
        with Lock(LEAN / ".lake" / "cbv.lock"):
            rc, lout = lake(["env", "leanchecker", check.props_module], timeout=3000)
        detail["leanchecker"] = "ok" if rc == 0 else lout[-1500:]
        if rc != 0:
            red.append("leanchecker rejected " + check.props_module)

    for p in check.static_checks():
        red.append("static: " + p)

    stats: Dict[str, Any] = {"evaluations": 0, "histogram": {}, "keys": set(), "samples": [], "model_requests": 0}
    if replay:
        payload = json.loads(Path(replay).read_text())
        cases = [payload["case"]] if "case" in payload else []
    else:
        cases = check.corpus() + check.gen_cases(rng, tier)
    # the model side needs only the model modules (run_driver builds them itself): a Props module that no longer builds
    # must not switch the correspondence off, or a broken obligation would hide the disagreeing inputs
    disagreements, violations = _eval_cases(check, cases, True, stats)
    if replay:
        print(json.dumps({"disagreements": jsonable(disagreements), "violations": jsonable(violations)}, indent=1))
    for d in disagreements[:5]:
        red.append("correspondence: " + d["why"][:300])

    # failing-input search when something is red and the oracle has found nothing new yet
    # (violations that are known findings do not count: they say nothing about what broke)
    searched = 0
    known_now = {f["site"] for f in known_findings().get("findings", []) if f["property"] == pid}
    if red and not [v for v in violations if v.get("site") not in known_now] and not replay:
        budget = 60 if tier == "quick" else 600
        ts = time.time()
        extra = [d["case"] for d in disagreements]
        while time.time() - ts < budget:
            batch = check.search_cases(rng, tier)
            if not batch:
                break
            st2 = {"evaluations": 0, "histogram": {}, "keys": set(), "samples": [], "model_requests": 0}
            _, more = _eval_cases(check, batch, False, st2)
            violations = violations + more
            if [v for v in more if v.get("site") not in known_now]:
                searched += st2["evaluations"]
                break
            searched += st2["evaluations"]
            if searched > 200000:
                break
        detail["search_evaluations"] = searched
        del extra

    kf = known_findings()
    known_sites = {f["site"]: f for f in kf.get("findings", []) if f["property"] == pid}
    new_violations = [v for v in violations if v.get("site") not in known_sites]
    seen_known = {}
    for v in violations:
        if v.get("site") in known_sites:
            seen_known.setdefault(v["site"], v)

    exit_code = 0
    lines: List[str] = []
    for site, v in seen_known.items():
        lines.append(f"KNOWN-FINDING: property={pid} {site}: {known_sites[site]['what']}")
    if new_violations:
        by_site: Dict[str, dict] = {}
        for v in new_violations:
            by_site.setdefault(v.get("site", "?"), v)
        for n, (site, v) in enumerate(by_site.items()):
            small = _shrink(check, v["case"], site) if n < 3 else None
            if small is not None:
                v = dict(v, case=small, minimised_from=v["case"])
            path = write_replay(
                pid,
                seed,
                n,
                {
                    "property": pid,
                    "site": site,
                    "what": v.get("what"),
                    "case": v["case"],
                    "observed": v.get("observed"),
                    "expected": v.get("expected"),
                    "rerun": f"./check {pid} --replay replays/{pid}-{seed}-{n}.json",
                    "minimised_from": v.get("minimised_from"),
                    "broken_obligations": red,
                },
            )
            lines.append(f"VIOLATION property={pid} replay={path.relative_to(ROOT)}")
        exit_code = 1
    elif red:
        path = write_replay(
            pid,
            seed,
            0,
            {
                "property": pid,
                "no_failing_input_found": True,
                "broken_obligations": red,
                "disagreements": disagreements[:5],
                "search_evaluations": searched,
                "detail": detail,
            },
        )
        lines.append(f"VIOLATION property={pid} replay={path.relative_to(ROOT)} no-failing-input-found")
        exit_code = 1

    wall = time.time() - t0
    cov = {
        "obligations": max(obligations, 0),
        "discharged": discharged,
        "checker_cmd": f"cd lean && lake build {' '.join(modules)} && lake env lean .audit/{check.props_module.replace('.', '_')}.lean",
        "trusted_base": TRUSTED_BASE,
        "theorems": aud["theorems"],
        "nonvacuity_examples": aud["examples"],
        "axioms": aud["axioms"],
        "evaluations": stats["evaluations"] + searched,
        "distinct_nontrivial": len(stats["keys"]),
        "rule": check.rule,
        "samples": stats["samples"],
        "input_distribution": stats["histogram"],
        "model_requests": stats["model_requests"],
        "disagreements": len(disagreements),
        "oracle_violations": len(violations),
        "known_findings_seen": sorted(seen_known),
        "tables_sha": detail.get("tables"),
        "broken_obligations": red,
        "partial": check.partial_note,
    }
    if "leanchecker" in detail:
        cov["leanchecker"] = detail["leanchecker"]
    ev = {
        "property_id": pid,
        "tier": tier,
        "seed": seed,
        "level": "proof",
        "coverage": cov,
        "assumptions": check.assumptions,
        "wall_s": round(wall, 2),
        "violations": len(new_violations) if new_violations else (1 if red else 0),
    }
    if not replay:
        EVID.mkdir(exist_ok=True)
        (EVID / f"{pid}.json").write_text(json.dumps(jsonable(ev), indent=1))
    for l in lines:
        print(l)
    log(
        f"[{pid}] tier={tier} seed={seed} obligations={obligations} discharged={discharged} "
        f"cases={stats['evaluations']} nontrivial={len(stats['keys'])} disagreements={len(disagreements)} "
        f"oracle_violations={len(violations)} red={len(red)} wall={wall:.1f}s exit={exit_code}"
    )
    for r in red[:10]:
        log("   red: " + r[:400])
    return exit_code
