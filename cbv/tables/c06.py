"""Tables of the current source for C06.

Order: plain value tables first (the ones `CBV/Model/C06.lean` names: header and footer tokens; the tokenizer is the trusted
one of the harness), then every translator that parses or probes the source, each in its own `emit.guard` group (they are
named only by `CBV/Props/C06.lean`, in tie theorems against literals of the model)."""


def _vector_format(emit):
    # the format string of constants.vector_format, read from the source: literal pieces and
    # (component index, format spec) of every formatted value, in order
    import ast
    import inspect
    import textwrap

    from classy_blocks.util import constants

    fn = ast.parse(textwrap.dedent(inspect.getsource(constants.vector_format))).body[0]
    rets = [n for n in ast.walk(fn) if isinstance(n, ast.Return)]
    assert len(rets) == 1 and isinstance(rets[0].value, ast.JoinedStr), "vector_format is no longer a single f-string"
    arg = fn.args.args[0].arg
    pieces = []
    for v in rets[0].value.values:
        if isinstance(v, ast.Constant):
            pieces.append(("lit", str(v.value)))
        else:
            assert isinstance(v, ast.FormattedValue) and isinstance(v.value, ast.Subscript), ast.dump(v)
            assert isinstance(v.value.value, ast.Name) and v.value.value.id == arg, ast.dump(v)
            spec = "" if v.format_spec is None else "".join(str(c.value) for c in v.format_spec.values)
            conv = "" if v.conversion == -1 else "!" + chr(v.conversion)
            pieces.append((ast.unparse(v.value.slice), conv + spec))
    emit(
        "c06VectorFormat",
        "List (String × String)",
        pieces,
        "constants.vector_format (ast of the current source): ('lit', text) or (component index, format spec), in order",
    )


def _edge_order(emit):
    # probe: one operation with a curved edge in every storage slot; which vertex pairs
    # EdgeList.add_from_operation creates, in which order and direction
    from classy_blocks.construct.edges import Arc
    from classy_blocks.construct.flat.face import Face
    from classy_blocks.construct.operations.loft import Loft
    from classy_blocks.items.vertex import Vertex
    from classy_blocks.lists.edge_list import EdgeList

    pts = [[0, 0, 0], [1, 0, 0], [1, 1, 0], [0, 1, 0], [0, 0, 1], [1, 0, 1], [1, 1, 1], [0, 1, 1]]
    bottom = Face(pts[:4], [Arc([0.5, -0.2, 0]), Arc([1.2, 0.5, 0]), Arc([0.5, 1.2, 0]), Arc([-0.2, 0.5, 0])])
    top = Face(pts[4:], [Arc([0.5, -0.2, 1]), Arc([1.2, 0.5, 1]), Arc([0.5, 1.2, 1]), Arc([-0.2, 0.5, 1])])
    probe = Loft(bottom, top)
    for i, p in enumerate([[-0.2, 0, 0.5], [1.2, 0, 0.5], [1.2, 1, 0.5], [-0.2, 1, 0.5]]):
        probe.add_side_edge(i, Arc(p))
    vertices = [Vertex(p, i) for i, p in enumerate(pts)]
    created = EdgeList().add_from_operation(vertices, probe)
    emit(
        "c06EdgeOrder",
        "List (Nat × Nat)",
        [(e.vertex_1.index, e.vertex_2.index) for _, _, e in created],
        "EdgeList.add_from_operation on a probe (vertex index = corner): vertex pairs of the created edges, in order",
    )


def _vtk_header(emit):
    # probe: what write_vtk prints before the data set (no vertices, no blocks)
    import os
    import shutil
    import tempfile

    from classy_blocks.util.vtk_writer import write_vtk

    from cbv import core

    tmp = tempfile.mkdtemp(prefix="cbv_c06_tab_", dir=str(core.ROOT / "evidence"))
    try:
        path = os.path.join(tmp, "probe.vtk")
        write_vtk(path, [], [])
        words = open(path).read().split()
    finally:
        shutil.rmtree(tmp, ignore_errors=True)
    emit("c06VtkHeader", "List String", words[: words.index("DATASET")], "words write_vtk prints before DATASET")


def emit_all(emit):
    from classy_blocks.util import constants

    from cbv.props.c06 import tokenize

    # plain values (named by the model)
    emit("c06Header", "List String", tokenize(constants.MESH_HEADER), "tokens of constants.MESH_HEADER")
    emit("c06Footer", "List String", tokenize(constants.MESH_FOOTER), "tokens of constants.MESH_FOOTER")
    # translators of the source (named by tie theorems only)
    emit.guard(_vector_format, emit)
    emit.guard(_edge_order, emit)
    emit.guard(_vtk_header, emit)
