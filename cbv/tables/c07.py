"""C07 — tables of the current source used by CBV.Model.C07 / CBV.Props.C07.

Values are read from the imported package (or from a probe object whose 12 edge data are
distinguishable labels); nothing is computed here.
"""

from __future__ import annotations


def emit_all(emit) -> None:
    from fractions import Fraction

    import classy_blocks as cb
    from classy_blocks.construct import edges as E
    from classy_blocks.items.edges.factory import factory
    from classy_blocks.util import constants
    from classy_blocks.util.tools import edge_map

    # the directed corner pair every ordered pair of edge_map stands for
    dirs = []
    for c1 in range(8):
        for c2, loc in edge_map[c1].items():
            if loc is not None:
                dirs.append((c1, c2, int(loc.corner_1), int(loc.corner_2)))
    emit(
        "c07EdgeDir",
        "List (Nat × Nat × Nat × Nat)",
        dirs,
        "tools.edge_map[c1][c2] -> (loc.corner_1, loc.corner_2): the directed pair edge data is specified for",
    )

    # Operation.edges + Frame.get_all_beams on a probe operation: slot s = bottom 0-3, top 4-7, side 8-11
    hexa = [[0, 0, 0], [1, 0, 0], [1, 1, 0], [0, 1, 0], [0, 0, 1], [1, 0, 1], [1, 1, 1], [0, 1, 1]]
    bottom = cb.Face(hexa[:4], [cb.Project(f"s{i}") for i in range(4)])
    top = cb.Face(hexa[4:], [cb.Project(f"s{i + 4}") for i in range(4)])
    op = cb.Loft(bottom, top)
    for i in range(4):
        op.add_side_edge(i, cb.Project(f"s{i + 8}"))
    beams = [(int(a), int(b), int(d.label[0][1:])) for a, b, d in op.edges.get_all_beams()]
    emit(
        "c07OpBeams",
        "List (Nat × Nat × Nat)",
        beams,
        "Operation.edges.get_all_beams() of a probe operation: (corner_1, corner_2, slot) with slot = bottom 0-3, top 4-7, side 8-11",
    )

    tol = Fraction(constants.TOL).limit_denominator(10**12)
    emit("c07Tol", "Nat × Nat", (tol.numerator, tol.denominator), "constants.TOL as a fraction")

    emit(
        "c07Kinds",
        "List (String × String)",
        [(k, v.__name__) for k, v in factory.kinds.items()],
        "edge kinds registered with items.edges.factory -> Edge class",
    )

    # which EdgeData classes override the reverse() hook (direction-dependent data)
    classes = [E.Line, E.Arc, E.Origin, E.Angle, E.Project, E.OnCurve, E.Spline, E.PolyLine]
    base = getattr(E.EdgeData, "reverse", None)
    emit(
        "c07Reversing",
        "List String",
        [c.kind for c in classes if getattr(c, "reverse", None) is not base],
        "kinds of construct.edges whose class overrides EdgeData.reverse()",
    )

    # the validity tests and the find / add logic as written (ast of the current source, comments and docstrings dropped)
    import ast
    import inspect
    import textwrap

    from classy_blocks.items.edges.arcs.arc_base import ArcEdgeBase
    from classy_blocks.items.edges.edge import Edge
    from classy_blocks.lists.edge_list import EdgeList

    def fn(obj):
        return ast.parse(textwrap.dedent(inspect.getsource(obj))).body[0]

    def ret(st):
        return "return " + ast.unparse(st.value)

    def lines(node):
        out = []
        for st in node.body:
            if isinstance(st, ast.Expr) and isinstance(st.value, ast.Constant):
                continue  # docstring
            if isinstance(st, ast.If):
                body = [b for b in st.body if not isinstance(b, ast.Assign)]
                out.append("if " + ast.unparse(st.test) + ": " + "; ".join(ret(b) if isinstance(b, ast.Return) else ast.unparse(b) for b in body))
            elif isinstance(st, ast.Return):
                out.append(ret(st))
            elif isinstance(st, ast.For):
                out.append("for " + ast.unparse(st.target) + " in " + ast.unparse(st.iter))
                out += lines(st)
            elif isinstance(st, ast.Raise):
                out.append("raise " + (st.exc.func.id if isinstance(st.exc, ast.Call) else ast.unparse(st.exc)))
            elif isinstance(st, ast.Try):
                out.append("try: " + "; ".join(ast.unparse(b) for b in st.body))
                for h in st.handlers:
                    hb = [b for b in h.body if not isinstance(b, ast.If)]
                    out.append("except " + ast.unparse(h.type) + ": " + "; ".join(ast.unparse(b) for b in hb))
                    for b in h.body:
                        if isinstance(b, ast.If):
                            out.append("if " + ast.unparse(b.test) + ": " + "; ".join(ast.unparse(x) for x in b.body))
            else:
                out.append(ast.unparse(st))
        return out

    emit(
        "c07SourceTests",
        "List (String × List String)",
        [
            ("Edge.is_valid", lines(fn(Edge.is_valid.fget))),
            ("ArcEdgeBase.is_valid", lines(fn(ArcEdgeBase.is_valid.fget))),
            ("EdgeList.find", lines(fn(EdgeList.find))),
            ("EdgeList.add", lines(fn(EdgeList.add))),
        ],
        "the statements of the validity tests and of EdgeList.find / add, unparsed from the current source",
    )
