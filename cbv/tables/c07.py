"""C07 — tables of the current source used by CBV.Model.C07 / CBV.Props.C07.

Values are read from the imported package (or from a probe object whose 12 edge data are
distinguishable labels); nothing is computed here.

Round 6b: the two tables the *model* names (`c07EdgeDir`, `c07Tol`: plain values) come first; every other group runs
inside its own `emit.guard`.  The pinned statement outline (`c07SourceTests`) is printed from a normalised tree: comments,
docstrings, blank lines, type annotations and print / report / warn statements are not seen, every parameter (other than
`self`) and every local is renamed `v0, v1, …` in order of first appearance, literals are printed by `ast.unparse`.
"""

from __future__ import annotations

import ast
import inspect
import textwrap
from typing import List


def normalised(obj) -> ast.FunctionDef:
    """the function's tree with parameters / locals renamed v0, v1, … and annotations, docstrings, reports removed"""
    fn = ast.parse(textwrap.dedent(inspect.getsource(obj))).body[0]
    assert isinstance(fn, ast.FunctionDef)
    order: List[str] = [a.arg for a in fn.args.args + fn.args.kwonlyargs if a.arg != "self"]

    class Collect(ast.NodeVisitor):
        def visit_Name(self, node):
            if isinstance(node.ctx, ast.Store) and node.id not in order:
                order.append(node.id)

        def visit_ExceptHandler(self, node):
            if node.name and node.name not in order:
                order.append(node.name)
            self.generic_visit(node)

    Collect().visit(fn)
    new = {n: f"v{i}" for i, n in enumerate(order)}

    def is_report(st):
        if isinstance(st, ast.Expr) and isinstance(st.value, ast.Constant):
            return True
        if isinstance(st, ast.Expr) and isinstance(st.value, ast.Call):
            f = st.value.func
            return (f.id if isinstance(f, ast.Name) else getattr(f, "attr", "")) in ("print", "report", "warn")
        return False

    class Rewrite(ast.NodeTransformer):
        def visit_Name(self, node):
            return ast.copy_location(ast.Name(id=new.get(node.id, node.id), ctx=node.ctx), node)

        def visit_arg(self, node):
            return ast.arg(arg=new.get(node.arg, node.arg), annotation=None)

        def visit_ExceptHandler(self, node):
            self.generic_visit(node)
            node.name = new.get(node.name, node.name) if node.name else None
            return node

        def visit_AnnAssign(self, node):
            self.generic_visit(node)
            if node.value is None:
                return None
            return ast.copy_location(ast.Assign(targets=[node.target], value=node.value), node)

        def generic_visit(self, node):
            super().generic_visit(node)
            for field in ("body", "orelse", "finalbody"):
                stmts = getattr(node, field, None)
                if isinstance(stmts, list) and stmts and isinstance(stmts[0], ast.stmt):
                    kept = [st for st in stmts if not is_report(st)]
                    setattr(node, field, kept or ([ast.Pass()] if field == "body" else []))
            return node

    fn.returns = None
    fn = Rewrite().visit(fn)
    return ast.fix_missing_locations(fn)


def outline(node) -> List[str]:
    """one line per statement of a (normalised) body: tests in order, comparison operators, what is returned / raised"""

    def ret(st):
        return "return " + ast.unparse(st.value)

    out = []
    for st in node.body:
        if isinstance(st, ast.If):
            body = st.body
            out.append("if " + ast.unparse(st.test) + ": " + "; ".join(ret(b) if isinstance(b, ast.Return) else ast.unparse(b) for b in body))
        elif isinstance(st, ast.Return):
            out.append(ret(st))
        elif isinstance(st, ast.For):
            out.append("for " + ast.unparse(st.target) + " in " + ast.unparse(st.iter))
            out += outline(st)
        elif isinstance(st, ast.Raise):
            out.append("raise " + (st.exc.func.id if isinstance(st.exc, ast.Call) else ast.unparse(st.exc)))
        elif isinstance(st, ast.Try):
            out.append("try: " + "; ".join(ast.unparse(b) for b in st.body))
            for h in st.handlers:
                hb = [b for b in h.body if not isinstance(b, ast.If)]
                out.append("except " + ast.unparse(h.type) + ": " + "; ".join(ast.unparse(b) for b in hb))
                for b in h.body:
                    if isinstance(b, ast.If):
                        out.append("if " + ast.unparse(b.test) + ": " + "; ".join(ast.unparse(x) for x in b.body))
        else:
            out.append(ast.unparse(st))
    return out


def emit_all(emit) -> None:
    from fractions import Fraction

    import classy_blocks as cb
    from classy_blocks.construct import edges as E
    from classy_blocks.items.edges.factory import factory
    from classy_blocks.util import constants
    from classy_blocks.util.tools import edge_map

    # ---------------------------------------------------------------- value tables the model names
    # the directed corner pair every ordered pair of edge_map stands for
    dirs = []
    for c1 in range(8):
        for c2, loc in edge_map[c1].items():
            if loc is not None:
                dirs.append((c1, c2, int(loc.corner_1), int(loc.corner_2)))
    emit(
        "c07EdgeDir",
        "List (Nat × Nat × Nat × Nat)",
        dirs,
        "tools.edge_map[c1][c2] -> (loc.corner_1, loc.corner_2): the directed pair edge data is specified for",
    )
    tol = Fraction(constants.TOL).limit_denominator(10**12)
    emit("c07Tol", "Nat × Nat", (tol.numerator, tol.denominator), "constants.TOL as a fraction")

    # ---------------------------------------------------------------- probes and tie-only tables, each on its own
    def op_beams() -> None:
        # Operation.edges + Frame.get_all_beams on a probe operation: slot s = bottom 0-3, top 4-7, side 8-11
        hexa = [[0, 0, 0], [1, 0, 0], [1, 1, 0], [0, 1, 0], [0, 0, 1], [1, 0, 1], [1, 1, 1], [0, 1, 1]]
        bottom = cb.Face(hexa[:4], [cb.Project(f"s{i}") for i in range(4)])
        top = cb.Face(hexa[4:], [cb.Project(f"s{i + 4}") for i in range(4)])
        op = cb.Loft(bottom, top)
        for i in range(4):
            op.add_side_edge(i, cb.Project(f"s{i + 8}"))
        beams = [(int(a), int(b), int(d.label[0][1:])) for a, b, d in op.edges.get_all_beams()]
        emit(
            "c07OpBeams",
            "List (Nat × Nat × Nat)",
            beams,
            "Operation.edges.get_all_beams() of a probe operation: (corner_1, corner_2, slot) with slot = bottom 0-3, top 4-7, side 8-11",
        )

    emit.guard(op_beams)

    def kinds() -> None:
        emit(
            "c07Kinds",
            "List (String × String)",
            [(k, v.__name__) for k, v in factory.kinds.items()],
            "edge kinds registered with items.edges.factory -> Edge class",
        )

    emit.guard(kinds)

    def reversing() -> None:
        # which EdgeData classes override the reverse() hook (direction-dependent data)
        classes = [E.Line, E.Arc, E.Origin, E.Angle, E.Project, E.OnCurve, E.Spline, E.PolyLine]
        base = getattr(E.EdgeData, "reverse", None)
        emit(
            "c07Reversing",
            "List String",
            [c.kind for c in classes if getattr(c, "reverse", None) is not base],
            "kinds of construct.edges whose class overrides EdgeData.reverse()",
        )

    emit.guard(reversing)

    def source_tests() -> None:
        from classy_blocks.items.edges.arcs.arc_base import ArcEdgeBase
        from classy_blocks.items.edges.edge import Edge
        from classy_blocks.lists.edge_list import EdgeList

        emit(
            "c07SourceTests",
            "List (String × List String)",
            [
                ("Edge.is_valid", outline(normalised(Edge.is_valid.fget))),
                ("ArcEdgeBase.is_valid", outline(normalised(ArcEdgeBase.is_valid.fget))),
                ("EdgeList.find", outline(normalised(EdgeList.find))),
                ("EdgeList.add", outline(normalised(EdgeList.add))),
            ],
            "the statements of the validity tests and of EdgeList.find / add, from the normalised tree of the current source",
        )

    emit.guard(source_tests)
