"""C03 — constants of grading/relations.py and the field list of Chop, read from the imported package.

No logic: the float constants are printed as their exact rational image (numerator, denominator).
"""

from __future__ import annotations


def emit_all(emit) -> None:
    import dataclasses

    from classy_blocks.grading import relations
    from classy_blocks.grading.chop import Chop
    from classy_blocks.util import constants

    tn, td = float(constants.TOL).as_integer_ratio()
    emit("c03TolNum", "Nat", tn, "constants.TOL as an exact rational: numerator")
    emit("c03TolDen", "Nat", td, "constants.TOL: denominator")
    rn, rd = float(relations.R_MAX).as_integer_ratio()
    emit("c03RmaxNum", "Nat", rn, "relations.R_MAX as an exact rational: numerator")
    emit("c03RmaxDen", "Nat", rd, "relations.R_MAX: denominator")
    emit(
        "c03ChopFields",
        "List String",
        [f.name for f in dataclasses.fields(Chop)],
        "dataclasses.fields(Chop), in declaration order (the keys of Chop.results)",
    )
    # --- round 5: what the source text of the anchored functions says (read with `ast`, nothing is interpreted)
    import ast
    import inspect
    import textwrap

    tree = ast.parse(textwrap.dedent(inspect.getsource(Chop.calculate)))
    rounds = [
        n.iter.args[0].value
        for n in ast.walk(tree)
        if isinstance(n, ast.For) and isinstance(n.iter, ast.Call) and getattr(n.iter.func, "id", None) == "range"
        and len(n.iter.args) == 1 and isinstance(n.iter.args[0], ast.Constant)
    ]
    emit("c03CalcRounds", "List Nat", rounds, "the constant bounds of `for _ in range(N)` loops in Chop.calculate (one: the closure loop)")
    keys = [sorted(e.value for e in n.elts) for n in ast.walk(tree) if isinstance(n, ast.Set)]
    emit("c03RequiredKeys", "List (List String)", keys, "the set literals in Chop.calculate (one: the values that must be known to return), sorted")

    guards = []
    for name, fn in inspect.getmembers(relations, inspect.isfunction):
        if name.startswith("get_") and name.count("__") == 2:
            o, a, b = name[4:].split("__")
            ftree = ast.parse(textwrap.dedent(inspect.getsource(fn)))
            calls = sorted(
                (n.lineno, n.col_offset, n.func.id, " ".join(ast.unparse(x).strip("'\"") for x in n.args))
                for n in ast.walk(ftree)
                if isinstance(n, ast.Call) and isinstance(n.func, ast.Name) and n.func.id.startswith("_validate_")
            )
            raises = sum(isinstance(n, ast.Raise) for n in ast.walk(ftree))
            guards.append(((o, a, b), [(c[2], c[3]) for c in calls], raises))
    emit(
        "c03Guards",
        "List ((String × String × String) × List (String × String) × Nat)",
        guards,
        "per relation: the `_validate_*` calls in source order (validator, arguments) and the number of explicit `raise` statements",
    )

    probe = Chop()
    emit(
        "c03ChopDefaults",
        "List (String × String)",
        [(f.name, repr(getattr(probe, f.name))) for f in dataclasses.fields(Chop)],
        "repr of the field values of Chop() after __post_init__ (no arguments)",
    )
