"""C03 — constants of grading/relations.py and the field list of Chop, read from the imported package.

No logic: the float constants are printed as their exact rational image (numerator, denominator).
"""

from __future__ import annotations


def emit_all(emit) -> None:
    import dataclasses

    from classy_blocks.grading import relations
    from classy_blocks.grading.chop import Chop
    from classy_blocks.util import constants

    tn, td = float(constants.TOL).as_integer_ratio()
    emit("c03TolNum", "Nat", tn, "constants.TOL as an exact rational: numerator")
    emit("c03TolDen", "Nat", td, "constants.TOL: denominator")
    rn, rd = float(relations.R_MAX).as_integer_ratio()
    emit("c03RmaxNum", "Nat", rn, "relations.R_MAX as an exact rational: numerator")
    emit("c03RmaxDen", "Nat", rd, "relations.R_MAX: denominator")
    emit(
        "c03ChopFields",
        "List String",
        [f.name for f in dataclasses.fields(Chop)],
        "dataclasses.fields(Chop), in declaration order (the keys of Chop.results)",
    )
    probe = Chop()
    emit(
        "c03ChopDefaults",
        "List (String × String)",
        [(f.name, repr(getattr(probe, f.name))) for f in dataclasses.fields(Chop)],
        "repr of the field values of Chop() after __post_init__ (no arguments)",
    )
