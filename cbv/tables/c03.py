"""C03 — constants of grading/relations.py and the field list of Chop, read from the imported package.

No logic: the float constants are printed as their exact rational image (numerator, denominator).
"""

from __future__ import annotations


def emit_all(emit) -> None:
    """Value tables first (the ones `Model/C03.lean` names: they cannot fail), then every `ast` group in its own
    `emit.guard`, the relation bodies one guard per relation."""
    import ast
    import dataclasses
    import inspect
    import textwrap

    from classy_blocks.grading import relations
    from classy_blocks.grading.chop import Chop
    from classy_blocks.util import constants

    # ---- value tables (read from the imported package, no translation)
    tn, td = float(constants.TOL).as_integer_ratio()
    emit("c03TolNum", "Nat", tn, "constants.TOL as an exact rational: numerator")
    emit("c03TolDen", "Nat", td, "constants.TOL: denominator")
    rn, rd = float(relations.R_MAX).as_integer_ratio()
    emit("c03RmaxNum", "Nat", rn, "relations.R_MAX as an exact rational: numerator")
    emit("c03RmaxDen", "Nat", rd, "relations.R_MAX: denominator")
    emit(
        "c03ChopFields",
        "List String",
        [f.name for f in dataclasses.fields(Chop)],
        "dataclasses.fields(Chop), in declaration order (the keys of Chop.results)",
    )
    probe = Chop()
    emit(
        "c03ChopDefaults",
        "List (String × String)",
        [(f.name, repr(getattr(probe, f.name))) for f in dataclasses.fields(Chop)],
        "repr of the field values of Chop() after __post_init__ (no arguments)",
    )
    # the loop bound of Chop.calculate is part of the *model* (`calcRounds`): always emitted; when the source cannot be
    # read the list is empty, `calcRounds` is 0 and the closure theorems (not the model) break
    try:
        tree = ast.parse(textwrap.dedent(inspect.getsource(Chop.calculate)))
        rounds = [
            n.iter.args[0].value
            for n in ast.walk(tree)
            if isinstance(n, ast.For) and isinstance(n.iter, ast.Call) and getattr(n.iter.func, "id", None) == "range"
            and len(n.iter.args) == 1 and isinstance(n.iter.args[0], ast.Constant) and type(n.iter.args[0].value) is int
            and n.iter.args[0].value >= 0
        ]
    except Exception:
        tree, rounds = None, []
    emit("c03CalcRounds", "List Nat", rounds, "the constant bounds of `for _ in range(N)` loops in Chop.calculate (one: the closure loop)")

    # ---- ast groups, each guarded: a group that cannot translate the current source leaves the others in place
    def required_keys():
        keys = [sorted(e.value for e in n.elts) for n in ast.walk(tree) if isinstance(n, ast.Set)]
        emit("c03RequiredKeys", "List (List String)", keys, "the set literals in Chop.calculate (one: the values that must be known to return), sorted")

    emit.guard(required_keys)

    rel_fns = [
        (name, fn) for name, fn in inspect.getmembers(relations, inspect.isfunction)
        if name.startswith("get_") and name.count("__") == 2
    ]

    def guards():
        out = []
        for name, fn in rel_fns:
            o, a, b = name[4:].split("__")
            ftree = ast.parse(textwrap.dedent(inspect.getsource(fn)))
            calls = sorted(
                (n.lineno, n.col_offset, n.func.id, " ".join(ast.unparse(x).strip("'\"") for x in n.args))
                for n in ast.walk(ftree)
                if isinstance(n, ast.Call) and isinstance(n.func, ast.Name) and n.func.id.startswith("_validate_")
            )
            raises = sum(isinstance(n, ast.Raise) for n in ast.walk(ftree))
            out.append(((o, a, b), [(c[2], c[3]) for c in calls], raises))
        emit(
            "c03Guards",
            "List ((String × String × String) × List (String × String) × Nat)",
            out,
            "per relation: the `_validate_*` calls in source order (validator, arguments) and the number of explicit `raise` statements",
        )

    emit.guard(guards)

    # round 6: the bodies as prefix token lists (grammar: lean/CBV/Model/C03Trans.lean, `Stmt.enc`); one table and one
    # guard per relation.  Locals (and local functions, their parameter) are renamed v0, v1, … in order of first
    # appearance; comments, docstrings, annotations, `print` calls are not part of the tokens.
    def relation_body(name, fn):
        o, a, b = name[4:].split("__")
        fdef = ast.parse(textwrap.dedent(inspect.getsource(fn))).body[0]
        params = [x.arg for x in fdef.args.args]
        if params != ["length", a, b]:
            raise TranslateError(f"{name}: parameters {params} are not (length, {a}, {b})")
        tokens = _Translator(name, params).body(fdef.body)
        if not ({"log", "int", "ceil", "brentq", "call", "def"} & set(tokens)):
            # a closed-form relation (no numeric library step): sums and products are compared up to the order of their
            # operands (exact and float `+`, `*` are commutative), so `a * b` rewritten as `b * a` is the same tree
            tokens = _Translator(name, params, canon=True).body(fdef.body)
        emit(
            f"c03Body_{o}__{a}__{b}",
            "List String",
            tokens,
            f"body of `{name}` (guards, branches, expressions, numeric library calls) as prefix tokens of the statement tree",
        )

    for name, fn in rel_fns:
        emit.guard(relation_body, name, fn)

    def validator_bodies():
        vbodies = []
        for name in ["_validate_length", "_validate_start_end_size", "_validate_c2c_expansion", "_validate_total_expansion"]:
            fdef = ast.parse(textwrap.dedent(inspect.getsource(getattr(relations, name)))).body[0]
            params = [x.arg for x in fdef.args.args]
            tr = _Translator(name, [], rename=params)
            vbodies.append((name, len(params), tr.body(fdef.body, allow_none=True)))
        emit(
            "c03ValidatorBodies",
            "List (String × Nat × List String)",
            vbodies,
            "the simple validators: name, number of parameters (renamed v0, v1, …), body as prefix tokens "
            "(`_validate_count` evaluates a string: its condition is in the call)",
        )

    emit.guard(validator_bodies)

    def invert_body():
        idef = ast.parse(textwrap.dedent(inspect.getsource(Chop.invert))).body[0]
        emit(
            "c03InvertBody",
            "List String",
            _translate_method(idef),
            "Chop.invert: its statements in order as prefix tokens (grammar: lean/CBV/Model/C03Trans.lean, `IStmt.enc`)",
        )

    emit.guard(invert_body)

    def post_init():
        pdef = ast.parse(textwrap.dedent(inspect.getsource(Chop.__post_init__))).body[0]
        emit(
            "c03PostInit",
            "List String × Nat × (String × Nat) × (String × Nat)",
            _translate_post_init(pdef),
            "Chop.__post_init__: (the attributes counted as grading parameters, in list order; the threshold k of "
            "`given < k`; the attribute defaulted when it is None and its integer default; the attribute clamped by "
            "`max(int(x), m)` when it is not None and m)",
        )

    emit.guard(post_init)

    def copy_preserving():
        cdef = ast.parse(textwrap.dedent(inspect.getsource(Chop.copy_preserving))).body[0]
        emit(
            "c03CopyPreserving",
            "(String × String) × List String × Bool",
            _translate_copy_preserving(cdef),
            "Chop.copy_preserving: (args[k1] = self.results[k2]; the keys set to None by the loop, in order; "
            "`args[self.preserve] = self.results[self.preserve]` comes after the loop, then Chop(**args), "
            "then `if inverted: chop.invert()`: true)",
        )

    emit.guard(copy_preserving)

    def calc_loop():
        cdef = ast.parse(textwrap.dedent(inspect.getsource(Chop.calculate))).body[0]
        emit(
            "c03CalcLoop",
            "Nat × List String × (String × String) × (String × String × String)",
            _translate_calculate(cdef),
            "Chop.calculate, statement by statement: (bound of the outer loop; the keys that must be known to return, sorted; "
            "the keys of the returned pair; the arguments of the relation call: the length parameter, data[rel.<a>], data[rel.<b>]). "
            "Fixed by the matcher: all non-None fields start as known; per round first the completeness test (return), then one "
            "pass over ChopRelation.get_possible_combinations(): skip when the output is known, call when both inputs are known "
            "and mark the output known; after the loop raise ValueError",
        )

    emit.guard(calc_loop)


class TranslateError(Exception):
    pass


class _Translator:
    """Python statements of grading/relations.py -> prefix tokens.  No evaluation, no defaults: unknown syntax raises."""

    BIN = {"Add": "+", "Sub": "-", "Mult": "*", "Div": "/", "Pow": "**"}
    CMP = {"Lt": "<", "LtE": "<=", "Gt": ">", "GtE": ">=", "Eq": "==", "NotEq": "!="}

    def __init__(self, where, params, rename=(), canon=False):
        self.where = where
        self.canon = canon         # operands of `+` and `*` in canonical (token) order: a commuted sum / product is the same tree
        self.params = set(params)
        self.ren = {}              # source name of a local / local function / its parameter -> v0, v1, …
        for p in rename:           # parameters whose names carry no meaning (validators)
            self.local(p)
        self.names = set(params) | set(self.ren)   # parameters and locals assigned so far
        self.funcs = set()         # local function definitions

    def local(self, name):
        if name in self.params:
            raise TranslateError(f"{self.where}: the parameter {name} is assigned to / shadowed")
        if name not in self.ren:
            self.ren[name] = f"v{len(self.ren)}"
        return self.ren[name]

    def shown(self, name):
        return self.ren.get(name, name)

    def fail(self, node, why):
        import ast

        raise TranslateError(f"{self.where}: line {getattr(node, 'lineno', '?')}: {why}: {ast.unparse(node)[:120]}")

    @staticmethod
    def dotted(node):
        import ast

        parts = []
        while isinstance(node, ast.Attribute):
            parts.append(node.attr)
            node = node.value
        if isinstance(node, ast.Name):
            parts.append(node.id)
            return ".".join(reversed(parts))
        return None

    def expr(self, e):
        import ast

        if isinstance(e, ast.Name):
            if e.id == "R_MAX":
                return ["R_MAX"]
            if e.id not in self.names:
                self.fail(e, "unknown name")
            return ["var", self.shown(e.id)]
        if isinstance(e, ast.Attribute):
            if self.dotted(e) == "constants.TOL":
                return ["TOL"]
            self.fail(e, "unsupported attribute")
        if isinstance(e, ast.Constant):
            if type(e.value) is int and 0 <= e.value <= 9:
                return ["lit", str(e.value)]
            self.fail(e, "unsupported constant")
        if isinstance(e, ast.BinOp):
            op = self.BIN.get(type(e.op).__name__)
            if op is None:
                self.fail(e, "unsupported operator")
            left, right = self.expr(e.left), self.expr(e.right)
            if self.canon and op in ("+", "*") and right < left:
                left, right = right, left
            return [op] + left + right
        if isinstance(e, ast.Call):
            if e.keywords:
                self.fail(e, "keyword arguments")
            fn = self.dotted(e.func)
            one = {"abs": "abs", "np.log": "log", "int": "int", "np.ceil": "ceil"}
            if fn in one and len(e.args) == 1:
                return [one[fn]] + self.expr(e.args[0])
            if fn == "scipy.optimize.brentq" and len(e.args) == 3 and isinstance(e.args[0], ast.Name):
                if e.args[0].id not in self.funcs:
                    self.fail(e, "brentq on an unknown function")
                return ["brentq", self.shown(e.args[0].id)] + self.expr(e.args[1]) + self.expr(e.args[2])
            if fn in self.funcs and len(e.args) == 1:
                return ["call", self.shown(fn)] + self.expr(e.args[0])
            self.fail(e, "unsupported call")
        self.fail(e, "unsupported expression")

    def cond(self, c):
        import ast

        if isinstance(c, ast.Compare):
            ops = [self.CMP.get(type(o).__name__) for o in c.ops]
            if None in ops:
                self.fail(c, "unsupported comparison")
            terms = [c.left] + list(c.comparators)
            if len(ops) == 1:
                return ["cmp", ops[0]] + self.expr(terms[0]) + self.expr(terms[1])
            if len(ops) == 2:
                return (["and", "cmp", ops[0]] + self.expr(terms[0]) + self.expr(terms[1])
                        + ["cmp", ops[1]] + self.expr(terms[1]) + self.expr(terms[2]))
            self.fail(c, "comparison chain too long")
        if isinstance(c, ast.UnaryOp) and isinstance(c.op, ast.Not):
            return ["not"] + self.cond(c.operand)
        if isinstance(c, ast.Call) and self.dotted(c.func) == "np.isnan" and len(c.args) == 1 and not c.keywords:
            return ["isnan"] + self.expr(c.args[0])
        self.fail(c, "unsupported condition")

    def assigns(self, stmts):
        import ast

        out = [str(len(stmts))]
        new = []
        for s in stmts:
            if isinstance(s, ast.AnnAssign) and isinstance(s.target, ast.Name) and s.value is not None and s.simple:
                s = ast.Assign(targets=[s.target], value=s.value, lineno=s.lineno)
            if not (isinstance(s, ast.Assign) and len(s.targets) == 1 and isinstance(s.targets[0], ast.Name)):
                self.fail(s, "branch of an if/else is not a plain assignment")
            value = self.expr(s.value)
            out += [self.local(s.targets[0].id)] + value
            new.append(s.targets[0].id)
        return out, new

    def stmt(self, s):
        import ast

        if isinstance(s, ast.Expr) and isinstance(s.value, ast.Call):
            fn = self.dotted(s.value.func)
            if fn and fn.startswith("_validate_") and not s.value.keywords:
                args = []
                for a in s.value.args:
                    if isinstance(a, ast.Name) and a.id in self.names:
                        args.append(self.shown(a.id))
                    elif isinstance(a, ast.Constant) and isinstance(a.value, str):
                        args.append(a.value)
                    else:
                        self.fail(s, "unsupported validator argument")
                return ["validate", fn, str(len(args))] + args
            self.fail(s, "unsupported call statement")
        if isinstance(s, ast.If):
            test = self.cond(s.test)
            if len(s.body) == 1 and isinstance(s.body[0], ast.Raise) and not s.orelse:
                return ["raiseif"] + test
            if len(s.body) == 1 and isinstance(s.body[0], ast.Return) and not s.orelse and s.body[0].value is not None:
                return ["retif"] + test + self.expr(s.body[0].value)
            if s.orelse and len(s.body) <= 9 and len(s.orelse) <= 9:
                a, na = self.assigns(s.body)
                b, nb = self.assigns(s.orelse)
                if sorted(na) != sorted(nb):
                    self.fail(s, "the branches assign different names")
                self.names |= set(na)
                return ["ite"] + test + a + b
            self.fail(s, "unsupported if statement")
        if isinstance(s, ast.AnnAssign) and isinstance(s.target, ast.Name) and s.value is not None and s.simple:
            s = ast.Assign(targets=[s.target], value=s.value, lineno=s.lineno)   # the annotation is not part of the tokens
        if isinstance(s, ast.Assign) and len(s.targets) == 1 and isinstance(s.targets[0], ast.Name):
            value = self.expr(s.value)
            out = ["assign", self.local(s.targets[0].id)] + value
            self.names.add(s.targets[0].id)
            return out
        if isinstance(s, ast.Return) and s.value is not None:
            return ["ret"] + self.expr(s.value)
        if isinstance(s, ast.FunctionDef):
            if (len(s.body) == 2 and isinstance(s.body[0], ast.Expr) and isinstance(s.body[0].value, ast.Constant)
                    and isinstance(s.body[0].value.value, str)):
                s = ast.FunctionDef(name=s.name, args=s.args, body=s.body[1:], decorator_list=s.decorator_list, lineno=s.lineno)
            if (len(s.args.args) == 1 and not s.args.defaults and not s.decorator_list and len(s.body) == 1
                    and isinstance(s.body[0], ast.Return) and s.body[0].value is not None):
                p = s.args.args[0].arg
                fname = self.local(s.name)
                inner = _Translator(self.where + "." + s.name, self.names)
                inner.ren = self.ren          # one numbering for the whole relation
                pname = inner.local(p)
                inner.names.add(p)
                inner.funcs = set(self.funcs)
                out = ["def", fname, pname] + inner.expr(s.body[0].value)
                self.funcs.add(s.name)
                return out
            self.fail(s, "unsupported local function")
        self.fail(s, "unsupported statement")

    def body(self, stmts, allow_none=False):
        import ast

        stmts = list(stmts)
        if stmts and isinstance(stmts[0], ast.Expr) and isinstance(stmts[0].value, ast.Constant) and isinstance(stmts[0].value.value, str):
            stmts = stmts[1:]  # docstring
        out = []
        for s in stmts:
            if (isinstance(s, ast.Expr) and isinstance(s.value, ast.Call) and isinstance(s.value.func, ast.Name)
                    and s.value.func.id == "print"):
                continue  # report statement
            out += self.stmt(s)
        if not allow_none and not (stmts and isinstance(stmts[-1], ast.Return)):
            raise TranslateError(f"{self.where}: the body does not end with a return")
        return out


def _translate_method(fdef):
    """Statements of a method that only moves attributes of `self` around (Chop.invert)."""
    import ast

    def fail(node, why):
        raise TranslateError(f"{fdef.name}: line {getattr(node, 'lineno', '?')}: {why}: {ast.unparse(node)[:120]}")

    def attr(e):
        if isinstance(e, ast.Attribute) and isinstance(e.value, ast.Name) and e.value.id == "self":
            return e.attr
        fail(e, "not an attribute of self")

    if [a.arg for a in fdef.args.args] != ["self"]:
        fail(fdef, "unexpected parameters")
    stmts = list(fdef.body)
    if stmts and isinstance(stmts[0], ast.Expr) and isinstance(stmts[0].value, ast.Constant) and isinstance(stmts[0].value.value, str):
        stmts = stmts[1:]
    out = []
    for s in stmts:
        if (isinstance(s, ast.Assign) and len(s.targets) == 1 and isinstance(s.targets[0], ast.Tuple)
                and isinstance(s.value, ast.Tuple) and len(s.targets[0].elts) == 2 and len(s.value.elts) == 2):
            out += ["assign2"] + [attr(x) for x in s.targets[0].elts] + [attr(x) for x in s.value.elts]
            continue
        if isinstance(s, ast.If):
            t = s.test
            if (isinstance(t, ast.Compare) and len(t.ops) == 1 and isinstance(t.ops[0], ast.IsNot)
                    and isinstance(t.comparators[0], ast.Constant) and t.comparators[0].value is None
                    and not s.orelse and len(s.body) == 1 and isinstance(s.body[0], ast.Assign)
                    and len(s.body[0].targets) == 1):
                v = s.body[0].value
                if (isinstance(v, ast.BinOp) and isinstance(v.op, ast.Div) and isinstance(v.left, ast.Constant)
                        and type(v.left.value) is int and v.left.value == 1):
                    out += ["ifset", attr(t.left), "recip", attr(s.body[0].targets[0]), attr(v.right)]
                    continue
                fail(s, "unsupported assignment under `is not None`")
            # if / elif chain: self.f == "const" -> self.g = "const"
            arms = []
            field = None
            node = s
            while True:
                t = node.test
                if not (isinstance(t, ast.Compare) and len(t.ops) == 1 and isinstance(t.ops[0], ast.Eq)
                        and isinstance(t.comparators[0], ast.Constant) and isinstance(t.comparators[0].value, str)
                        and len(node.body) == 1 and isinstance(node.body[0], ast.Assign) and len(node.body[0].targets) == 1
                        and isinstance(node.body[0].value, ast.Constant) and isinstance(node.body[0].value.value, str)):
                    fail(node, "unsupported if statement")
                f = attr(t.left)
                if field not in (None, f):
                    fail(node, "if/elif chain tests different fields")
                field = f
                arms += [t.comparators[0].value, attr(node.body[0].targets[0]), node.body[0].value.value]
                if not node.orelse:
                    break
                if len(node.orelse) == 1 and isinstance(node.orelse[0], ast.If):
                    node = node.orelse[0]
                    continue
                fail(node, "unsupported else branch")
            if len(arms) // 3 > 9:
                fail(s, "too many arms")
            out += ["case", field, str(len(arms) // 3)] + arms
            continue
        fail(s, "unsupported statement")
    return out


def _translate_post_init(fdef):
    """`Chop.__post_init__`: list of counted attributes, `if len(xs) - xs.count(None) < k: if self.a is None: self.a = v`,
    `if self.b is not None: self.b = max(int(self.b), m)`, `self.results = dict()`.  Anything else raises."""
    import ast

    def fail(node, why):
        raise TranslateError(f"{fdef.name}: line {getattr(node, 'lineno', '?')}: {why}: {ast.unparse(node)[:120]}")

    def attr(e):
        if isinstance(e, ast.Attribute) and isinstance(e.value, ast.Name) and e.value.id == "self":
            return e.attr
        fail(e, "not an attribute of self")

    def nat(e):
        if isinstance(e, ast.Constant) and type(e.value) is int and e.value >= 0:
            return e.value
        fail(e, "not a whole-number constant")

    def is_none_test(t, op):
        return (isinstance(t, ast.Compare) and len(t.ops) == 1 and isinstance(t.ops[0], op)
                and isinstance(t.comparators[0], ast.Constant) and t.comparators[0].value is None)

    stmts = [s for s in fdef.body
             if not (isinstance(s, ast.Expr) and isinstance(s.value, ast.Constant) and isinstance(s.value.value, str))]
    names = k = dflt = clamp = None
    listvar = None
    for s in stmts:
        if isinstance(s, ast.AnnAssign) and s.value is not None:
            s = ast.Assign(targets=[s.target], value=s.value, lineno=s.lineno)
        if isinstance(s, ast.Assign) and len(s.targets) == 1:
            tg, v = s.targets[0], s.value
            if isinstance(tg, ast.Name) and isinstance(v, ast.List) and names is None:
                listvar, names = tg.id, [attr(x) for x in v.elts]
                continue
            if isinstance(tg, ast.Attribute) and attr(tg) == "results" and (
                    (isinstance(v, ast.Call) and isinstance(v.func, ast.Name) and v.func.id == "dict" and not v.args and not v.keywords)
                    or (isinstance(v, ast.Dict) and not v.keys)):
                continue  # the empty results dictionary
            fail(s, "unsupported assignment")
        if isinstance(s, ast.If) and not s.orelse and len(s.body) == 1:
            t, b = s.test, s.body[0]
            if (isinstance(t, ast.Compare) and len(t.ops) == 1 and isinstance(t.ops[0], ast.Lt) and isinstance(t.left, ast.BinOp)
                    and isinstance(t.left.op, ast.Sub) and k is None and names is not None):
                l, r = t.left.left, t.left.right
                ok_len = (isinstance(l, ast.Call) and isinstance(l.func, ast.Name) and l.func.id == "len" and len(l.args) == 1
                          and isinstance(l.args[0], ast.Name) and l.args[0].id == listvar)
                ok_cnt = (isinstance(r, ast.Call) and isinstance(r.func, ast.Attribute) and r.func.attr == "count"
                          and isinstance(r.func.value, ast.Name) and r.func.value.id == listvar and len(r.args) == 1
                          and isinstance(r.args[0], ast.Constant) and r.args[0].value is None)
                if not (ok_len and ok_cnt):
                    fail(s, "the test is not `len(xs) - xs.count(None) < k`")
                if not (isinstance(b, ast.If) and not b.orelse and len(b.body) == 1 and is_none_test(b.test, ast.Is)
                        and isinstance(b.body[0], ast.Assign) and len(b.body[0].targets) == 1
                        and attr(b.body[0].targets[0]) == attr(b.test.left)):
                    fail(s, "the body is not `if self.a is None: self.a = v`")
                k, dflt = nat(t.comparators[0]), (attr(b.test.left), nat(b.body[0].value))
                continue
            if is_none_test(t, ast.IsNot) and clamp is None and isinstance(b, ast.Assign) and len(b.targets) == 1:
                v = b.value
                a = attr(t.left)
                if not (attr(b.targets[0]) == a and isinstance(v, ast.Call) and isinstance(v.func, ast.Name) and v.func.id == "max"
                        and len(v.args) == 2 and not v.keywords and isinstance(v.args[0], ast.Call)
                        and isinstance(v.args[0].func, ast.Name) and v.args[0].func.id == "int" and len(v.args[0].args) == 1
                        and attr(v.args[0].args[0]) == a):
                    fail(s, "the body is not `self.b = max(int(self.b), m)`")
                clamp = (a, nat(v.args[1]))
                continue
        fail(s, "unsupported statement")
    if None in (names, k, dflt, clamp):
        raise TranslateError(f"{fdef.name}: a part of __post_init__ is missing: {(names, k, dflt, clamp)}")
    return (names, k, dflt, clamp)


def _translate_copy_preserving(fdef):
    """`Chop.copy_preserving`, statement by statement in this order; anything else raises."""
    import ast

    def fail(node, why):
        raise TranslateError(f"{fdef.name}: line {getattr(node, 'lineno', '?')}: {why}: {ast.unparse(node)[:120]}")

    params = [a.arg for a in fdef.args.args]
    if len(params) != 2 or params[0] != "self":
        fail(fdef, "unexpected parameters")
    flag = params[1]
    stmts = [s for s in fdef.body
             if not (isinstance(s, ast.Expr) and isinstance(s.value, ast.Constant) and isinstance(s.value.value, str))]
    if len(stmts) != 7:
        fail(fdef, f"{len(stmts)} statements instead of 7")
    s0, s1, s2, s3, s4, s5, s6 = stmts
    # args = dataclasses.asdict(self)
    if not (isinstance(s0, ast.Assign) and len(s0.targets) == 1 and isinstance(s0.targets[0], ast.Name)
            and ast.unparse(s0.value) == "dataclasses.asdict(self)"):
        fail(s0, "not `args = dataclasses.asdict(self)`")
    d = s0.targets[0].id

    def results_of(e):
        if (isinstance(e, ast.Subscript) and isinstance(e.value, ast.Attribute) and e.value.attr == "results"
                and isinstance(e.value.value, ast.Name) and e.value.value.id == "self"):
            return e.slice
        fail(e, "not self.results[...]")

    def key_of(t):
        if isinstance(t, ast.Subscript) and isinstance(t.value, ast.Name) and t.value.id == d:
            return t.slice
        fail(t, f"not {d}[...]")

    # args["count"] = self.results["count"]
    if not (isinstance(s1, ast.Assign) and len(s1.targets) == 1):
        fail(s1, "unsupported statement")
    k1, k2 = key_of(s1.targets[0]), results_of(s1.value)
    if not all(isinstance(k, ast.Constant) and isinstance(k.value, str) for k in (k1, k2)):
        fail(s1, "keys are not string constants")
    # for arg in [...]: args[arg] = None
    if not (isinstance(s2, ast.For) and isinstance(s2.target, ast.Name) and isinstance(s2.iter, ast.List) and not s2.orelse
            and all(isinstance(x, ast.Constant) and isinstance(x.value, str) for x in s2.iter.elts) and len(s2.body) == 1
            and isinstance(s2.body[0], ast.Assign) and len(s2.body[0].targets) == 1
            and isinstance(key_of(s2.body[0].targets[0]), ast.Name) and key_of(s2.body[0].targets[0]).id == s2.target.id
            and isinstance(s2.body[0].value, ast.Constant) and s2.body[0].value.value is None):
        fail(s2, "not `for arg in [...]: args[arg] = None`")
    cleared = [x.value for x in s2.iter.elts]
    # args[self.preserve] = self.results[self.preserve]
    if not (isinstance(s3, ast.Assign) and len(s3.targets) == 1 and ast.unparse(key_of(s3.targets[0])) == "self.preserve"
            and ast.unparse(results_of(s3.value)) == "self.preserve"):
        fail(s3, "not `args[self.preserve] = self.results[self.preserve]`")
    # chop = Chop(**args)
    if not (isinstance(s4, ast.Assign) and len(s4.targets) == 1 and isinstance(s4.targets[0], ast.Name)
            and ast.unparse(s4.value) == f"Chop(**{d})"):
        fail(s4, "not `chop = Chop(**args)`")
    c = s4.targets[0].id
    # if inverted: chop.invert()
    if not (isinstance(s5, ast.If) and isinstance(s5.test, ast.Name) and s5.test.id == flag and not s5.orelse
            and len(s5.body) == 1 and isinstance(s5.body[0], ast.Expr) and ast.unparse(s5.body[0].value) == f"{c}.invert()"):
        fail(s5, "not `if inverted: chop.invert()`")
    if not (isinstance(s6, ast.Return) and isinstance(s6.value, ast.Name) and s6.value.id == c):
        fail(s6, "not `return chop`")
    return ((k1.value, k2.value), cleared, True)


def _translate_calculate(fdef):
    """`Chop.calculate`: locals and parameters renamed v0, v1, … in order of first appearance, annotations / docstring /
    comments dropped, then every statement must be the expected one (regular expressions on `ast.unparse`)."""
    import ast
    import re

    names = {}

    def nm(x):
        if x not in names:
            names[x] = f"v{len(names)}"
        return names[x]

    params = [a.arg for a in fdef.args.args]
    if len(params) != 2 or params[0] != "self":
        raise TranslateError(f"{fdef.name}: unexpected parameters {params}")
    nm(params[1])
    stored = {n.id for n in ast.walk(fdef) if isinstance(n, ast.Name) and isinstance(n.ctx, ast.Store)}

    class Rename(ast.NodeTransformer):
        def visit_Name(self, n):
            if n.id in names or n.id in stored:
                return ast.copy_location(ast.Name(id=nm(n.id), ctx=n.ctx), n)
            return n

        def visit_AnnAssign(self, n):
            self.generic_visit(n)
            if n.value is not None and n.simple:
                return ast.copy_location(ast.Assign(targets=[n.target], value=n.value), n)
            return n

    body = [s for s in fdef.body
            if not (isinstance(s, ast.Expr) and isinstance(s.value, ast.Constant) and isinstance(s.value.value, str))]
    text = [ast.unparse(ast.fix_missing_locations(Rename().visit(s))) for s in body]
    expected = [
        r"v1 = dataclasses\.asdict\(self\)",
        r"self\.results = v1",
        r"v2 = set\(\)",
        r"for v3 in self\.results\.keys\(\):\n    if v1\[v3\] is not None:\n        v2\.add\(v3\)",
        r"for v4 in range\((\d+)\):\n"
        r"    if \{([^}]*)\}\.issubset\(v2\):\n"
        r"        self\.results\['count'\] = int\(self\.results\['count'\]\)\n"
        r"        return \(v1\['(\w+)'\], v1\['(\w+)'\]\)\n"
        r"    for v5 in ChopRelation\.get_possible_combinations\(\):\n"
        r"        v6 = v5\.output\n        v7 = v5\.inputs\n        v8 = v5\.function\n"
        r"        if v6 in v2:\n            continue\n"
        r"        if v7\.issubset\(v2\):\n"
        r"            v1\[v6\] = v8\((\w+), v1\[v5\.(\w+)\], v1\[v5\.(\w+)\]\)\n"
        r"            v2\.add\(v6\)",
        r"raise ValueError\(.*\)",
    ]
    if len(text) != len(expected):
        raise TranslateError(f"{fdef.name}: {len(text)} statements instead of {len(expected)}")
    groups = None
    for i, (t, e) in enumerate(zip(text, expected)):
        m = re.fullmatch(e, t, re.S)
        if m is None:
            raise TranslateError(f"{fdef.name}: statement {i} is not the expected one: {t[:200]}")
        if m.groups():
            groups = m.groups()
    n, keys, k1, k2, a0, a1, a2 = groups
    req = sorted(ast.literal_eval("{" + keys + "}"))
    if not all(isinstance(k, str) for k in req):
        raise TranslateError(f"{fdef.name}: the required keys are not strings")
    return (int(n), req, (k1, k2), ("length" if a0 == "v0" and params[1] == "length" else a0, a1, a2))
