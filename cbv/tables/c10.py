"""C10 — what the addressing code of the current source says literally, read with `ast` / `inspect`.

Every table is the evaluation of an expression (or the execution of a statement) *of the source* on a complete
finite range of its inputs: the index arithmetic `(i + 1) % 4`, `i + 4`, `corner - 4`, `(index + 3) % 4`, the guards
`corner < 0 or corner > 3`, literal tuples `(1, 2, 3, 0)`, `["bottom", "left", "front"]`, the order of the statements of
`Operation.project_side`, the construction loop of `tools.edge_map`.  No logic of its own: the translator only finds
the node (by function name and shape) and lets python evaluate it.  If the source no longer has the shape the
translator looks for, table generation fails (red run, failing-input search).
"""

from __future__ import annotations

import ast
import inspect
import textwrap
from typing import Any, Dict, List


def _fn(obj) -> ast.FunctionDef:
    src = textwrap.dedent(inspect.getsource(obj))
    node = ast.parse(src).body[0]
    assert isinstance(node, ast.FunctionDef), obj
    return node


def _ev(node: ast.AST, env: Dict[str, Any]) -> Any:
    return eval(compile(ast.Expression(body=node), "<source>", "eval"), {"__builtins__": {"abs": abs, "min": min, "max": max}}, dict(env))


def _attr_path(node: ast.AST) -> str:
    """`self.top_face.points` -> "top_face.points" """
    parts: List[str] = []
    while isinstance(node, ast.Attribute):
        parts.append(node.attr)
        node = node.value
    if isinstance(node, ast.Name) and node.id != "self":
        parts.append(node.id)
    return ".".join(reversed(parts))


def _assign_to(body, name: str) -> ast.Assign:
    for st in body:
        if isinstance(st, ast.Assign) and isinstance(st.targets[0], ast.Name) and st.targets[0].id == name:
            return st
    raise AssertionError(f"no assignment to {name}")


def _first_raise_guard(fn: ast.FunctionDef) -> ast.expr:
    for st in fn.body:
        if isinstance(st, ast.If) and any(isinstance(b, ast.Raise) for b in st.body):
            return st.test
    raise AssertionError(f"no guard in {fn.name}")


def emit_all(emit) -> None:
    import collections
    from typing import get_args

    from classy_blocks.base.exceptions import CornerPairError
    from classy_blocks.construct.flat.face import Face
    from classy_blocks.construct.operations import connector as connector_mod
    from classy_blocks.construct.operations.operation import Operation
    from classy_blocks.construct.operations.revolve import Revolve
    from classy_blocks.construct.operations.wedge import Wedge
    from classy_blocks.items.side import Side
    from classy_blocks.types import OrientType
    from classy_blocks.util import constants, tools
    from classy_blocks.util.frame import Frame

    # ---------------------------------------------------------------- orient order, inward sides
    emit("c10OrientOrder", "List String", list(get_args(OrientType)), "typing.get_args(OrientType): the order of Operation.get_all_faces()")

    nf = _fn(Operation.get_normal_face)
    orients = None
    for st in ast.walk(nf):
        if isinstance(st, (ast.Assign, ast.AnnAssign)):
            tgt = st.targets[0] if isinstance(st, ast.Assign) else st.target
            if isinstance(tgt, ast.Name) and tgt.id == "orients":
                orients = ast.literal_eval(st.value)
    assert orients is not None
    emit("c10NormalFaceInverted", "List String", list(orients), "Operation.get_normal_face: the literal list of sides it inverts")
    # the subscript of the returned face list: argmax (first maximum)
    ret = [st for st in nf.body if isinstance(st, ast.Return)][0]
    emit("c10NormalFacePick", "String", ret.value.slice.func.attr, "Operation.get_normal_face returns face_list[np.<this>(dotps)]")
    cs = _fn(Operation.get_closest_side)
    ret = [st for st in cs.body if isinstance(st, ast.Return)][0]
    emit("c10ClosestSidePick", "String", ret.value.slice.func.attr, "Operation.get_closest_side returns sides[np.<this>(centers)]")

    ci = _fn(connector_mod.Connector.__init__)
    inv = [list(ast.literal_eval(n.comparators[0])) for n in ast.walk(ci) if isinstance(n, ast.Compare) and isinstance(n.ops[0], ast.In)]
    emit("c10ConnectorInverted", "List (List String)", inv, "Connector.__init__: the literal tuples `orient in (...)` of sides it inverts (operation 1, operation 2)")
    sl = [n for n in ast.walk(ci) if isinstance(n, ast.Subscript) and isinstance(n.slice, ast.Slice)]
    emit("c10ConnectorKeep", "Nat", int(ast.literal_eval(sl[0].slice.upper)), "Connector.__init__: all_pairs[:<this>] after sorting by distance")

    # ---------------------------------------------------------------- which table get_face / Side use
    uses = []
    for label, obj in (("Operation.get_face", Operation.get_face), ("Side.__init__", Side.__init__)):
        for n in ast.walk(_fn(obj)):
            if isinstance(n, ast.Subscript) and isinstance(n.value, ast.Attribute) and isinstance(n.value.value, ast.Name) and n.value.value.id == "constants":
                uses.append((label, n.value.attr))
    emit("c10FaceTableUse", "List (String × String)", uses, "the table of util.constants that Operation.get_face / items.side.Side index by side name")

    # ---------------------------------------------------------------- Operation.edges: the three add_beam loops
    ed = _fn(Operation.edges.fget)
    loops = []
    for st in ed.body:
        if isinstance(st, ast.For):
            what = _attr_path(st.iter.args[0])
            call = st.body[0].value
            assert call.func.attr == "add_beam"
            n = 4
            loops.append((what, [(int(_ev(call.args[0], {"i": i})), int(_ev(call.args[1], {"i": i}))) for i in range(n)]))
    emit("c10OpEdges", "List (String × List (Nat × Nat))", loops, "Operation.edges: per loop the corner pairs `add_beam(<expr 1>, <expr 2>, data)` evaluated for i = 0..3")

    # ---------------------------------------------------------------- guards (first `if …: raise`)
    rng = list(range(-2, 11))
    guards = []
    for label, obj, var in (
        ("Operation.add_side_edge", Operation.add_side_edge, "corner_idx"),
        ("Face.add_edge", Face.add_edge, "corner"),
        ("Face.project_edge", Face.project_edge, "corner"),
        ("Operation.project_corner", Operation.project_corner, "corner"),
    ):
        test = _first_raise_guard(_fn(obj))
        guards.append((label, [(c, bool(_ev(test, {var: c}))) for c in rng]))
    emit("c10Guards", "List (String × List (Int × Bool))", guards, "the refusing guard of each method evaluated for corner = -2..10 (true = raises)")
    test = _first_raise_guard(_fn(Operation.project_edge))
    emit(
        "c10ProjectEdgeGuard",
        "List (Int × Int × Bool)",
        [(a, b, bool(_ev(test, {"corner_1": a, "corner_2": b}))) for a in range(-1, 10) for b in range(-1, 10)],
        "Operation.project_edge: its range guard for corner_1, corner_2 = -1..9 (true = raises)",
    )

    # ---------------------------------------------------------------- project_corner: which point
    pc = _fn(Operation.project_corner)
    branch = [st for st in pc.body if isinstance(st, ast.If) and not any(isinstance(b, ast.Raise) for b in st.body)][0]

    def point_of(stmts, c):
        call = stmts[0].value  # self.<face>.points[<expr>].project(label)
        sub = call.func.value
        return _attr_path(sub.value), int(_ev(sub.slice, {"corner": c}))

    tgt = []
    for c in range(8):
        face, idx = point_of(branch.body if _ev(branch.test, {"corner": c}) else branch.orelse, c)
        tgt.append((c, face, idx))
    emit("c10ProjectCorner", "List (Nat × String × Nat)", tgt, "Operation.project_corner: corner -> (point list, index) for corner = 0..7")

    # ---------------------------------------------------------------- get_patches_at_corner
    gp = _fn(Operation.get_patches_at_corner)
    first_if = [st for st in gp.body if isinstance(st, ast.If)][0]
    idx_assign = _assign_to(gp.body, "index")
    side_subs = [
        st.value.args[0].slice
        for st in gp.body
        if isinstance(st, ast.Expr) and isinstance(st.value, ast.Call) and st.value.func.attr == "add" and isinstance(st.value.args[0], ast.Subscript)
    ]
    rows = []
    for c in range(8):
        stmts = first_if.body if _ev(first_if.test, {"corner": c}) else first_if.orelse
        face = _attr_path(stmts[0].value.args[0])
        index = _ev(idx_assign.value, {"corner": c})
        rows.append((c, face, [int(_ev(s, {"index": index, "corner": c})) for s in side_subs]))
    emit("c10PatchesAtCorner", "List (Nat × String × List Nat)", rows, "Operation.get_patches_at_corner: corner -> (face whose patch is taken, indexes into side_patches)")

    # ---------------------------------------------------------------- project_side: the statements, in order
    ps = _fn(Operation.project_side)
    i2 = _assign_to(ps.body, "index_2")
    i1_src = _assign_to(ps.body, "index_1")
    assert i1_src.value.func.attr == "get_index_from_side"
    if_edges = [st for st in ps.body if isinstance(st, ast.If) and isinstance(st.test, ast.Name) and st.test.id == "edges"][0]
    if_points = [st for st in ps.body if isinstance(st, ast.If) and isinstance(st.test, ast.Name) and st.test.id == "points"][0]
    proj = [st for st in ps.body if isinstance(st, ast.Assign) and isinstance(st.targets[0], ast.Subscript)][0]
    steps_e, steps_p, steps_f = [], [], []
    for index_1 in range(4):
        env = {"index_1": index_1}
        env["index_2"] = _ev(i2.value, env)
        steps_f.append((_attr_path(proj.targets[0].value), int(_ev(proj.targets[0].slice, env))))
        row = []
        for st in if_edges.body:
            if isinstance(st, ast.Expr):  # a call
                call = st.value
                row.append((_attr_path(call.func), [int(_ev(a, env)) for a in call.args[:-1]]))
            else:  # self.side_edges[x] = self._project_update(self.side_edges[x], label)
                t = st.targets[0]
                src = st.value.args[0]
                assert _attr_path(src.value) == _attr_path(t.value)
                row.append((_attr_path(t.value) + "=", [int(_ev(t.slice, env)), int(_ev(src.slice, env))]))
        steps_e.append(row)
        row = []
        outer = if_points.body[0]
        inner = outer.body[0]
        for face in outer.iter.elts:
            for pi in inner.iter.elts:
                row.append((_attr_path(face) + ".points", [int(_ev(pi, env))]))
        steps_p.append(row)
    emit("c10ProjectSideFace", "List (String × Nat)", steps_f, "Operation.project_side: `self.side_projects[index_1] = label` for index_1 = 0..3")
    emit("c10ProjectSideEdges", "List (List (String × List Nat))", steps_e, "Operation.project_side, `if edges:` — the statements in order with their index expressions evaluated, per index_1 = 0..3")
    emit("c10ProjectSidePoints", "List (List (String × List Nat))", steps_p, "Operation.project_side, `if points:` — the projected points in loop order, per index_1 = 0..3")

    # Face.project: `for i in range(4)` twice
    fp = _fn(Face.project)
    rows = []
    for st in fp.body:
        if isinstance(st, ast.If):
            loop = st.body[0]
            call = loop.body[0].value
            rng4 = list(range(*[ast.literal_eval(a) for a in loop.iter.args]))
            if call.func.attr == "project_edge":
                rows.append((st.test.id, "project_edge", [int(_ev(call.args[0], {"i": i})) for i in rng4]))
            else:
                rows.append((st.test.id, _attr_path(call.func.value.value), [int(_ev(call.func.value.slice, {"i": i})) for i in rng4]))
    emit("c10FaceProject", "List (String × String × List Nat)", rows, "Face.project: (flag, what, indexes in loop order)")

    # ---------------------------------------------------------------- Face.invert / shift / reorient literals
    fi = _fn(Face.invert)
    comp = [n for n in ast.walk(fi) if isinstance(n, ast.ListComp)][0]
    emit("c10InvertIdx", "List Nat", list(ast.literal_eval(comp.generators[0].iter)), "Face.invert: edges = [edges[i] for i in <this>] after both lists were reversed")
    emit(
        "c10InvertStmts",
        "List String",
        [_attr_path(st.value.func) for st in fi.body if isinstance(st, ast.Expr) and isinstance(st.value, ast.Call)],
        "Face.invert: the in-place calls in order",
    )
    fs = _fn(Face.shift)
    prep = [st for st in fs.body if isinstance(st, (ast.Assign, ast.Expr)) and not (isinstance(st, ast.Expr) and isinstance(st.value, ast.Constant))][:2]
    rows = []
    for count in range(-9, 10):
        env = {"collections": collections, "range": range, "count": count}
        exec(compile(ast.Module(body=prep, type_ignores=[]), "<Face.shift>", "exec"), env)
        rows.append((count, [int(x) for x in env["indexes"]]))
    emit("c10ShiftIdx", "List (Int × List Nat)", rows, "Face.shift: `indexes` after `deque(range(4)).rotate(count)` for count = -9..9")
    shifted = [_attr_path(st.targets[0]) for st in fs.body if isinstance(st, ast.Assign) and isinstance(st.value, ast.ListComp)]
    emit("c10ShiftLists", "List String", shifted, "Face.shift: the lists re-indexed by `indexes`")
    fr = _fn(Face.reorient)
    call = [st.value for st in fr.body if isinstance(st, ast.Expr) and isinstance(st.value, ast.Call) and st.value.func.attr == "shift"][0]
    emit(
        "c10ReorientShift",
        "List Int",
        [int(_ev(call.args[0], {"indexes": [j, (j + 1) % 4, (j + 2) % 4, (j + 3) % 4]})) for j in range(4)],
        "Face.reorient: the argument of self.shift(...) when the closest point has index j = 0..3",
    )

    # ---------------------------------------------------------------- tools.EdgeLocation.start_corner and the edge_map loop
    rows = []
    for c1 in range(8):
        for c2 in range(8):
            try:
                rows.append((c1, c2, int(tools.EdgeLocation(c1, c2, "bottom").start_corner)))
            except CornerPairError:
                rows.append((c1, c2, -1))
    emit("c10StartCorner", "List (Nat × Nat × Int)", rows, "EdgeLocation(c1, c2).start_corner for all 64 pairs (-1 = CornerPairError)")

    mod = ast.parse(inspect.getsource(tools))
    loop = [st for st in mod.body if isinstance(st, ast.For)][0]
    rows = []
    for i in range(*[ast.literal_eval(a) for a in loop.iter.args]):
        env: Dict[str, Any] = {"i": i, "SIDES_MAP": constants.SIDES_MAP}
        for st in loop.body:
            if isinstance(st, ast.Assign):
                env[st.targets[0].id] = _ev(st.value, env)
            elif isinstance(st, ast.Expr) and isinstance(st.value, ast.Call) and st.value.func.attr == "add_beam":
                a, b, locn = st.value.args
                assert locn.func.id == "EdgeLocation"
                rows.append((int(_ev(a, env)), int(_ev(b, env)), int(_ev(locn.args[0], env)), int(_ev(locn.args[1], env)), str(_ev(locn.args[2], env))))
    emit(
        "c10EdgeMapInserts",
        "List (Nat × Nat × Nat × Nat × String)",
        rows,
        "tools.py module loop: edge_map.add_beam(a, b, EdgeLocation(l1, l2, side)) in execution order",
    )
    emit("c10FrameValidPairs", "List (List Nat)", [sorted(p) for p in Frame.valid_pairs], "Frame.valid_pairs (sorted members)")

    # ---------------------------------------------------------------- Revolve / Wedge
    rv = _fn(Revolve.__init__)
    loop = [st for st in rv.body if isinstance(st, ast.For)][0]
    call = loop.body[0].value
    assert call.func.attr == "add_side_edge"
    emit(
        "c10RevolveSideEdges",
        "List (Nat × String)",
        [(int(_ev(call.args[0], {"i": i})), _attr_path(call.args[1].func)) for i in range(*[ast.literal_eval(a) for a in loop.iter.args])],
        "Revolve.__init__: add_side_edge(<index>, <edge data class>) in loop order",
    )
    wd = _fn(Wedge.__init__)
    pats = []
    for st in wd.body:
        if isinstance(st, ast.Expr) and isinstance(st.value, ast.Call) and getattr(st.value.func, "attr", "") == "set_patch":
            pats.append((ast.literal_eval(st.value.args[0]), ast.literal_eval(st.value.args[1])))
    emit("c10WedgePatches", "List (String × String)", pats, "Wedge.__init__: set_patch(side, name) calls in order")
    named = []
    for label, obj in (("set_inner_patch", Wedge.set_inner_patch), ("set_outer_patch", Wedge.set_outer_patch)):
        call = [st.value for st in _fn(obj).body if isinstance(st, ast.Expr) and isinstance(st.value, ast.Call)][0]
        named.append((label, ast.literal_eval(call.args[0])))
    emit("c10WedgeNamed", "List (String × String)", named, "Wedge.set_inner_patch / set_outer_patch: the side they address")
