"""C10 — what the addressing code of the current source says literally, read with `ast` / `inspect`.

Every table is the evaluation of an expression (or the execution of a statement) *of the source* on a complete
finite range of its inputs: the index arithmetic `(i + 1) % 4`, `i + 4`, `corner - 4`, `(index + 3) % 4`, the guards
`corner < 0 or corner > 3`, literal tuples `(1, 2, 3, 0)`, `["bottom", "left", "front"]`, the order of the statements of
`Operation.project_side`, the construction loop of `tools.edge_map`.  No logic of its own: the translator only finds
the node (by function name and shape) and lets python evaluate it.

Round 6b.  (1) Plain value tables come first (`c10OrientOrder` is the only one a *model* file names); every `ast` group
runs inside its own `emit.guard`, so a group that no longer finds the shape it looks for loses its own tables only.
(2) Nothing depends on the *names* of parameters and locals, on docstrings, comments, annotations or report / print
statements: parameters are taken by position, locals by the shape of the statement that defines them, the tables hold
evaluated values and attribute paths only.  Renaming a local or annotating an assignment leaves TC10.lean byte-identical;
a changed operator, constant, index expression or statement order changes it.
"""

from __future__ import annotations

import ast
import inspect
import textwrap
from typing import Any, Dict, Iterator, List, Tuple


def _fn(obj) -> ast.FunctionDef:
    src = textwrap.dedent(inspect.getsource(obj))
    node = ast.parse(src).body[0]
    assert isinstance(node, ast.FunctionDef), obj
    return node


def _param(fn: ast.FunctionDef, k: int) -> str:
    """name of the k-th parameter (0 = self)"""
    return fn.args.args[k].arg


def _ev(node: ast.AST, env: Dict[str, Any]) -> Any:
    return eval(compile(ast.Expression(body=node), "<source>", "eval"), {"__builtins__": {"abs": abs, "min": min, "max": max}}, dict(env))


def _attr_path(node: ast.AST) -> str:
    """`self.top_face.points` -> "top_face.points" (a leading local name is not part of the path)"""
    parts: List[str] = []
    while isinstance(node, ast.Attribute):
        parts.append(node.attr)
        node = node.value
    return ".".join(reversed(parts))


def _is_report(st: ast.stmt) -> bool:
    """docstrings, print / report / warnings.warn statements: not seen by the translator"""
    if isinstance(st, ast.Expr) and isinstance(st.value, ast.Constant):
        return True
    if isinstance(st, ast.Expr) and isinstance(st.value, ast.Call):
        f = st.value.func
        name = f.id if isinstance(f, ast.Name) else f.attr if isinstance(f, ast.Attribute) else ""
        return name in ("print", "report", "warn")
    return False


def _body(stmts) -> List[ast.stmt]:
    return [st for st in stmts if not _is_report(st)]


def _assigns(stmts) -> Iterator[Tuple[ast.expr, ast.expr, ast.stmt]]:
    """(target, value, statement) of plain and annotated assignments"""
    for st in stmts:
        if isinstance(st, ast.Assign) and len(st.targets) == 1:
            yield st.targets[0], st.value, st
        elif isinstance(st, ast.AnnAssign) and st.value is not None:
            yield st.target, st.value, st


def _first_raise_guard(fn: ast.FunctionDef) -> ast.expr:
    for st in fn.body:
        if isinstance(st, ast.If) and any(isinstance(b, ast.Raise) for b in st.body):
            return st.test
    raise AssertionError(f"no guard in {fn.name}")


def _range_of(loop: ast.For) -> range:
    assert isinstance(loop.iter, ast.Call) and loop.iter.func.id == "range"
    return range(*[ast.literal_eval(a) for a in loop.iter.args])


def _loop_var(loop: ast.For) -> str:
    t = loop.target
    return t.id if isinstance(t, ast.Name) else t.elts[0].id


def emit_all(emit) -> None:
    import collections
    from typing import get_args

    from classy_blocks.base.exceptions import CornerPairError
    from classy_blocks.construct.flat.face import Face
    from classy_blocks.construct.operations import connector as connector_mod
    from classy_blocks.construct.operations.operation import Operation
    from classy_blocks.construct.operations.revolve import Revolve
    from classy_blocks.construct.operations.wedge import Wedge
    from classy_blocks.items.side import Side
    from classy_blocks.types import OrientType
    from classy_blocks.util import constants, tools
    from classy_blocks.util.frame import Frame

    # ================================================================ value tables (no ast; the model may name these)
    emit("c10OrientOrder", "List String", list(get_args(OrientType)), "typing.get_args(OrientType): the order of Operation.get_all_faces()")

    def values_tools() -> None:
        rows = []
        for c1 in range(8):
            for c2 in range(8):
                try:
                    rows.append((c1, c2, int(tools.EdgeLocation(c1, c2, "bottom").start_corner)))
                except CornerPairError:
                    rows.append((c1, c2, -1))
        emit("c10StartCorner", "List (Nat × Nat × Int)", rows, "EdgeLocation(c1, c2).start_corner for all 64 pairs (-1 = CornerPairError)")
        emit("c10FrameValidPairs", "List (List Nat)", [sorted(p) for p in Frame.valid_pairs], "Frame.valid_pairs (sorted members)")

    emit.guard(values_tools)

    # ================================================================ ast groups, each on its own
    def normal_face() -> None:
        nf = _fn(Operation.get_normal_face)
        lits = [
            ast.literal_eval(v)
            for _, v, _ in _assigns(ast.walk(nf))
            if isinstance(v, (ast.List, ast.Tuple)) and v.elts and all(isinstance(e, ast.Constant) and isinstance(e.value, str) for e in v.elts)
        ]
        assert len(lits) == 1
        emit("c10NormalFaceInverted", "List String", list(lits[0]), "Operation.get_normal_face: the literal list of sides it inverts")
        ret = [st for st in nf.body if isinstance(st, ast.Return)][0]
        emit("c10NormalFacePick", "String", ret.value.slice.func.attr, "Operation.get_normal_face returns face_list[np.<this>(dotps)]")
        cs = _fn(Operation.get_closest_side)
        ret = [st for st in cs.body if isinstance(st, ast.Return)][0]
        emit("c10ClosestSidePick", "String", ret.value.slice.func.attr, "Operation.get_closest_side returns sides[np.<this>(centers)]")

    emit.guard(normal_face)

    def connector() -> None:
        ci = _fn(connector_mod.Connector.__init__)
        inv = [list(ast.literal_eval(n.comparators[0])) for n in ast.walk(ci) if isinstance(n, ast.Compare) and isinstance(n.ops[0], ast.In)]
        emit("c10ConnectorInverted", "List (List String)", inv, "Connector.__init__: the literal tuples `orient in (...)` of sides it inverts (operation 1, operation 2)")
        sl = [n for n in ast.walk(ci) if isinstance(n, ast.Subscript) and isinstance(n.slice, ast.Slice)]
        emit("c10ConnectorKeep", "Nat", int(ast.literal_eval(sl[0].slice.upper)), "Connector.__init__: all_pairs[:<this>] after sorting by distance")

    emit.guard(connector)

    def face_table_use() -> None:
        uses = []
        for label, obj in (("Operation.get_face", Operation.get_face), ("Side.__init__", Side.__init__)):
            for n in ast.walk(_fn(obj)):
                if isinstance(n, ast.Subscript) and isinstance(n.value, ast.Attribute) and isinstance(n.value.value, ast.Name) and n.value.value.id == "constants":
                    uses.append((label, n.value.attr))
        emit("c10FaceTableUse", "List (String × String)", uses, "the table of util.constants that Operation.get_face / items.side.Side index by side name")

    emit.guard(face_table_use)

    def op_edges() -> None:
        ed = _fn(Operation.edges.fget)
        loops = []
        for st in ed.body:
            if isinstance(st, ast.For):
                what = _attr_path(st.iter.args[0])
                call = _body(st.body)[0].value
                assert call.func.attr == "add_beam"
                var = _loop_var(st)
                loops.append((what, [(int(_ev(call.args[0], {var: i})), int(_ev(call.args[1], {var: i}))) for i in range(4)]))
        emit("c10OpEdges", "List (String × List (Nat × Nat))", loops, "Operation.edges: per loop the corner pairs `add_beam(<expr 1>, <expr 2>, data)` evaluated for i = 0..3")

    emit.guard(op_edges)

    def guards() -> None:
        rng = list(range(-2, 11))
        rows = []
        for label, obj in (
            ("Operation.add_side_edge", Operation.add_side_edge),
            ("Face.add_edge", Face.add_edge),
            ("Face.project_edge", Face.project_edge),
            ("Operation.project_corner", Operation.project_corner),
        ):
            fn = _fn(obj)
            test = _first_raise_guard(fn)
            rows.append((label, [(c, bool(_ev(test, {_param(fn, 1): c}))) for c in rng]))
        emit("c10Guards", "List (String × List (Int × Bool))", rows, "the refusing guard of each method evaluated for corner = -2..10 (true = raises)")
        fn = _fn(Operation.project_edge)
        test = _first_raise_guard(fn)
        emit(
            "c10ProjectEdgeGuard",
            "List (Int × Int × Bool)",
            [(a, b, bool(_ev(test, {_param(fn, 1): a, _param(fn, 2): b}))) for a in range(-1, 10) for b in range(-1, 10)],
            "Operation.project_edge: its range guard for corner_1, corner_2 = -1..9 (true = raises)",
        )

    emit.guard(guards)

    def project_corner() -> None:
        pc = _fn(Operation.project_corner)
        corner = _param(pc, 1)
        branch = [st for st in pc.body if isinstance(st, ast.If) and not any(isinstance(b, ast.Raise) for b in st.body)][0]

        def point_of(stmts, c):
            call = _body(stmts)[0].value  # self.<face>.points[<expr>].project(label)
            sub = call.func.value
            return _attr_path(sub.value), int(_ev(sub.slice, {corner: c}))

        tgt = []
        for c in range(8):
            face, idx = point_of(branch.body if _ev(branch.test, {corner: c}) else branch.orelse, c)
            tgt.append((c, face, idx))
        emit("c10ProjectCorner", "List (Nat × String × Nat)", tgt, "Operation.project_corner: corner -> (point list, index) for corner = 0..7")

    emit.guard(project_corner)

    def patches_at_corner() -> None:
        gp = _fn(Operation.get_patches_at_corner)
        corner = _param(gp, 1)
        first_if = [st for st in gp.body if isinstance(st, ast.If)][0]
        # the local that holds `corner % 4`: the assignment of a `%` expression to a name
        idx_t, idx_v, _ = [(t, v, s) for t, v, s in _assigns(gp.body) if isinstance(t, ast.Name) and isinstance(v, ast.BinOp) and isinstance(v.op, ast.Mod)][0]
        side_subs = [
            st.value.args[0].slice
            for st in gp.body
            if isinstance(st, ast.Expr) and isinstance(st.value, ast.Call) and getattr(st.value.func, "attr", "") == "add" and isinstance(st.value.args[0], ast.Subscript)
        ]
        rows = []
        for c in range(8):
            stmts = _body(first_if.body if _ev(first_if.test, {corner: c}) else first_if.orelse)
            face = _attr_path(stmts[0].value.args[0])
            index = _ev(idx_v, {corner: c})
            rows.append((c, face, [int(_ev(s, {idx_t.id: index, corner: c})) for s in side_subs]))
        emit("c10PatchesAtCorner", "List (Nat × String × List Nat)", rows, "Operation.get_patches_at_corner: corner -> (face whose patch is taken, indexes into side_patches)")

    emit.guard(patches_at_corner)

    def project_side() -> None:
        ps = _fn(Operation.project_side)
        p_edges, p_points = _param(ps, 3), _param(ps, 4)
        names = [(t, v, s) for t, v, s in _assigns(ps.body) if isinstance(t, ast.Name)]
        # index_1 = self.get_index_from_side(side); index_2 = <expression in index_1>
        (t1, v1, _), (t2, v2, _) = names[0], names[1]
        assert isinstance(v1, ast.Call) and v1.func.attr == "get_index_from_side"
        n1, n2 = t1.id, t2.id
        if_edges = [st for st in ps.body if isinstance(st, ast.If) and isinstance(st.test, ast.Name) and st.test.id == p_edges][0]
        if_points = [st for st in ps.body if isinstance(st, ast.If) and isinstance(st.test, ast.Name) and st.test.id == p_points][0]
        proj_t = [t for t, _, _ in _assigns(ps.body) if isinstance(t, ast.Subscript)][0]
        steps_e, steps_p, steps_f = [], [], []
        for index_1 in range(4):
            env = {n1: index_1}
            env[n2] = _ev(v2, env)
            steps_f.append((_attr_path(proj_t.value), int(_ev(proj_t.slice, env))))
            row = []
            for st in _body(if_edges.body):
                if isinstance(st, ast.Expr):  # a call; its last argument is the label
                    call = st.value
                    row.append((_attr_path(call.func), [int(_ev(a, env)) for a in call.args[:-1]]))
                else:  # self.side_edges[x] = self._project_update(self.side_edges[x], label)
                    t, v, _ = next(_assigns([st]))
                    src = v.args[0]
                    assert _attr_path(src.value) == _attr_path(t.value)
                    row.append((_attr_path(t.value) + "=", [int(_ev(t.slice, env)), int(_ev(src.slice, env))]))
            steps_e.append(row)
            row = []
            outer = _body(if_points.body)[0]
            inner = _body(outer.body)[0]
            for face in outer.iter.elts:
                for pi in inner.iter.elts:
                    row.append((_attr_path(face) + ".points", [int(_ev(pi, env))]))
            steps_p.append(row)
        emit("c10ProjectSideFace", "List (String × Nat)", steps_f, "Operation.project_side: `self.side_projects[index_1] = label` for index_1 = 0..3")
        emit("c10ProjectSideEdges", "List (List (String × List Nat))", steps_e, "Operation.project_side, `if edges:` — the statements in order with their index expressions evaluated, per index_1 = 0..3")
        emit("c10ProjectSidePoints", "List (List (String × List Nat))", steps_p, "Operation.project_side, `if points:` — the projected points in loop order, per index_1 = 0..3")

    emit.guard(project_side)

    def face_project() -> None:
        fp = _fn(Face.project)
        flags = {_param(fp, 2): "edges", _param(fp, 3): "points"}
        rows = []
        for st in fp.body:
            if isinstance(st, ast.If):
                loop = _body(st.body)[0]
                call = _body(loop.body)[0].value
                var = _loop_var(loop)
                if call.func.attr == "project_edge":
                    rows.append((flags[st.test.id], "project_edge", [int(_ev(call.args[0], {var: i})) for i in _range_of(loop)]))
                else:
                    rows.append((flags[st.test.id], _attr_path(call.func.value.value), [int(_ev(call.func.value.slice, {var: i})) for i in _range_of(loop)]))
        emit("c10FaceProject", "List (String × String × List Nat)", rows, "Face.project: (flag, what, indexes in loop order)")

    emit.guard(face_project)

    def face_reindexing() -> None:
        fi = _fn(Face.invert)
        comp = [n for n in ast.walk(fi) if isinstance(n, ast.ListComp)][0]
        emit("c10InvertIdx", "List Nat", list(ast.literal_eval(comp.generators[0].iter)), "Face.invert: edges = [edges[i] for i in <this>] after both lists were reversed")
        emit(
            "c10InvertStmts",
            "List String",
            [_attr_path(st.value.func) for st in _body(fi.body) if isinstance(st, ast.Expr) and isinstance(st.value, ast.Call)],
            "Face.invert: the in-place calls in order",
        )
        fs = _fn(Face.shift)
        count = _param(fs, 1)
        stmts = _body(fs.body)
        # `indexes = collections.deque(range(4))` then `indexes.rotate(count)`
        t0, v0, _ = next(_assigns(stmts))
        rot = [st for st in stmts if isinstance(st, ast.Expr) and isinstance(st.value, ast.Call) and getattr(st.value.func, "attr", "") == "rotate"][0]
        prep = [ast.Assign(targets=[t0], value=v0, lineno=1, col_offset=0), rot]
        rows = []
        big = [sgn * (10**k + r) for k in (3, 6, 9, 12) for r in range(4) for sgn in ((1,) if (k + r) % 2 else (-1,))]
        for c in list(range(-9, 10)) + big:
            env = {"collections": collections, "range": range, count: c}
            exec(compile(ast.fix_missing_locations(ast.Module(body=prep, type_ignores=[])), "<Face.shift>", "exec"), env)
            rows.append((c, [int(x) for x in env[t0.id]]))
        emit("c10ShiftIdx", "List (Int × List Nat)", rows, "Face.shift: `indexes` after `deque(range(4)).rotate(count)` for count = -9..9 and 16 counts of magnitude 10^3..10^12")
        shifted = [_attr_path(t) for t, v, _ in _assigns(stmts) if isinstance(v, ast.ListComp)]
        emit("c10ShiftLists", "List String", shifted, "Face.shift: the lists re-indexed by `indexes`")
        fr = _fn(Face.reorient)
        call = [st.value for st in fr.body if isinstance(st, ast.Expr) and isinstance(st.value, ast.Call) and getattr(st.value.func, "attr", "") == "shift"][0]
        local = [n.id for n in ast.walk(call.args[0]) if isinstance(n, ast.Name)][0]
        emit(
            "c10ReorientShift",
            "List Int",
            [int(_ev(call.args[0], {local: [j, (j + 1) % 4, (j + 2) % 4, (j + 3) % 4]})) for j in range(4)],
            "Face.reorient: the argument of self.shift(...) when the closest point has index j = 0..3",
        )

    emit.guard(face_reindexing)

    def edge_map_loop() -> None:
        mod = ast.parse(inspect.getsource(tools))
        loop = [st for st in mod.body if isinstance(st, ast.For)][0]
        var = _loop_var(loop)
        rows = []
        for i in _range_of(loop):
            env: Dict[str, Any] = {var: i, "SIDES_MAP": constants.SIDES_MAP}
            for st in _body(loop.body):
                got = list(_assigns([st]))
                if got and isinstance(got[0][0], ast.Name):
                    env[got[0][0].id] = _ev(got[0][1], env)
                elif isinstance(st, ast.Expr) and isinstance(st.value, ast.Call) and getattr(st.value.func, "attr", "") == "add_beam":
                    a, b, locn = st.value.args
                    assert locn.func.id == "EdgeLocation"
                    rows.append((int(_ev(a, env)), int(_ev(b, env)), int(_ev(locn.args[0], env)), int(_ev(locn.args[1], env)), str(_ev(locn.args[2], env))))
        emit(
            "c10EdgeMapInserts",
            "List (Nat × Nat × Nat × Nat × String)",
            rows,
            "tools.py module loop: edge_map.add_beam(a, b, EdgeLocation(l1, l2, side)) in execution order",
        )

    emit.guard(edge_map_loop)

    def revolve_wedge() -> None:
        rv = _fn(Revolve.__init__)
        loop = [st for st in rv.body if isinstance(st, ast.For)][0]
        call = _body(loop.body)[0].value
        assert call.func.attr == "add_side_edge"
        var = _loop_var(loop)
        emit(
            "c10RevolveSideEdges",
            "List (Nat × String)",
            [(int(_ev(call.args[0], {var: i})), "edges." + call.args[1].func.attr) for i in _range_of(loop)],
            "Revolve.__init__: add_side_edge(<index>, <edge data class>) in loop order",
        )
        wd = _fn(Wedge.__init__)
        pats = []
        for st in wd.body:
            if isinstance(st, ast.Expr) and isinstance(st.value, ast.Call) and getattr(st.value.func, "attr", "") == "set_patch":
                pats.append((ast.literal_eval(st.value.args[0]), ast.literal_eval(st.value.args[1])))
        emit("c10WedgePatches", "List (String × String)", pats, "Wedge.__init__: set_patch(side, name) calls in order")
        named = []
        for label, obj in (("set_inner_patch", Wedge.set_inner_patch), ("set_outer_patch", Wedge.set_outer_patch)):
            call = [st.value for st in _body(_fn(obj).body) if isinstance(st, ast.Expr) and isinstance(st.value, ast.Call)][0]
            named.append((label, ast.literal_eval(call.args[0])))
        emit("c10WedgeNamed", "List (String × String)", named, "Wedge.set_inner_patch / set_outer_patch: the side they address")

    emit.guard(revolve_wedge)
