"""Tables for C13: the guards, comparison operators, constants, default arguments and statement order of the
optimiser's control code, regenerated from the *current* source with `ast` / `inspect` on every run.

Expressions are emitted in postfix form as `List (String × Int × Nat)`:
  ("$<text>", 0, 1)   an atom: a name / attribute / subscript / call the translator does not look into
                      (`self.grid_initial`, `len(self.iterations)`, `self.iterations[0].initial_quality`, …)
  ("#", num, den)     a numeric literal (or a constant imported from `classy_blocks.util.constants`, replaced by
                      the decimal meaning of its value: VSMALL -> 1/1000000)
  ("#true"/"#false", 0, 1)
  ("-" "+" "*" "/" "neg" "abs" "<" "<=" ">" ">=" "==" "!=" "not", 0, 1)   operators (arity 2, `neg abs not` 1)
A function body that is a cascade `if g: return e … return e_last` (statements that only report / print are
skipped) is emitted as `List (guard × value)`, the last guard being `#true`.
No logic beyond this syntactic translation: what the expressions *mean* is the Lean side's business
(`CBV.C13.parseRPN`, `Expr.eval`), and `Props/C13.lean` proves that the model's own functions are those meanings.
"""

from __future__ import annotations

import ast
import inspect
import textwrap
from fractions import Fraction
from typing import Any, List, Tuple

Tok = Tuple[str, int, int]

_BIN = {ast.Sub: "-", ast.Add: "+", ast.Mult: "*", ast.Div: "/"}
_CMP = {ast.Lt: "<", ast.LtE: "<=", ast.Gt: ">", ast.GtE: ">=", ast.Eq: "==", ast.NotEq: "!="}


def _constants() -> dict:
    from classy_blocks.util import constants

    return {k: getattr(constants, k) for k in ("TOL", "VSMALL", "VBIG")}


def _num(v: Any) -> Tok:
    fr = Fraction(repr(v)) if isinstance(v, float) else Fraction(v)
    return ("#", fr.numerator, fr.denominator)


def rpn(node: ast.AST, consts: dict) -> List[Tok]:
    if isinstance(node, ast.Constant):
        if isinstance(node.value, bool):
            return [("#true" if node.value else "#false", 0, 1)]
        if isinstance(node.value, (int, float)):
            return [_num(node.value)]
        raise ValueError(f"constant {node.value!r}")
    if isinstance(node, ast.Name) and node.id in consts:
        return [_num(consts[node.id])]
    if isinstance(node, (ast.Name, ast.Attribute, ast.Subscript)):
        return [("$" + ast.unparse(node), 0, 1)]
    if isinstance(node, ast.Call):
        if isinstance(node.func, ast.Name) and node.func.id == "abs" and len(node.args) == 1 and not node.keywords:
            return rpn(node.args[0], consts) + [("abs", 0, 1)]
        return [("$" + ast.unparse(node), 0, 1)]
    if isinstance(node, ast.BinOp) and type(node.op) in _BIN:
        return rpn(node.left, consts) + rpn(node.right, consts) + [(_BIN[type(node.op)], 0, 1)]
    if isinstance(node, ast.UnaryOp) and isinstance(node.op, ast.USub):
        return rpn(node.operand, consts) + [("neg", 0, 1)]
    if isinstance(node, ast.UnaryOp) and isinstance(node.op, ast.Not):
        return rpn(node.operand, consts) + [("not", 0, 1)]
    if isinstance(node, ast.Compare) and len(node.ops) == 1 and type(node.ops[0]) in _CMP:
        return rpn(node.left, consts) + rpn(node.comparators[0], consts) + [(_CMP[type(node.ops[0])], 0, 1)]
    raise ValueError(f"expression outside the translated fragment: {ast.unparse(node)}")


def _fn(obj) -> ast.FunctionDef:
    if isinstance(obj, property):
        obj = obj.fget
    tree = ast.parse(textwrap.dedent(inspect.getsource(obj)))
    fn = tree.body[0]
    assert isinstance(fn, ast.FunctionDef)
    return fn


def _is_noise(st: ast.stmt) -> bool:
    """docstrings and statements that only print"""
    if isinstance(st, ast.Expr) and isinstance(st.value, ast.Constant) and isinstance(st.value.value, str):
        return True
    if isinstance(st, ast.Expr) and isinstance(st.value, ast.Call) and isinstance(st.value.func, ast.Name):
        return st.value.func.id in ("report", "print")
    return False


def cascade(obj, consts: dict) -> List[Tuple[List[Tok], List[Tok]]]:
    """`if g: return e` … `return e` as (guard, value) pairs"""
    out = []
    body = [s for s in _fn(obj).body if not _is_noise(s)]
    for st in body:
        if isinstance(st, ast.If) and not st.orelse:
            inner = [s for s in st.body if not _is_noise(s)]
            if len(inner) == 1 and isinstance(inner[0], ast.Return) and inner[0].value is not None:
                out.append((rpn(st.test, consts), rpn(inner[0].value, consts)))
                continue
        if isinstance(st, ast.Return) and st.value is not None and st is body[-1]:
            out.append(([("#true", 0, 1)], rpn(st.value, consts)))
            continue
        raise ValueError(f"{getattr(obj, '__qualname__', obj)}: not an if/return cascade: {ast.unparse(st)[:80]}")
    if not out or out[-1][0] != [("#true", 0, 1)]:
        raise ValueError("cascade does not end in an unconditional return")
    return out


def _stmts(body: List[ast.stmt]) -> List[str]:
    """one line per statement (compound statements: header, then the indented body), noise dropped"""
    out: List[str] = []
    for st in body:
        if _is_noise(st):
            continue
        if isinstance(st, ast.FunctionDef):
            out.append(f"def {st.name}({ast.unparse(st.args)}):")
            out += ["  " + s for s in _stmts(st.body)]
        elif isinstance(st, ast.If):
            out.append(f"if {ast.unparse(st.test)}:")
            out += ["  " + s for s in _stmts(st.body)]
            if st.orelse:
                out.append("else:")
                out += ["  " + s for s in _stmts(st.orelse)]
        elif isinstance(st, ast.Try):
            out.append("try:")
            out += ["  " + s for s in _stmts(st.body)]
            for h in st.handlers:
                out.append(f"except {ast.unparse(h.type) if h.type is not None else ''}:")
                out += ["  " + s for s in _stmts(h.body)]
            if st.orelse or st.finalbody:
                raise ValueError("try with else / finally")
        elif isinstance(st, (ast.For, ast.While)):
            head = f"for {ast.unparse(st.target)} in {ast.unparse(st.iter)}:" if isinstance(st, ast.For) else f"while {ast.unparse(st.test)}:"
            out.append(head)
            out += ["  " + s for s in _stmts(st.body)]
        else:
            out.append(ast.unparse(st))
    return out


def _defaults(fn: ast.FunctionDef) -> List[Tuple[str, str]]:
    args = fn.args.args
    ds = fn.args.defaults
    return [(a.arg, ast.unparse(d)) for a, d in zip(args[len(args) - len(ds):], ds)]


def _first(fn: ast.AST, pred):
    for n in ast.walk(fn):
        if pred(n):
            return n
    raise ValueError("construct not found in source")


def emit_all(emit):
    import dataclasses
    import typing

    from classy_blocks.optimize import iteration as it
    from classy_blocks.optimize import optimizer as om
    from classy_blocks.optimize.grid import GridBase

    consts = _constants()
    TOK = "List (String × Int × Nat)"
    CAS = f"List ({TOK} × {TOK})"

    emit("c13Consts", "List (String × Int × Nat)", [(k, *_num(v)[1:]) for k, v in consts.items()],
         "util.constants TOL, VSMALL, VBIG (decimal meaning of the literal)")

    # ---- ClampOptimizationData
    emit("c13SrcReporterImprovement", CAS, cascade(it.ClampOptimizationData.improvement, consts),
         "ClampOptimizationData.improvement")
    emit("c13SrcReporterFields", "List (String × String)",
         [(f.name, "" if f.default is dataclasses.MISSING else ast.unparse(ast.parse(repr(f.default)).body[0].value))
          for f in dataclasses.fields(it.ClampOptimizationData)],
         "dataclass fields of ClampOptimizationData with their defaults, in order")
    for name in ("undo", "rollback", "skip"):
        emit("c13SrcReporter" + name.capitalize(), "List String", _stmts(_fn(getattr(it.ClampOptimizationData, name)).body),
             f"ClampOptimizationData.{name}")

    # ---- IterationData / IterationDriver
    emit("c13SrcIterImprovement", CAS, cascade(it.IterationData.improvement, consts), "IterationData.improvement")
    emit("c13SrcInitialImprovement", CAS, cascade(it.IterationDriver.initial_improvement, consts),
         "IterationDriver.initial_improvement")
    emit("c13SrcLastImprovement", CAS, cascade(it.IterationDriver.last_improvement, consts),
         "IterationDriver.last_improvement")
    emit("c13SrcConverged", CAS, cascade(it.IterationDriver.converged, consts), "IterationDriver.converged")
    emit("c13SrcIterInit", "List String", _stmts(_fn(it.IterationData.__init__).body), "IterationData.__init__")
    emit("c13SrcBeginIteration", "List String", _stmts(_fn(it.IterationDriver.begin_iteration).body),
         "IterationDriver.begin_iteration")
    emit("c13SrcEndIteration", "List String", _stmts(_fn(it.IterationDriver.end_iteration).body),
         "IterationDriver.end_iteration")

    # ---- OptimizerBase.optimize_clamp
    oc = _fn(om.OptimizerBase.optimize_clamp)
    tr = _first(oc, lambda n: isinstance(n, ast.Try))
    test = _first(tr, lambda n: isinstance(n, ast.If)).test
    emit("c13SrcRollbackTest", TOK, rpn(test, consts), "the `if` inside the try block of optimize_clamp")
    emit("c13SrcOptimizeClamp", "List String", _stmts(oc.body), "OptimizerBase.optimize_clamp, statement by statement")
    emit("c13SrcClampExcept", "List String", [ast.unparse(h.type) if h.type is not None else "" for h in tr.handlers],
         "exception classes optimize_clamp catches")
    mz = _first(tr, lambda n: isinstance(n, ast.Call) and ast.unparse(n.func) == "scipy.optimize.minimize")
    emit("c13SrcMinimizeArgs", "List String", [ast.unparse(a) for a in mz.args] + [f"{k.arg}={ast.unparse(k.value)}" for k in mz.keywords],
         "arguments of the scipy.optimize.minimize call")

    # ---- _get_sensitivity, optimize_iteration, optimize
    gs = _fn(om.OptimizerBase._get_sensitivity)
    emit("c13SrcSensitivity", "List String", _stmts(gs.body), "OptimizerBase._get_sensitivity")
    fp = _first(gs, lambda n: isinstance(n, ast.Call) and ast.unparse(n.func) == "scipy.optimize.approx_fprime")
    eps = [k.value for k in fp.keywords if k.arg == "epsilon"]
    emit("c13SrcProbeEpsilon", TOK, rpn(eps[0], consts) if eps else [], "epsilon of the approx_fprime call")
    oi = _fn(om.OptimizerBase.optimize_iteration)
    emit("c13SrcOptimizeIteration", "List String", _stmts(oi.body), "OptimizerBase.optimize_iteration")
    srt = _first(oi, lambda n: isinstance(n, ast.Call) and isinstance(n.func, ast.Name) and n.func.id == "sorted")
    emit("c13SrcSortedReverse", "List String", [f"{k.arg}={ast.unparse(k.value)}" for k in srt.keywords if k.arg != "key"],
         "keywords of the sorted() call other than key")
    op = _fn(om.OptimizerBase.optimize)
    emit("c13SrcOptimize", "List String", [s for s in _stmts(op.body) if "time.time()" not in s], "OptimizerBase.optimize (timing dropped)")
    emit("c13SrcOptimizeDefaults", "List (String × String)", _defaults(op), "default arguments of optimize")
    emit("c13SrcAutoOptimizeDefaults", "List (String × String)", _defaults(_fn(om.SketchOptimizer.auto_optimize)),
         "default arguments of auto_optimize")
    dmi = dict(_defaults(op)).get("max_iterations", "0")
    emit("c13DefaultMaxIterations", "Nat", int(dmi) if dmi.isdigit() else 0, "optimize(max_iterations=…)")
    dtol = Fraction(dict(_defaults(op)).get("tolerance", "0"))
    emit("c13DefaultTolerance", "Int × Nat", (dtol.numerator, dtol.denominator), "optimize(tolerance=…)")
    emit("c13Methods", "List String", list(typing.get_args(om.MinimizationMethodType)), "MinimizationMethodType")
    emit("c13SrcDriverInit", "List String", _stmts(_fn(it.IterationDriver.__init__).body), "IterationDriver.__init__")

    # ---- GridBase.update / clamps / get_junction_from_clamp, backports
    up = _fn(GridBase.update)
    emit("c13SrcGridUpdate", "List String", _stmts(up.body), "GridBase.update")
    emit("c13SrcUpdateGuard", TOK, rpn(_first(up, lambda n: isinstance(n, ast.If)).test, consts),
         "the guard of GridBase.update that chooses grid quality over junction quality")
    emit("c13SrcGridClamps", "List String", _stmts(_fn(GridBase.clamps).body), "GridBase.clamps")
    emit("c13SrcJunctionFromClamp", "List String", _stmts(_fn(GridBase.get_junction_from_clamp).body),
         "GridBase.get_junction_from_clamp")
    emit("c13SrcBackportMesh", "List String", _stmts(_fn(om.MeshOptimizer.backport).body), "MeshOptimizer.backport")
    emit("c13SrcBackportSketch", "List String", _stmts(_fn(om.SketchOptimizer.backport).body), "SketchOptimizer.backport")
