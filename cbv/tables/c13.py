"""Tables for C13: the guards, comparison operators, constants, default arguments and statement order of the
optimiser's control code, regenerated from the *current* source with `ast` / `inspect` on every run.

Expressions are emitted in postfix form as `List (String × Int × Nat)`:
  ("$<text>", 0, 1)   an atom: a name / attribute / subscript / call the translator does not look into
                      (`self.grid_initial`, `len(self.iterations)`, `self.iterations[0].initial_quality`, …)
  ("#", num, den)     a numeric literal (or a constant imported from `classy_blocks.util.constants`, replaced by
                      the decimal meaning of its value: VSMALL -> 1/1000000)
  ("#true"/"#false", 0, 1)
  ("-" "+" "*" "/" "neg" "abs" "<" "<=" ">" ">=" "==" "!=" "not", 0, 1)   operators (arity 2, `neg abs not` 1)
A function body that is a cascade `if g: return e … return e_last` (statements that only report / print are
skipped) is emitted as `List (guard × value)`, the last guard being `#true`.
Text normalisation (round 6b) — only statement-level edits change a table: comments, docstrings, blank lines and
print / report statements are not seen; type annotations (arguments, `->`, `x: T = v`) are dropped; every local name
(parameters other than self, assigned names, loop / lambda / nested-def names) is renamed `v0, v1, …` in order of first
appearance before a statement list is printed; literals and default arguments are printed by `ast.unparse` (so
`0.10`, `"SLSQP"` and `'SLSQP'` are the same); inside a guard expression a parameter reads `<argN>` and a local that
is assigned once reads as its defining expression (`<ClassName>` when that is a constructor call).
No logic beyond this syntactic translation: what the expressions *mean* is the Lean side's business
(`CBV.C13.parseRPN`, `Expr.eval`), and `Props/C13.lean` proves that the model's own functions are those meanings.
"""

from __future__ import annotations

import ast
import inspect
import textwrap
from fractions import Fraction
from typing import Any, List, Tuple

Tok = Tuple[str, int, int]

_BIN = {ast.Sub: "-", ast.Add: "+", ast.Mult: "*", ast.Div: "/"}
_CMP = {ast.Lt: "<", ast.LtE: "<=", ast.Gt: ">", ast.GtE: ">=", ast.Eq: "==", ast.NotEq: "!="}


def _constants() -> dict:
    from classy_blocks.util import constants

    return {k: getattr(constants, k) for k in ("TOL", "VSMALL", "VBIG")}


def _num(v: Any) -> Tok:
    fr = Fraction(repr(v)) if isinstance(v, float) else Fraction(v)
    return ("#", fr.numerator, fr.denominator)


def rpn(node: ast.AST, consts: dict, res=None) -> List[Tok]:
    if isinstance(node, ast.Constant):
        if isinstance(node.value, bool):
            return [("#true" if node.value else "#false", 0, 1)]
        if isinstance(node.value, (int, float)):
            return [_num(node.value)]
        raise ValueError(f"constant {node.value!r}")
    if isinstance(node, ast.Name) and node.id in consts:
        return [_num(consts[node.id])]
    if isinstance(node, (ast.Name, ast.Attribute, ast.Subscript)):
        return [("$" + _atom(node, res), 0, 1)]
    if isinstance(node, ast.Call):
        if isinstance(node.func, ast.Name) and node.func.id == "abs" and len(node.args) == 1 and not node.keywords:
            return rpn(node.args[0], consts, res) + [("abs", 0, 1)]
        return [("$" + _atom(node, res), 0, 1)]
    if isinstance(node, ast.BinOp) and type(node.op) in _BIN:
        return rpn(node.left, consts, res) + rpn(node.right, consts, res) + [(_BIN[type(node.op)], 0, 1)]
    if isinstance(node, ast.UnaryOp) and isinstance(node.op, ast.USub):
        return rpn(node.operand, consts, res) + [("neg", 0, 1)]
    if isinstance(node, ast.UnaryOp) and isinstance(node.op, ast.Not):
        return rpn(node.operand, consts, res) + [("not", 0, 1)]
    if isinstance(node, ast.Compare) and len(node.ops) == 1 and type(node.ops[0]) in _CMP:
        return rpn(node.left, consts, res) + rpn(node.comparators[0], consts, res) + [(_CMP[type(node.ops[0])], 0, 1)]
    raise ValueError(f"expression outside the translated fragment: {ast.unparse(node)}")


def _atom(node: ast.AST, res) -> str:
    import copy

    return ast.unparse(res(copy.deepcopy(node)) if res is not None else node)


def _params(fn: ast.FunctionDef) -> List[str]:
    a = fn.args
    return [x.arg for x in a.posonlyargs + a.args + a.kwonlyargs if x.arg not in ("self", "cls")]


def resolver(fn: ast.FunctionDef):
    """inside a guard: parameter -> `<argN>`, local assigned exactly once -> its defining expression
    (`<ClassName>` for a constructor call), so that renaming a local or a parameter does not change the atom"""
    import copy

    params = _params(fn)
    defs: dict = {}
    for n in ast.walk(fn):
        if isinstance(n, ast.Assign) and len(n.targets) == 1 and isinstance(n.targets[0], ast.Name):
            defs.setdefault(n.targets[0].id, []).append(n.value)
        elif isinstance(n, ast.AnnAssign) and isinstance(n.target, ast.Name) and n.value is not None:
            defs.setdefault(n.target.id, []).append(n.value)

    def res(node: ast.AST, depth: int = 0) -> ast.AST:
        class T(ast.NodeTransformer):
            def visit_Name(self, n):
                if n.id in params:
                    return ast.Name(id=f"<arg{params.index(n.id) + 1}>", ctx=ast.Load())
                if len(defs.get(n.id, [])) == 1 and depth < 4:
                    v = defs[n.id][0]
                    if isinstance(v, ast.Call) and isinstance(v.func, ast.Name) and v.func.id[:1].isupper():
                        return ast.Name(id=f"<{v.func.id}>", ctx=ast.Load())
                    return res(copy.deepcopy(v), depth + 1)
                return n

        return T().visit(node)

    return res


def normalised(fn: ast.FunctionDef) -> ast.FunctionDef:
    """a copy with the annotations dropped and every local name renamed v0, v1, … in order of first appearance"""
    import copy

    fn = copy.deepcopy(fn)
    names: List[str] = []

    def add(n: str) -> None:
        if n not in names and n not in ("self", "cls"):
            names.append(n)

    class Collect(ast.NodeVisitor):
        def _args(self, a: ast.arguments) -> None:
            for x in a.posonlyargs + a.args + ([a.vararg] if a.vararg else []) + a.kwonlyargs + ([a.kwarg] if a.kwarg else []):
                add(x.arg)

        def visit_FunctionDef(self, node):
            if node is not fn:
                add(node.name)
            self._args(node.args)
            for st in node.body:
                self.visit(st)

        def visit_Lambda(self, node):
            self._args(node.args)
            self.visit(node.body)

        def visit_Name(self, node):
            if isinstance(node.ctx, ast.Store):
                add(node.id)

        def visit_ExceptHandler(self, node):
            if node.name:
                add(node.name)
            self.generic_visit(node)

    Collect().visit(fn)
    new = {n: f"v{k}" for k, n in enumerate(names)}

    class Rename(ast.NodeTransformer):
        def visit_Name(self, n):
            n.id = new.get(n.id, n.id)
            return n

        def visit_arg(self, n):
            n.arg = new.get(n.arg, n.arg)
            n.annotation = None
            return n

        def visit_FunctionDef(self, n):
            if n is not fn:
                n.name = new.get(n.name, n.name)
            n.returns = None
            self.generic_visit(n)
            return n

        def visit_AnnAssign(self, n):
            self.generic_visit(n)
            if n.value is None:
                return None
            return ast.copy_location(ast.Assign(targets=[n.target], value=n.value), n)

        def visit_ExceptHandler(self, n):
            if n.name:
                n.name = new.get(n.name, n.name)
            self.generic_visit(n)
            return n

    fn = Rename().visit(fn)
    ast.fix_missing_locations(fn)
    return fn


def body_text(obj) -> List[str]:
    return _stmts(normalised(_fn(obj)).body)


def _fn(obj) -> ast.FunctionDef:
    if isinstance(obj, property):
        obj = obj.fget
    tree = ast.parse(textwrap.dedent(inspect.getsource(obj)))
    fn = tree.body[0]
    assert isinstance(fn, ast.FunctionDef)
    return fn


def _is_noise(st: ast.stmt) -> bool:
    """docstrings and statements that only print"""
    if isinstance(st, ast.Expr) and isinstance(st.value, ast.Constant) and isinstance(st.value.value, str):
        return True
    if isinstance(st, ast.Expr) and isinstance(st.value, ast.Call) and isinstance(st.value.func, ast.Name):
        return st.value.func.id in ("report", "print")
    return False


def cascade(obj, consts: dict) -> List[Tuple[List[Tok], List[Tok]]]:
    """`if g: return e` … `return e` as (guard, value) pairs"""
    out = []
    body = [s for s in _fn(obj).body if not _is_noise(s)]
    for st in body:
        if isinstance(st, ast.If) and not st.orelse:
            inner = [s for s in st.body if not _is_noise(s)]
            if len(inner) == 1 and isinstance(inner[0], ast.Return) and inner[0].value is not None:
                out.append((rpn(st.test, consts), rpn(inner[0].value, consts)))
                continue
        if isinstance(st, ast.Return) and st.value is not None and st is body[-1]:
            out.append(([("#true", 0, 1)], rpn(st.value, consts)))
            continue
        raise ValueError(f"{getattr(obj, '__qualname__', obj)}: not an if/return cascade: {ast.unparse(st)[:80]}")
    if not out or out[-1][0] != [("#true", 0, 1)]:
        raise ValueError("cascade does not end in an unconditional return")
    return out


def _stmts(body: List[ast.stmt]) -> List[str]:
    """one line per statement (compound statements: header, then the indented body), noise dropped"""
    out: List[str] = []
    for st in body:
        if _is_noise(st):
            continue
        if isinstance(st, ast.FunctionDef):
            out.append(f"def {st.name}({ast.unparse(st.args)}):")
            out += ["  " + s for s in _stmts(st.body)]
        elif isinstance(st, ast.If):
            out.append(f"if {ast.unparse(st.test)}:")
            out += ["  " + s for s in _stmts(st.body)]
            if st.orelse:
                out.append("else:")
                out += ["  " + s for s in _stmts(st.orelse)]
        elif isinstance(st, ast.Try):
            out.append("try:")
            out += ["  " + s for s in _stmts(st.body)]
            for h in st.handlers:
                out.append(f"except {ast.unparse(h.type) if h.type is not None else ''}:")
                out += ["  " + s for s in _stmts(h.body)]
            if st.orelse or st.finalbody:
                raise ValueError("try with else / finally")
        elif isinstance(st, (ast.For, ast.While)):
            head = f"for {ast.unparse(st.target)} in {ast.unparse(st.iter)}:" if isinstance(st, ast.For) else f"while {ast.unparse(st.test)}:"
            out.append(head)
            out += ["  " + s for s in _stmts(st.body)]
        else:
            out.append(ast.unparse(st))
    return out


def _first(fn: ast.AST, pred):
    for n in ast.walk(fn):
        if pred(n):
            return n
    raise ValueError("construct not found in source")


def emit_all(emit):
    import dataclasses
    import typing

    from classy_blocks.optimize import iteration as it
    from classy_blocks.optimize import optimizer as om
    from classy_blocks.optimize.grid import GridBase

    consts = _constants()
    TOK = "List (String × Int × Nat)"
    CAS = f"List ({TOK} × {TOK})"
    guard = getattr(emit, "guard", lambda fn, *a, **k: fn(*a, **k))

    # ---- plain value tables first (read from the imported package, no ast)
    emit("c13Consts", "List (String × Int × Nat)", [(k, *_num(v)[1:]) for k, v in consts.items()],
         "util.constants TOL, VSMALL, VBIG (decimal meaning of the literal)")
    emit("c13Methods", "List String", list(typing.get_args(om.MinimizationMethodType)), "MinimizationMethodType")

    def value_defaults():
        sig = inspect.signature(om.OptimizerBase.optimize)
        mi = sig.parameters["max_iterations"].default
        emit("c13DefaultMaxIterations", "Nat", int(mi), "optimize(max_iterations=…)")
        dtol = Fraction(repr(sig.parameters["tolerance"].default))
        emit("c13DefaultTolerance", "Int × Nat", (dtol.numerator, dtol.denominator), "optimize(tolerance=…)")
        for name, fn in (("c13SrcOptimizeDefaults", om.OptimizerBase.optimize), ("c13SrcAutoOptimizeDefaults", om.SketchOptimizer.auto_optimize)):
            ps = inspect.signature(fn).parameters
            emit(name, "List (String × String)", [(k, repr(p.default)) for k, p in ps.items() if p.default is not inspect.Parameter.empty],
                 f"default arguments of {fn.__qualname__} (repr of the values)")

    guard(value_defaults)
    guard(lambda: emit("c13SrcReporterFields", "List (String × String)",
                       [(f.name, "" if f.default is dataclasses.MISSING else repr(f.default)) for f in dataclasses.fields(it.ClampOptimizationData)],
                       "dataclass fields of ClampOptimizationData with their defaults, in order"))

    # ---- ast groups, each on its own: one method outside the translated fragment does not remove the others
    def cas(name, obj, doc):
        guard(lambda: emit(name, CAS, cascade(obj, consts), doc))

    def body(name, obj, doc):
        guard(lambda: emit(name, "List String", body_text(obj), doc + " (locals renamed, annotations dropped)"))

    cas("c13SrcReporterImprovement", it.ClampOptimizationData.improvement, "ClampOptimizationData.improvement")
    for name in ("undo", "rollback", "skip"):
        body("c13SrcReporter" + name.capitalize(), getattr(it.ClampOptimizationData, name), f"ClampOptimizationData.{name}")

    cas("c13SrcIterImprovement", it.IterationData.improvement, "IterationData.improvement")
    cas("c13SrcInitialImprovement", it.IterationDriver.initial_improvement, "IterationDriver.initial_improvement")
    cas("c13SrcLastImprovement", it.IterationDriver.last_improvement, "IterationDriver.last_improvement")
    cas("c13SrcConverged", it.IterationDriver.converged, "IterationDriver.converged")
    body("c13SrcIterInit", it.IterationData.__init__, "IterationData.__init__")
    body("c13SrcDriverInit", it.IterationDriver.__init__, "IterationDriver.__init__")
    body("c13SrcBeginIteration", it.IterationDriver.begin_iteration, "IterationDriver.begin_iteration")
    body("c13SrcEndIteration", it.IterationDriver.end_iteration, "IterationDriver.end_iteration")

    # ---- OptimizerBase.optimize_clamp
    def clamp_test():
        oc = _fn(om.OptimizerBase.optimize_clamp)
        tr = _first(oc, lambda n: isinstance(n, ast.Try))
        test = _first(tr, lambda n: isinstance(n, ast.If)).test
        emit("c13SrcRollbackTest", TOK, rpn(test, consts, resolver(oc)), "the `if` inside the try block of optimize_clamp")

    def clamp_details():
        oc = normalised(_fn(om.OptimizerBase.optimize_clamp))
        tr = _first(oc, lambda n: isinstance(n, ast.Try))
        emit("c13SrcClampExcept", "List String", [ast.unparse(h.type) if h.type is not None else "" for h in tr.handlers],
             "exception classes optimize_clamp catches")
        mz = _first(tr, lambda n: isinstance(n, ast.Call) and ast.unparse(n.func) == "scipy.optimize.minimize")
        emit("c13SrcMinimizeArgs", "List String", [ast.unparse(a) for a in mz.args] + [f"{k.arg}={ast.unparse(k.value)}" for k in mz.keywords],
             "arguments of the scipy.optimize.minimize call (locals renamed as in c13SrcOptimizeClamp)")

    guard(clamp_test)
    guard(clamp_details)
    body("c13SrcOptimizeClamp", om.OptimizerBase.optimize_clamp, "OptimizerBase.optimize_clamp, statement by statement")

    # ---- _get_sensitivity, optimize_iteration, optimize
    def probe_eps():
        gs = _fn(om.OptimizerBase._get_sensitivity)
        fp = _first(gs, lambda n: isinstance(n, ast.Call) and ast.unparse(n.func) == "scipy.optimize.approx_fprime")
        eps = [k.value for k in fp.keywords if k.arg == "epsilon"]
        emit("c13SrcProbeEpsilon", TOK, rpn(eps[0], consts, resolver(gs)) if eps else [], "epsilon of the approx_fprime call")

    def sorted_kw():
        oi = _fn(om.OptimizerBase.optimize_iteration)
        srt = _first(oi, lambda n: isinstance(n, ast.Call) and isinstance(n.func, ast.Name) and n.func.id == "sorted")
        emit("c13SrcSortedReverse", "List String", [f"{k.arg}={ast.unparse(k.value)}" for k in srt.keywords if k.arg != "key"],
             "keywords of the sorted() call other than key")

    guard(probe_eps)
    guard(sorted_kw)
    body("c13SrcSensitivity", om.OptimizerBase._get_sensitivity, "OptimizerBase._get_sensitivity")
    body("c13SrcOptimizeIteration", om.OptimizerBase.optimize_iteration, "OptimizerBase.optimize_iteration")
    guard(lambda: emit("c13SrcOptimize", "List String", [s for s in body_text(om.OptimizerBase.optimize) if "time.time()" not in s],
                       "OptimizerBase.optimize (timing dropped; locals renamed, annotations dropped)"))

    # ---- GridBase.update / clamps / get_junction_from_clamp, backports
    def update_guard():
        up = _fn(GridBase.update)
        emit("c13SrcUpdateGuard", TOK, rpn(_first(up, lambda n: isinstance(n, ast.If)).test, consts, resolver(up)),
             "the guard of GridBase.update that chooses grid quality over junction quality")

    guard(update_guard)
    body("c13SrcGridUpdate", GridBase.update, "GridBase.update")
    body("c13SrcGridClamps", GridBase.clamps, "GridBase.clamps")
    body("c13SrcJunctionFromClamp", GridBase.get_junction_from_clamp, "GridBase.get_junction_from_clamp")
    body("c13SrcBackportMesh", om.MeshOptimizer.backport, "MeshOptimizer.backport")
    body("c13SrcBackportSketch", om.SketchOptimizer.backport, "SketchOptimizer.backport")
