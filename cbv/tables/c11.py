"""C11 tables: quad maps / grids / chop lists of every sketch class, and for every predefined shape
class the blocking of a probe instance (block -> 8 vertex indices as Mesh.assemble() numbers them)
together with the chop dispatch (which operation/axis every documented chop call touches).

No logic: values are read from the imported package (class attributes, probe instances)."""

from __future__ import annotations


def sketch_probes():
    """name -> factory of a probe instance of every sketch class (fixed, axis-aligned; only topology is read)."""
    from classy_blocks.construct.flat.sketches import disk as d
    from classy_blocks.construct.flat.sketches import spline_round as s

    c, r, n = [0.0, 0.0, 0.0], [1.0, 0.0, 0.0], [0.0, 0.0, 1.0]
    c1, c2 = [1.0, 0.0, 0.0], [0.0, 1.25, 0.0]
    kw = {"n_outer_spline_points": 4, "n_straight_spline_points": 3}
    return {
        "OneCoreDisk": lambda: d.OneCoreDisk(c, r, n),
        "QuarterDisk": lambda: d.QuarterDisk(c, r, n),
        "HalfDisk": lambda: d.HalfDisk(c, r, n),
        "FourCoreDisk": lambda: d.FourCoreDisk(c, r, n),
        "WrappedDisk": lambda: d.WrappedDisk(c, [2.0, 0.0, 0.0], 0.5, n),
        "Oval": lambda: d.Oval(c, [0.0, 2.0, 0.0], n, 0.5),
        "QuarterSplineDisk": lambda: s.QuarterSplineDisk(c, c1, c2, 0.125, 0.25, **kw),
        "HalfSplineDisk": lambda: s.HalfSplineDisk(c, c1, c2, 0.125, 0.25, **kw),
        "SplineDisk": lambda: s.SplineDisk(c, c1, c2, 0.125, 0.25, **kw),
        "QuarterSplineRing": lambda: s.QuarterSplineRing(c, c1, c2, 0.125, 0.25, 0.125, 0.125, **kw),
        "HalfSplineRing": lambda: s.HalfSplineRing(c, c1, c2, 0.125, 0.25, 0.125, 0.125, **kw),
        "SplineRing": lambda: s.SplineRing(c, c1, c2, 0.125, 0.25, 0.125, 0.125, **kw),
    }


RING_SEGMENTS = (3, 4, 5, 6, 8, 12)
JOINT_BRANCHES = (2, 3, 4, 5, 6)
STACK_REPEATS = (2,)
GRID_SIZES = ((1, 1), (2, 1), (1, 3), (2, 3), (3, 2))


def shape_probes():
    """name -> (factory of a fresh probe instance, [three chop calls])."""
    import numpy as np

    import classy_blocks as cb
    from classy_blocks.construct.assemblies.joints import LJoint, NJoint, TJoint

    a1, a2, rp = [0.0, 0.0, 0.0], [0.0, 0.0, 2.0], [1.0, 0.0, 0.0]
    round_calls = [lambda s: s.chop_axial(count=1), lambda s: s.chop_radial(count=1), lambda s: s.chop_tangential(count=1)]
    axis_calls = [lambda s: s.chop(0, count=1), lambda s: s.chop(1, count=1), lambda s: s.chop(2, count=1)]
    stack_calls = [lambda s: s.shapes[0].chop(0, count=1), lambda s: s.shapes[0].chop(1, count=1), lambda s: s.chop(count=1)]

    def xs_face():
        return cb.Face([[0.25, 0.5, 0], [1.0, 0.5, 0], [1.0, 1.0, 0], [0.25, 1.0, 0]])

    probes = {
        "Cylinder": (lambda: cb.Cylinder(a1, a2, rp), round_calls),
        "SemiCylinder": (lambda: cb.SemiCylinder(a1, a2, rp), round_calls),
        "Frustum": (lambda: cb.Frustum(a1, a2, rp, 0.5), round_calls),
        "Elbow": (lambda: cb.Elbow(a1, rp, [0.0, 0.0, 1.0], np.pi / 3, [4.0, 0.0, 0.0], [0.0, -1.0, 0.0], 0.5), round_calls),
        "Hemisphere": (lambda: cb.Hemisphere(a1, rp, [0.0, 0.0, 1.0]), round_calls),
        "LJoint": (lambda: LJoint([0.0, -4.0, 0.0], [0.0, 0.0, 0.0], [0.0, -4.0, 1.0]), round_calls),
        "TJoint": (lambda: TJoint([0.0, -4.0, 0.0], [0.0, 0.0, 0.0], [0.0, -4.0, 1.0]), round_calls),
    }
    for n in RING_SEGMENTS:
        probes[f"ExtrudedRing{n}"] = (lambda n=n: cb.ExtrudedRing(a1, a2, rp, 0.5, n), round_calls)
        probes[f"RevolvedRing{n}"] = (lambda n=n: cb.RevolvedRing(a1, [1.0, 0.0, 0.0], xs_face(), n), round_calls)
    for k in JOINT_BRANCHES:
        probes[f"NJoint{k}"] = (lambda k=k: NJoint([0.0, -4.0, 0.0], [0.0, 0.0, 0.0], [0.0, -4.0, 1.0], k), round_calls)
    for name, mk in sketch_probes().items():
        probes[f"Extruded{name}"] = (lambda mk=mk: cb.ExtrudedShape(mk(), 1.0), axis_calls)
        for k in STACK_REPEATS:
            probes[f"Stack{k}{name}"] = (lambda mk=mk, k=k: cb.ExtrudedStack(mk(), 1.0 * k, k), stack_calls)
    return probes


def blocking(entity):
    """Block -> vertex indexes exactly as Mesh.assemble() numbers them (its vertex step only: the quadratic
    neighbour search of BlockList.add is not needed for the numbering)."""
    import classy_blocks as cb

    mesh = cb.Mesh()
    return [[v.index for v in mesh._add_vertices(op)] for op in entity.operations]


def chopped(entity):
    return [(i, a) for i, op in enumerate(entity.operations) for a in (0, 1, 2) if len(op.chops[a]) > 0]


def emit_all(emit):
    import classy_blocks as cb

    sk = []
    for name, mk in sketch_probes().items():
        s = mk()
        faces = list(s.faces)
        grid = [[next(i for i, f in enumerate(faces) if f is g) for g in row] for row in s.grid]
        sk.append((name, [list(map(int, q)) for q in s.indexes], grid, [list(c) for c in type(s).chops]))
    emit(
        "c11Sketches",
        "List (String × List (List Nat) × List (List Nat) × List (List Nat))",
        sk,
        "sketch class: (name, MappedSketch.indexes in faces order, Sketch.grid as face indexes, Sketch.chops)",
    )

    shapes = []
    for name, (make, calls) in shape_probes().items():
        disp = []
        ent = make()
        seen = []
        for call in calls:
            call(ent)
            now = chopped(ent)
            disp.append([x for x in now if x not in seen])
            seen = now
        shapes.append((name, blocking(ent), disp))
    emit(
        "c11Shapes",
        "List (String × List (List Nat) × List (List (Nat × Nat)))",
        shapes,
        "shape class: (name, block -> vertex indexes of an assembled probe, "
        "(operation, axis) pairs chopped by chop_axial/chop_radial/chop_tangential resp. chop(0)/chop(1)/chop(2) "
        "resp. shapes[0].chop(0)/shapes[0].chop(1)/stack.chop())",
    )

    grids = []
    for n, m in GRID_SIZES:
        for k in (1, 2):
            grids.append((n, m, k, blocking(cb.ExtrudedStack(cb.Grid([0, 0, 0], [1, 1, 0], n, m), 1.0, k))))
    emit("c11GridProbes", "List (Nat × Nat × Nat × List (List Nat))", grids, "ExtrudedStack(Grid(n, m), k): (n, m, k, blocking)")
