"""C11 tables: quad maps / grids / chop lists of every sketch class, and for every predefined shape
class the blocking of a probe instance (block -> 8 vertex indices as Mesh.assemble() numbers them)
together with the chop dispatch (which operation/axis every documented chop call touches).

No logic: values are read from the imported package (class attributes, probe instances)."""

from __future__ import annotations


def sketch_probes():
    """name -> factory of a probe instance of every sketch class (fixed, axis-aligned; only topology is read)."""
    from classy_blocks.construct.flat.sketches import disk as d
    from classy_blocks.construct.flat.sketches import spline_round as s

    c, r, n = [0.0, 0.0, 0.0], [1.0, 0.0, 0.0], [0.0, 0.0, 1.0]
    c1, c2 = [1.0, 0.0, 0.0], [0.0, 1.25, 0.0]
    kw = {"n_outer_spline_points": 4, "n_straight_spline_points": 3}
    return {
        "OneCoreDisk": lambda: d.OneCoreDisk(c, r, n),
        "QuarterDisk": lambda: d.QuarterDisk(c, r, n),
        "HalfDisk": lambda: d.HalfDisk(c, r, n),
        "FourCoreDisk": lambda: d.FourCoreDisk(c, r, n),
        "WrappedDisk": lambda: d.WrappedDisk(c, [2.0, 0.0, 0.0], 0.5, n),
        "Oval": lambda: d.Oval(c, [0.0, 2.0, 0.0], n, 0.5),
        "QuarterSplineDisk": lambda: s.QuarterSplineDisk(c, c1, c2, 0.125, 0.25, **kw),
        "HalfSplineDisk": lambda: s.HalfSplineDisk(c, c1, c2, 0.125, 0.25, **kw),
        "SplineDisk": lambda: s.SplineDisk(c, c1, c2, 0.125, 0.25, **kw),
        "QuarterSplineRing": lambda: s.QuarterSplineRing(c, c1, c2, 0.125, 0.25, 0.125, 0.125, **kw),
        "HalfSplineRing": lambda: s.HalfSplineRing(c, c1, c2, 0.125, 0.25, 0.125, 0.125, **kw),
        "SplineRing": lambda: s.SplineRing(c, c1, c2, 0.125, 0.25, 0.125, 0.125, **kw),
    }


RING_SEGMENTS = (3, 4, 5, 6, 8, 12)
JOINT_BRANCHES = (2, 3, 4, 5, 6)
STACK_REPEATS = (2,)
GRID_SIZES = ((1, 1), (2, 1), (1, 3), (2, 3), (3, 2))


def shape_probes():
    """name -> (factory of a fresh probe instance, [three chop calls])."""
    import numpy as np

    import classy_blocks as cb
    from classy_blocks.construct.assemblies.joints import LJoint, NJoint, TJoint

    a1, a2, rp = [0.0, 0.0, 0.0], [0.0, 0.0, 2.0], [1.0, 0.0, 0.0]
    round_calls = [lambda s: s.chop_axial(count=1), lambda s: s.chop_radial(count=1), lambda s: s.chop_tangential(count=1)]
    axis_calls = [lambda s: s.chop(0, count=1), lambda s: s.chop(1, count=1), lambda s: s.chop(2, count=1)]
    stack_calls = [lambda s: s.shapes[0].chop(0, count=1), lambda s: s.shapes[0].chop(1, count=1), lambda s: s.chop(count=1)]

    def xs_face():
        return cb.Face([[0.25, 0.5, 0], [1.0, 0.5, 0], [1.0, 1.0, 0], [0.25, 1.0, 0]])

    probes = {
        "Cylinder": (lambda: cb.Cylinder(a1, a2, rp), round_calls),
        "SemiCylinder": (lambda: cb.SemiCylinder(a1, a2, rp), round_calls),
        "Frustum": (lambda: cb.Frustum(a1, a2, rp, 0.5), round_calls),
        "Elbow": (lambda: cb.Elbow(a1, rp, [0.0, 0.0, 1.0], np.pi / 3, [4.0, 0.0, 0.0], [0.0, -1.0, 0.0], 0.5), round_calls),
        "Hemisphere": (lambda: cb.Hemisphere(a1, rp, [0.0, 0.0, 1.0]), round_calls),
        "LJoint": (lambda: LJoint([0.0, -4.0, 0.0], [0.0, 0.0, 0.0], [0.0, -4.0, 1.0]), round_calls),
        "TJoint": (lambda: TJoint([0.0, -4.0, 0.0], [0.0, 0.0, 0.0], [0.0, -4.0, 1.0]), round_calls),
    }
    for n in RING_SEGMENTS:
        probes[f"ExtrudedRing{n}"] = (lambda n=n: cb.ExtrudedRing(a1, a2, rp, 0.5, n), round_calls)
        probes[f"RevolvedRing{n}"] = (lambda n=n: cb.RevolvedRing(a1, [1.0, 0.0, 0.0], xs_face(), n), round_calls)
    for k in JOINT_BRANCHES:
        probes[f"NJoint{k}"] = (lambda k=k: NJoint([0.0, -4.0, 0.0], [0.0, 0.0, 0.0], [0.0, -4.0, 1.0], k), round_calls)
    for name, mk in sketch_probes().items():
        probes[f"Extruded{name}"] = (lambda mk=mk: cb.ExtrudedShape(mk(), 1.0), axis_calls)
        for k in STACK_REPEATS:
            probes[f"Stack{k}{name}"] = (lambda mk=mk, k=k: cb.ExtrudedStack(mk(), 1.0 * k, k), stack_calls)
    return probes


def blocking(entity):
    """Block -> vertex indexes exactly as Mesh.assemble() numbers them (its vertex step only: the quadratic
    neighbour search of BlockList.add is not needed for the numbering)."""
    import classy_blocks as cb

    mesh = cb.Mesh()
    return [[v.index for v in mesh._add_vertices(op)] for op in entity.operations]


def chopped(entity):
    return [(i, a) for i, op in enumerate(entity.operations) for a in (0, 1, 2) if len(op.chops[a]) > 0]


def emit_all(emit):
    """Order: the probe tables the *model* names (`c11Sketches`, `c11Shapes`) first — every probe instance is built
    inside its own `emit.guard`, so a class that can no longer be constructed is only missing from the table (the
    model then answers `bad-op` for it and `T_C11_sketch_table` / the probe theorems fail), the others stay; then
    the tables only `Props/C11.lean` names: grid probes and the `ast` group of disk.py, each one guarded group."""
    import classy_blocks as cb

    guard = getattr(emit, "guard", None) or (lambda fn, *a, **k: fn(*a, **k))

    def sketch_entry(name, mk):
        s = mk()
        faces = list(s.faces)
        grid = [[next(i for i, f in enumerate(faces) if f is g) for g in row] for row in s.grid]
        return (name, [list(map(int, q)) for q in s.indexes], grid, [list(c) for c in type(s).chops])

    sk = [e for e in (guard(sketch_entry, name, mk) for name, mk in sketch_probes().items()) if e is not None]
    emit(
        "c11Sketches",
        "List (String × List (List Nat) × List (List Nat) × List (List Nat))",
        sk,
        "sketch class: (name, MappedSketch.indexes in faces order, Sketch.grid as face indexes, Sketch.chops)",
    )

    def shape_entry(name, make, calls):
        disp = []
        ent = make()
        seen = []
        for call in calls:
            call(ent)
            now = chopped(ent)
            disp.append([x for x in now if x not in seen])
            seen = now
        return (name, blocking(ent), disp)

    probes = guard(shape_probes) or {}
    shapes = [e for e in (guard(shape_entry, name, make, calls) for name, (make, calls) in probes.items()) if e is not None]
    emit(
        "c11Shapes",
        "List (String × List (List Nat) × List (List (Nat × Nat)))",
        shapes,
        "shape class: (name, block -> vertex indexes of an assembled probe, "
        "(operation, axis) pairs chopped by chop_axial/chop_radial/chop_tangential resp. chop(0)/chop(1)/chop(2) "
        "resp. shapes[0].chop(0)/shapes[0].chop(1)/stack.chop())",
    )

    # ---- tables named by Props/C11.lean only
    def grid_group():
        grids = []
        for n, m in GRID_SIZES:
            for k in (1, 2):
                grids.append((n, m, k, blocking(cb.ExtrudedStack(cb.Grid([0, 0, 0], [1, 1, 0], n, m), 1.0, k))))
        emit("c11GridProbes", "List (Nat × Nat × Nat × List (List Nat))", grids, "ExtrudedStack(Grid(n, m), k): (n, m, k, blocking)")

    guard(grid_group)

    def disk_ast_group():
        for name, typ, val, doc in disk_generator_tables():
            emit(name, typ, val, doc)

    guard(disk_ast_group)


# ----------------------------------------------------------------------------- point generators (round 6)
DISK_CLASSES = ("OneCoreDisk", "QuarterDisk", "HalfDisk", "FourCoreDisk", "WrappedDisk", "Oval")


class _Q2:
    """a + b*sqrt(2) with rational a, b (exact evaluation of `diagonal_ratio`)"""

    def __init__(self, a, b=0):
        from fractions import Fraction

        self.a, self.b = Fraction(a), Fraction(b)

    def __mul__(self, o):
        return _Q2(self.a * o.a + 2 * self.b * o.b, self.a * o.b + self.b * o.a)

    def __truediv__(self, o):
        n = o.a * o.a - 2 * o.b * o.b
        return self * _Q2(o.a / n, -o.b / n)

    def __add__(self, o):
        return _Q2(self.a + o.a, self.b + o.b)

    def __sub__(self, o):
        return _Q2(self.a - o.a, self.b - o.b)


def disk_generator_tables():
    """What `construct/flat/sketches/disk.py` states literally about its point generators, read with `ast`:
    core_ratio, diagonal_ratio (evaluated exactly in Q[sqrt 2] from the property's return expression), and per
    class the `np.linspace` arguments of `angles`, the `ratios` list and the layout of the positions list."""
    import ast
    import inspect
    from fractions import Fraction

    from classy_blocks.construct.flat.sketches import disk as d

    tree = ast.parse(inspect.getsource(d))
    classes = {n.name: n for n in tree.body if isinstance(n, ast.ClassDef)}

    def lit(node) -> Fraction:
        assert isinstance(node, ast.Constant) and isinstance(node.value, (int, float)), ast.dump(node)
        return Fraction(repr(node.value))

    base = classes["DiskBase"]
    consts = {}
    for st in base.body:
        if isinstance(st, ast.Assign) and isinstance(st.targets[0], ast.Name):
            nm = st.targets[0].id
            if nm == "core_ratio":
                consts["core_ratio"] = lit(st.value)
            if nm == "spline_ratios":
                consts["spline_ratios"] = [lit(e) for e in st.value.elts]
    diag_fn = next(st for st in base.body if isinstance(st, ast.FunctionDef) and st.name == "diagonal_ratio")
    ret = next(st for st in diag_fn.body if isinstance(st, ast.Return)).value

    def ev(node) -> _Q2:
        if isinstance(node, ast.BinOp):
            if isinstance(node.op, ast.Pow):
                # only 2**0.5
                assert lit(node.left) == 2 and lit(node.right) == Fraction(1, 2), ast.dump(node)
                return _Q2(0, 1)
            l, r = ev(node.left), ev(node.right)
            if isinstance(node.op, ast.Mult):
                return l * r
            if isinstance(node.op, ast.Div):
                return l / r
            if isinstance(node.op, ast.Add):
                return l + r
            if isinstance(node.op, ast.Sub):
                return l - r
        if isinstance(node, ast.Constant):
            return _Q2(lit(node))
        if isinstance(node, ast.Attribute) and isinstance(node.value, ast.Name) and node.value.id == "self":
            return _Q2(consts[node.attr])
        if isinstance(node, ast.Subscript) and isinstance(node.value, ast.Attribute) and node.value.attr == "spline_ratios":
            return _Q2(consts["spline_ratios"][int(lit(node.slice))])
        raise AssertionError("diagonal_ratio: unexpected expression " + ast.dump(node))

    diag = ev(ret)

    def nd(q: Fraction):
        assert q >= 0
        return (q.numerator, q.denominator)

    def pi_units(node) -> Fraction:
        """value of an expression in np.pi, in units of pi/4"""
        if isinstance(node, ast.Attribute) and node.attr == "pi":
            return Fraction(4)
        if isinstance(node, ast.BinOp) and isinstance(node.op, ast.Mult):
            return (lit(node.left) * pi_units(node.right)) if isinstance(node.left, ast.Constant) else (pi_units(node.left) * lit(node.right))
        if isinstance(node, ast.BinOp) and isinstance(node.op, ast.Div):
            return pi_units(node.left) / lit(node.right)
        raise AssertionError("linspace stop: unexpected expression " + ast.dump(node))

    gens = []
    for cname in DISK_CLASSES:
        init = next(st for st in classes[cname].body if isinstance(st, ast.FunctionDef) and st.name == "__init__")
        params = [a.arg for a in init.args.args if a.arg != "self"]
        assigns = {}  # local name -> last assigned expression (statement order)
        for st in ast.walk(init):
            if isinstance(st, ast.Assign) and len(st.targets) == 1 and isinstance(st.targets[0], ast.Name):
                assigns.setdefault(st.targets[0].id, st.value)
        owners: list = []  # FanPattern objects in order of first use, so that local names do not matter

        def is_call(node, attr):
            return isinstance(node, ast.Call) and isinstance(node.func, ast.Attribute) and node.func.attr == attr

        def role(elt) -> str:
            """an element of the positions list, independent of the names of locals and parameters"""
            star = isinstance(elt, ast.Starred)
            v = elt.value if star else elt
            if isinstance(v, ast.Name) and v.id in params and not star:
                return f"param{params.index(v.id)}"
            if isinstance(v, ast.Name) and v.id in assigns and not is_call(assigns[v.id], "asarray") and not is_call(assigns[v.id], "array"):
                v = assigns[v.id]
            for attr, tag in (("get_inner_points", "inner"), ("get_outer_points", "outer")):
                if is_call(v, attr):
                    owner = ast.unparse(v.func.value)
                    if owner not in owners:
                        owners.append(owner)
                    return ("*" if star else "") + f"{tag}@{owners.index(owner)}"
            return ("*" if star else "") + "expr"

        # angles: the (first) np.linspace call of the constructor
        call = next(v for v in assigns.values() if is_call(v, "linspace"))
        assert lit(call.args[0]) == 0
        kw = {k.arg: k.value for k in call.keywords}
        stop = pi_units(call.args[1])
        assert stop.denominator == 1
        endpoint = bool(kw["endpoint"].value) if "endpoint" in kw else True
        lin = (int(stop), int(lit(kw["num"])), endpoint)
        # ratios: the second argument of the first get_inner_points call, resolved through a local if it is one
        inner = next(v for v in ast.walk(init) if is_call(v, "get_inner_points"))
        rl = inner.args[1]
        if isinstance(rl, ast.Name):
            rl = assigns[rl.id]
        ratios = [e.attr if isinstance(e, ast.Attribute) and isinstance(e.value, ast.Name) and e.value.id == "self" else "expr" for e in rl.elts]
        # positions: the list handed to MappedSketch.__init__ (directly or through one local)
        sup = next(v for v in ast.walk(init) if is_call(v, "__init__"))
        pos = sup.args[0]
        if isinstance(pos, ast.Name):
            pos = assigns[pos.id]
        # parameters re-bound through np.asarray / np.array keep their parameter role
        layout = []
        for e in pos.elts:
            layout.append(role(e))
        assert layout, cname
        gens.append((cname, lin, ratios, layout))
    return [
        ("c11DiskConst", "(Nat × Nat) × (Nat × Nat) × (Nat × Nat)", (nd(consts["core_ratio"]), nd(diag.a), nd(diag.b)),
         "DiskBase.core_ratio as n/d, and DiskBase.diagonal_ratio = a + b*sqrt(2) evaluated exactly from the property's return expression (a, b as n/d)"),
        ("c11DiskGen", "List (String × (Nat × Nat × Bool) × List String × List String)", gens,
         "disk sketch class: (name, np.linspace(0, stop*pi/4, num, endpoint) of `angles`, the `ratios` list, layout of the positions list handed to MappedSketch)"),
    ]
