"""Tables for C17: the expressions of the CURRENT source that the Lean model transcribes (Python `ast`, no logic):
position functions of the clamps, default bounds and initial guesses, what `update_params` / `LinkBase.update` do
statement by statement, what each link's `transform` returns, and `LineCurve`'s function.
`Props/C17.lean` proves (`rfl`) that the table the model declares next to its definitions is this one."""

from __future__ import annotations

import ast
import inspect
from typing import List, Optional


def _cls(mod, name: str) -> ast.ClassDef:
    for n in ast.walk(ast.parse(inspect.getsource(mod))):
        if isinstance(n, ast.ClassDef) and n.name == name:
            return n
    raise ValueError(name)


def _fn(node, name: str) -> Optional[ast.FunctionDef]:
    for n in ast.walk(node):
        if isinstance(n, ast.FunctionDef) and n.name == name:
            return n
    return None


def _stmts(fn: ast.FunctionDef) -> List[str]:
    return [ast.unparse(s) for s in fn.body if not (isinstance(s, ast.Expr) and isinstance(s.value, ast.Constant))]


def _returns(fn: ast.FunctionDef) -> List[str]:
    return [ast.unparse(n.value) for n in ast.walk(fn) if isinstance(n, ast.Return) and n.value is not None]


def _lambdas(fn: ast.FunctionDef) -> List[str]:
    return [ast.unparse(n.body) for n in ast.walk(fn) if isinstance(n, ast.Lambda)]


def _assign(fn: ast.FunctionDef, target: str) -> List[str]:
    return [ast.unparse(n.value) for n in ast.walk(fn) if isinstance(n, ast.Assign) and ast.unparse(n.targets[0]) == target]


def emit_all(emit):
    from classy_blocks.construct.curves import analytic
    from classy_blocks.optimize import links
    from classy_blocks.optimize.clamps import clamp, curve, surface

    rows = []

    def row(key, values):
        rows.append((key, list(values)))

    line = _cls(curve, "LineClamp")
    row("LineClamp.function", _returns(_fn(_fn(line, "__init__"), "function")))
    row("LineClamp.bounds", _assign(_fn(line, "__init__"), "bounds"))
    row("LineClamp.initial_guess", _returns(_fn(line, "initial_guess")))
    rad = _cls(curve, "RadialClamp")
    row("RadialClamp.function", _lambdas(_fn(rad, "__init__")))
    row("RadialClamp.radius", _assign(_fn(rad, "__init__"), "radius"))
    row("RadialClamp.initial_guess", _returns(_fn(rad, "initial_guess")))
    cc = _cls(curve, "CurveClamp")
    row("CurveClamp.function", _lambdas(_fn(cc, "__init__")))
    row("CurveClamp.initial", _assign(_fn(cc, "__init__"), "initial"))
    row("CurveClamp.super", [ast.unparse(n) for n in ast.walk(_fn(cc, "__init__")) if isinstance(n, ast.Call) and ast.unparse(n.func) == "super().__init__"])
    pl = _cls(surface, "PlaneClamp")
    row("PlaneClamp.function", _returns(_fn(_fn(pl, "__init__"), "position_function")))
    row("PlaneClamp.u_dir", _assign(_fn(pl, "__init__"), "u_dir"))
    row("PlaneClamp.v_dir", _assign(_fn(pl, "__init__"), "v_dir"))
    row("PlaneClamp.initial_guess", _returns(_fn(pl, "initial_guess")))
    row("ParametricSurfaceClamp.initial_guess", _returns(_fn(_cls(surface, "ParametricSurfaceClamp"), "initial_guess")))
    base = _cls(clamp, "ClampBase")
    row("ClampBase.update_params", _stmts(_fn(base, "update_params")))
    row("ClampBase.get_params.distance", _returns(_fn(_fn(base, "get_params"), "distance_from_vertex")))
    row("LineCurve.function", _returns(_fn(_cls(analytic, "LineCurve"), "_line_function")))
    row("LineCurve.vector", _returns(_fn(_cls(analytic, "LineCurve"), "vector")))
    lb = _cls(links, "LinkBase")
    row("LinkBase.update", _stmts(_fn(lb, "update")))
    tl = _cls(links, "TranslationLink")
    row("TranslationLink.vector", _assign(_fn(tl, "__init__"), "self.vector"))
    row("TranslationLink.transform", _returns(_fn(tl, "transform")))
    rl = _cls(links, "RotationLink")
    row("RotationLink.transform", _returns(_fn(rl, "transform")))
    row("RotationLink.orig_follower_pos", _assign(_fn(rl, "__init__"), "self.orig_follower_pos"))
    row("RotationLink.prev_radius", _assign(_fn(rl, "transform"), "prev_radius"))
    row("RotationLink._get_radius", _returns(_fn(rl, "_get_radius")))
    row("RotationLink._get_height", _returns(_fn(rl, "_get_height")))
    sl = _cls(links, "SymmetryLink")
    row("SymmetryLink._get_follower", _returns(_fn(sl, "_get_follower")))
    row("SymmetryLink.transform", _returns(_fn(sl, "transform")))
    emit("c17Source", "List (String × List String)", rows,
         "the expressions / statements of optimize/clamps, optimize/links and LineCurve that the model transcribes")
