"""Tables for C17: the methods of the CURRENT source that the Lean model transcribes (Python `ast`, no logic), statement by
statement: constructors, position functions, default bounds and initial guesses of the clamps, `get_params` /
`update_params`, `LinkBase.update`, every link's constructor and `transform`, and `LineCurve`'s function. Each method is
normalised so that only statement-level edits show: docstrings, comments, blank lines, type annotations, print / warn /
logging statements are dropped and parameters and locals are renamed `v0, v1, …` in order of first appearance.
`Props/C17.lean` proves (`rfl`) that the table the model declares next to its definitions is this one."""

from __future__ import annotations

import ast
import inspect
from typing import List, Optional


import copy


def _cls(mod, name: str) -> ast.ClassDef:
    for n in ast.walk(ast.parse(inspect.getsource(mod))):
        if isinstance(n, ast.ClassDef) and n.name == name:
            return n
    raise ValueError(name)


def _fn(node, name: str) -> Optional[ast.FunctionDef]:
    for n in ast.walk(node):
        if isinstance(n, ast.FunctionDef) and n.name == name:
            return n
    return None


# ------------------------------------------------------------------ tolerant normalisation of one method
def _is_doc_or_report(s: ast.stmt) -> bool:
    if isinstance(s, ast.Expr) and isinstance(s.value, ast.Constant) and isinstance(s.value.value, str):
        return True
    if isinstance(s, ast.Expr) and isinstance(s.value, ast.Call):
        fn = ast.unparse(s.value.func)
        return fn in ("print", "warnings.warn") or fn.startswith("logging.") or fn.startswith("logger.")
    return False


class _Strip(ast.NodeTransformer):
    """docstrings, print / warn / logging statements and type annotations do not count"""

    def _body(self, body):
        out = [self.visit(s) for s in body if not _is_doc_or_report(s)]
        out = [s for s in out if s is not None]
        return out or [ast.Pass()]

    def visit_FunctionDef(self, node):
        node.returns = None
        for a in node.args.args + node.args.kwonlyargs + node.args.posonlyargs:
            a.annotation = None
        for extra in (node.args.vararg, node.args.kwarg):
            if extra is not None:
                extra.annotation = None
        node.body = self._body(node.body)
        node.decorator_list = []
        return node

    def visit_AnnAssign(self, node):
        if node.value is None:
            return None
        return ast.copy_location(ast.Assign(targets=[node.target], value=self.visit(node.value)), node)

    def generic_visit(self, node):
        for field in ("body", "orelse", "finalbody"):
            if isinstance(getattr(node, field, None), list) and not isinstance(node, (ast.Lambda, ast.IfExp)):
                setattr(node, field, self._body(getattr(node, field)) if field == "body" else [self.visit(s) for s in getattr(node, field) if not _is_doc_or_report(s)])
        return super().generic_visit(node)


def _local_names(fn: ast.FunctionDef) -> List[str]:
    """parameters (but `self`/`cls`) and every name bound inside the method, in order of first appearance in the text"""
    order: List[str] = []

    def add(n):
        if n not in ("self", "cls") and n not in order:
            order.append(n)

    def visit(node):
        if isinstance(node, (ast.FunctionDef, ast.Lambda)):
            if isinstance(node, ast.FunctionDef) and node is not fn:
                add(node.name)
            a = node.args
            for x in a.posonlyargs + a.args + a.kwonlyargs:
                add(x.arg)
            for x in (a.vararg, a.kwarg):
                if x is not None:
                    add(x.arg)
        if isinstance(node, ast.Name) and isinstance(node.ctx, (ast.Store, ast.Del)):
            add(node.id)
        if isinstance(node, ast.ExceptHandler) and node.name:
            add(node.name)
        for child in ast.iter_child_nodes(node):
            visit(child)

    visit(fn)
    return order


class _RenameLocals(ast.NodeTransformer):
    def __init__(self, mapping):
        self.m = mapping

    def visit_Name(self, node):
        if node.id in self.m:
            node.id = self.m[node.id]
        return node

    def visit_arg(self, node):
        if node.arg in self.m:
            node.arg = self.m[node.arg]
        return node

    def visit_FunctionDef(self, node):
        if node.name in self.m:
            node.name = self.m[node.name]
        return self.generic_visit(node)

    def visit_ExceptHandler(self, node):
        if node.name in self.m:
            node.name = self.m[node.name]
        return self.generic_visit(node)

    def visit_keyword(self, node):
        return self.generic_visit(node)  # keyword names of calls are part of the callee's interface: kept


class Method:
    """a method of the current source, stripped and with its locals renamed v0, v1, … (after the pieces of interest
    have been located by their original names)"""

    def __init__(self, mod, cls: str, name: str):
        self.fn = _Strip().visit(copy.deepcopy(_fn(_cls(mod, cls), name)))
        ast.fix_missing_locations(self.fn)
        self.picked: List[ast.AST] = []

    # -- locating (original names)
    def nested(self, name: str) -> "Method":
        m = object.__new__(Method)
        m.fn, m.picked = _fn(self.fn, name), self.picked
        if m.fn is None:
            raise ValueError(f"no nested function {name}")
        return m

    def returns(self) -> List[ast.AST]:
        own = [n for n in ast.walk(self.fn) if isinstance(n, ast.Return) and n.value is not None]
        return [n.value for n in own]

    def lambdas(self) -> List[ast.AST]:
        return [n.body for n in ast.walk(self.fn) if isinstance(n, ast.Lambda)]

    def assigned(self, target: str) -> List[ast.AST]:
        return [n.value for n in ast.walk(self.fn) if isinstance(n, ast.Assign) and ast.unparse(n.targets[0]) == target]

    def calls(self, func: str) -> List[ast.AST]:
        return [n for n in ast.walk(self.fn) if isinstance(n, ast.Call) and ast.unparse(n.func) == func]

    def statements(self) -> List[ast.AST]:
        return list(self.fn.body)


def _render(root: Method, nodes: List[ast.AST]) -> List[str]:
    """normalise the whole (outermost) method, then print the located pieces"""
    names = _local_names(root.fn)
    _RenameLocals({n: f"v{i}" for i, n in enumerate(names)}).visit(root.fn)
    return [" ".join(ast.unparse(n).split()) for n in nodes]


def emit_all(emit):
    from classy_blocks.construct.curves import analytic
    from classy_blocks.optimize import links
    from classy_blocks.optimize.clamps import clamp, curve, surface

    guard = getattr(emit, "guard", lambda fn, *a, **k: fn(*a, **k))
    rows = []

    def row(key, mod, cls, meth, pick):
        """one pinned piece: `pick(method)` locates nodes by the names the source uses now; if the piece cannot be
        located any more the row says so (and the pin trips) without stopping the other rows"""
        def one():
            m = Method(mod, cls, meth)
            nodes = pick(m)
            rows.append((key, _render(m, nodes)))
        before = len(rows)
        guard(one)
        if len(rows) == before:
            rows.append((key, ["?not-found"]))

    whole = lambda m: m.statements()  # noqa: E731  (every statement of the method, name-independent)
    for mod, cls, meths in (
        (clamp, "ClampBase", ("__init__", "get_params", "update_params")),
        (curve, "CurveClamp", ("__init__", "initial_guess")),
        (curve, "LineClamp", ("__init__", "initial_guess")),
        (curve, "RadialClamp", ("__init__", "initial_guess")),
        (surface, "PlaneClamp", ("__init__", "initial_guess")),
        (surface, "ParametricSurfaceClamp", ("initial_guess",)),
        (analytic, "LineCurve", ("__init__", "_line_function", "vector")),
        (links, "LinkBase", ("__init__", "update")),
        (links, "TranslationLink", ("__init__", "transform")),
        (links, "RotationLink", ("__init__", "transform", "_get_height", "_get_radius")),
        (links, "SymmetryLink", ("__init__", "_get_follower", "transform")),
    ):
        for meth in meths:
            row(f"{cls}.{meth}", mod, cls, meth, whole)
    emit("c17Source", "List (String × List String)", rows,
         "the expressions / statements of optimize/clamps, optimize/links and LineCurve that the model transcribes "
         "(docstrings, comments, annotations, print/warn dropped; parameters and locals renamed v0, v1, … per method)")
