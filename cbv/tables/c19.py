"""C19 tables: topology of every round sketch / round shape of the current source, read off probe instances.

For a sketch: the quads (point ids, numbered by first appearance while walking `sketch.faces`), the partition `grid`
(face indices), `core` / `shell` (face indices) and the ids of the points on the outer rim.  For a shape: the 8 point
ids of every operation of `shape.operations`, the sketch face every operation was lofted from (by object identity of
`operation.bottom_face`), `core` / `shell` (operation indices) and the rim point ids.

The only thing computed here that is not read from the package is *which points lie on the outer surface*; that is
geometry (distance from the centre / axis / centre segment equals the outer radius) and independent of the code's own
core/shell split.
"""

from __future__ import annotations

from typing import Any, List


def _ids(cells_pts: List[List[Any]]):
    """numbers points by first appearance (same position within 1e-9 -> same id)"""
    import numpy as np

    known: List[Any] = []
    cells = []
    for pts in cells_pts:
        cell = []
        for p in pts:
            p = np.asarray(p, dtype=float)
            for i, q in enumerate(known):
                if np.linalg.norm(p - q) < 1e-9:
                    cell.append(i)
                    break
            else:
                known.append(p)
                cell.append(len(known) - 1)
        cells.append(cell)
    return cells, known


def _index(items, item) -> int:
    for i, x in enumerate(items):
        if x is item:
            return i
    raise ValueError("object not found")


def _seg_dist(p, a, b) -> float:
    import numpy as np

    ab = b - a
    t = 0.0 if float(np.dot(ab, ab)) == 0.0 else min(1.0, max(0.0, float(np.dot(p - a, ab) / np.dot(ab, ab))))
    return float(np.linalg.norm(p - (a + t * ab)))


def sketch_probes():
    """(name, instance, centre segment (a, b) the outer rim is equidistant from)"""
    import numpy as np

    import classy_blocks as cb
    from classy_blocks.construct.flat.sketches import disk, spline_round
    from classy_blocks.construct.flat.sketches.annulus import Annulus

    c = np.array([0.3, -0.2, 0.1])
    n = np.array([0.0, 0.0, 1.0])
    r = np.array([1.7, -0.2, 0.1])
    out = []
    for name in ["OneCoreDisk", "QuarterDisk", "HalfDisk", "FourCoreDisk"]:
        out.append((name, getattr(disk, name)(c, r, n), (c, c)))
    out.append(("WrappedDisk", disk.WrappedDisk(c, c + np.array([2.0, 2.0, 0.0]), 0.9, n), (c, c)))
    c2 = c + np.array([2.5, 0.0, 0.0])
    out.append(("Oval", disk.Oval(c, c2, n, 0.8), (c, c2)))
    for k in (4, 8, 5):
        out.append((f"Annulus{k}", Annulus(c, r, n, 0.6, k), (c, c)))
    c1p = c + np.array([1.4, 0.0, 0.0])
    c2p = c + np.array([0.0, 1.4, 0.0])
    for name in ["QuarterSplineDisk", "HalfSplineDisk", "SplineDisk"]:
        out.append((name, getattr(spline_round, name)(c, c1p, c2p, 0.0, 0.0), (c, c)))
    for name in ["QuarterSplineRing", "HalfSplineRing", "SplineRing"]:
        out.append((name, getattr(spline_round, name)(c, c1p, c2p, 0.0, 0.0, 0.4, 0.4), (c, c)))
    del cb
    return out


def _rim(points, seg) -> List[int]:
    d = [_seg_dist(p, seg[0], seg[1]) for p in points]
    top = max(d)
    return [i for i, x in enumerate(d) if x >= top * (1 - 1e-6)]


def sketch_row(name: str, sk, seg):
    faces = list(sk.faces)
    cells, pts = _ids([[p.position for p in f.points] for f in faces])
    grid = [[_index(faces, f) for f in row] for row in sk.grid]
    core = getattr(sk, "core", None)
    shell = getattr(sk, "shell", None)
    core_i = [_index(faces, f) for f in core] if core is not None else []
    shell_i = [_index(faces, f) for f in shell] if shell is not None else []
    return (name, cells, grid, core_i, shell_i, _rim(pts, seg))


def shape_probes():
    import numpy as np

    import classy_blocks as cb
    from classy_blocks.base import transforms as tr
    from classy_blocks.construct.shapes.round import RoundSolidShape

    out = []
    a1, a2, rp = [0.0, 0.0, 0.0], [0.0, 0.0, 2.0], [1.0, 0.0, 0.0]
    out.append(("Cylinder", "FourCoreDisk", cb.Cylinder(a1, a2, rp)))
    out.append(("SemiCylinder", "HalfDisk", cb.SemiCylinder(a1, a2, rp)))
    out.append(("Frustum", "FourCoreDisk", cb.Frustum(a1, a2, rp, 0.4)))
    out.append(("Elbow", "FourCoreDisk", cb.Elbow(a1, rp, [0.0, 0.0, 1.0], np.pi / 3, [3.0, 0.0, 0.0], [0.0, 1.0, 0.0], 0.7)))
    for k in (4, 8, 5):
        out.append((f"ExtrudedRing{k}", f"Annulus{k}", cb.ExtrudedRing(a1, a2, rp, 0.5, k)))
    for name, sk, _ in sketch_probes():
        if name.startswith("Annulus") or "Ring" in name:
            continue
        out.append((f"RoundSolidShape({name})", name, RoundSolidShape(sk, [tr.Translation([0.0, 0.0, 1.5])])))
    return out


def shape_row(name: str, sketch_name: str, shape, seg1=None, seg2=None):
    import numpy as np

    ops = list(shape.operations)
    cells, pts = _ids([[p.position for p in op.points] for op in ops])
    faces = list(shape.sketch_1.faces)
    op_face = [_index(faces, op.bottom_face) for op in ops]
    core = [_index(ops, op) for op in shape.core]
    shell = [_index(ops, op) for op in shape.shell]
    # rim: points of the start sketch on its rim, points of the end sketch on its rim
    rim = set()
    for sk in (shape.sketch_1, shape.sketch_2):
        seg = _sketch_segment(sk)
        spts = []
        for f in sk.faces:
            spts += [p.position for p in f.points]
        d = [_seg_dist(np.asarray(p), seg[0], seg[1]) for p in spts]
        top = max(d)
        for p, x in zip(spts, d):
            if x >= top * (1 - 1e-6):
                for i, q in enumerate(pts):
                    if np.linalg.norm(np.asarray(p) - q) < 1e-9:
                        rim.add(i)
    return (name, sketch_name, cells, op_face, core, shell, sorted(rim))


def _sketch_segment(sk):
    import numpy as np

    if hasattr(sk, "center_1") and hasattr(sk, "center_2"):
        return (np.asarray(sk.center_1), np.asarray(sk.center_2))
    c = np.asarray(sk.center)
    return (c, c)


def sphere_rows():
    import numpy as np

    from classy_blocks.construct.shapes.sphere import EighthSphere, Hemisphere

    rows = []
    for name, cls in (("EighthSphere", EighthSphere), ("Hemisphere", Hemisphere)):
        sh = cls([0.0, 0.0, 0.0], [1.0, 0.0, 0.0], [0.0, 0.0, 1.0])
        ops = list(sh.operations)
        cells, pts = _ids([[p.position for p in op.points] for op in ops])
        core = [_index(ops, op) for op in sh.core]
        shell = [_index(ops, op) for op in sh.shell]
        c = np.asarray(sh.center_point)
        d = [float(np.linalg.norm(p - c)) for p in pts]
        rim = [i for i, x in enumerate(d) if x >= max(d) * (1 - 1e-6)]
        rows.append((name, "-", cells, [], core, shell, rim))
    return rows


def emit_all(emit) -> None:
    sk_rows = [sketch_row(n, sk, seg) for n, sk, seg in sketch_probes()]
    emit(
        "c19Sketches",
        "List (String × List (List Nat) × List (List Nat) × List Nat × List Nat × List Nat)",
        sk_rows,
        "round sketches: (name, quads as point ids, sketch.grid as face indices, sketch.core, sketch.shell, rim point ids)",
    )
    sh_rows = [shape_row(n, sn, sh) for n, sn, sh in shape_probes()] + sphere_rows()
    emit(
        "c19Shapes",
        "List (String × String × List (List Nat) × List Nat × List Nat × List Nat × List Nat)",
        sh_rows,
        "round shapes: (name, sketch, operations as 8 point ids, sketch face of every operation, shape.core, shape.shell "
        "as operation indices, rim point ids)",
    )
