"""C19 tables: topology of every round sketch / round shape of the current source, read off probe instances.

For a sketch: the quads (point ids, numbered by first appearance while walking `sketch.faces`), the partition `grid`
(face indices), `core` / `shell` (face indices) and the ids of the points on the outer rim.  For a shape: the 8 point
ids of every operation of `shape.operations`, the sketch face every operation was lofted from (by object identity of
`operation.bottom_face`), `core` / `shell` (operation indices) and the rim point ids.

The only thing computed here that is not read from the package is *which points lie on the outer surface*; that is
geometry (distance from the centre / axis / centre segment equals the outer radius) and independent of the code's own
core/shell split.
"""

from __future__ import annotations

from typing import Any, List


def _ids(cells_pts: List[List[Any]]):
    """numbers points by first appearance (same position within 1e-9 -> same id)"""
    import numpy as np

    known: List[Any] = []
    cells = []
    for pts in cells_pts:
        cell = []
        for p in pts:
            p = np.asarray(p, dtype=float)
            for i, q in enumerate(known):
                if np.linalg.norm(p - q) < 1e-9:
                    cell.append(i)
                    break
            else:
                known.append(p)
                cell.append(len(known) - 1)
        cells.append(cell)
    return cells, known


def _index(items, item) -> int:
    for i, x in enumerate(items):
        if x is item:
            return i
    raise ValueError("object not found")


def _seg_dist(p, a, b) -> float:
    import numpy as np

    ab = b - a
    t = 0.0 if float(np.dot(ab, ab)) == 0.0 else min(1.0, max(0.0, float(np.dot(p - a, ab) / np.dot(ab, ab))))
    return float(np.linalg.norm(p - (a + t * ab)))


def sketch_probes():
    """(name, instance, centre segment (a, b) the outer rim is equidistant from)"""
    import numpy as np

    import classy_blocks as cb
    from classy_blocks.construct.flat.sketches import disk, spline_round
    from classy_blocks.construct.flat.sketches.annulus import Annulus

    c = np.array([0.3, -0.2, 0.1])
    n = np.array([0.0, 0.0, 1.0])
    r = np.array([1.7, -0.2, 0.1])
    out = []
    for name in ["OneCoreDisk", "QuarterDisk", "HalfDisk", "FourCoreDisk"]:
        out.append((name, getattr(disk, name)(c, r, n), (c, c)))
    out.append(("WrappedDisk", disk.WrappedDisk(c, c + np.array([2.0, 2.0, 0.0]), 0.9, n), (c, c)))
    c2 = c + np.array([2.5, 0.0, 0.0])
    out.append(("Oval", disk.Oval(c, c2, n, 0.8), (c, c2)))
    for k in (4, 8, 5):
        out.append((f"Annulus{k}", Annulus(c, r, n, 0.6, k), (c, c)))
    c1p = c + np.array([1.4, 0.0, 0.0])
    c2p = c + np.array([0.0, 1.4, 0.0])
    for name in ["QuarterSplineDisk", "HalfSplineDisk", "SplineDisk"]:
        out.append((name, getattr(spline_round, name)(c, c1p, c2p, 0.0, 0.0), (c, c)))
    for name in ["QuarterSplineRing", "HalfSplineRing", "SplineRing"]:
        out.append((name, getattr(spline_round, name)(c, c1p, c2p, 0.0, 0.0, 0.4, 0.4), (c, c)))
    del cb
    return out


def _rim(points, seg) -> List[int]:
    d = [_seg_dist(p, seg[0], seg[1]) for p in points]
    top = max(d)
    return [i for i, x in enumerate(d) if x >= top * (1 - 1e-6)]


def sketch_row(name: str, sk, seg):
    faces = list(sk.faces)
    cells, pts = _ids([[p.position for p in f.points] for f in faces])
    grid = [[_index(faces, f) for f in row] for row in sk.grid]
    core = getattr(sk, "core", None)
    shell = getattr(sk, "shell", None)
    core_i = [_index(faces, f) for f in core] if core is not None else []
    shell_i = [_index(faces, f) for f in shell] if shell is not None else []
    return (name, cells, grid, core_i, shell_i, _rim(pts, seg))


def shape_probes():
    import numpy as np

    import classy_blocks as cb
    from classy_blocks.base import transforms as tr
    from classy_blocks.construct.shapes.round import RoundSolidShape

    out = []
    a1, a2, rp = [0.0, 0.0, 0.0], [0.0, 0.0, 2.0], [1.0, 0.0, 0.0]
    out.append(("Cylinder", "FourCoreDisk", cb.Cylinder(a1, a2, rp)))
    out.append(("SemiCylinder", "HalfDisk", cb.SemiCylinder(a1, a2, rp)))
    out.append(("Frustum", "FourCoreDisk", cb.Frustum(a1, a2, rp, 0.4)))
    out.append(("Elbow", "FourCoreDisk", cb.Elbow(a1, rp, [0.0, 0.0, 1.0], np.pi / 3, [3.0, 0.0, 0.0], [0.0, 1.0, 0.0], 0.7)))
    for k in (4, 8, 5):
        out.append((f"ExtrudedRing{k}", f"Annulus{k}", cb.ExtrudedRing(a1, a2, rp, 0.5, k)))
    for name, sk, _ in sketch_probes():
        if name.startswith("Annulus") or "Ring" in name:
            continue
        out.append((f"RoundSolidShape({name})", name, RoundSolidShape(sk, [tr.Translation([0.0, 0.0, 1.5])])))
    return out


def shape_row(name: str, sketch_name: str, shape, seg1=None, seg2=None):
    import numpy as np

    ops = list(shape.operations)
    cells, pts = _ids([[p.position for p in op.points] for op in ops])
    faces = list(shape.sketch_1.faces)
    op_face = [_index(faces, op.bottom_face) for op in ops]
    core = [_index(ops, op) for op in shape.core]
    shell = [_index(ops, op) for op in shape.shell]
    # rim: points of the start sketch on its rim, points of the end sketch on its rim
    rim = set()
    for sk in (shape.sketch_1, shape.sketch_2):
        seg = _sketch_segment(sk)
        spts = []
        for f in sk.faces:
            spts += [p.position for p in f.points]
        d = [_seg_dist(np.asarray(p), seg[0], seg[1]) for p in spts]
        top = max(d)
        for p, x in zip(spts, d):
            if x >= top * (1 - 1e-6):
                for i, q in enumerate(pts):
                    if np.linalg.norm(np.asarray(p) - q) < 1e-9:
                        rim.add(i)
    return (name, sketch_name, cells, op_face, core, shell, sorted(rim))


def _sketch_segment(sk):
    import numpy as np

    if hasattr(sk, "center_1") and hasattr(sk, "center_2"):
        return (np.asarray(sk.center_1), np.asarray(sk.center_2))
    c = np.asarray(sk.center)
    return (c, c)


def sphere_rows():
    import numpy as np

    from classy_blocks.construct.shapes.sphere import EighthSphere, Hemisphere

    rows = []
    for name, cls in (("EighthSphere", EighthSphere), ("Hemisphere", Hemisphere)):
        sh = cls([0.0, 0.0, 0.0], [1.0, 0.0, 0.0], [0.0, 0.0, 1.0])
        ops = list(sh.operations)
        cells, pts = _ids([[p.position for p in op.points] for op in ops])
        core = [_index(ops, op) for op in sh.core]
        shell = [_index(ops, op) for op in sh.shell]
        c = np.asarray(sh.center_point)
        d = [float(np.linalg.norm(p - c)) for p in pts]
        rim = [i for i, x in enumerate(d) if x >= max(d) * (1 - 1e-6)]
        rows.append((name, "-", cells, [], core, shell, rim))
    return rows


# ----------------------------------------------------------------------------------------------------------------------
# round 6 / 6b: what the *source text* says (python `ast` on the current source; nothing is evaluated or interpreted here).
#
# Normalisation (only statement-level edits change a table): comments, docstrings, blank lines, `print(...)` statements and
# type annotations are not seen; in the function-level translators (`get_slice`, `Stack.chop`, `Grid.__init__`, the one-line
# properties) every parameter other than self and every assigned / loop / comprehension name is renamed v0, v1, … in order of
# first appearance; literals are printed by `ast.unparse`.  A form the translator does not know is emitted as such (row kind 9,
# "?" strings, "<not a single return>") — the tables are always emitted, a class that cannot be read degrades alone.

SKETCH_CLASSES = [
    "OneCoreDisk", "QuarterDisk", "HalfDisk", "FourCoreDisk", "WrappedDisk", "Oval", "Annulus",
    "QuarterSplineDisk", "HalfSplineDisk", "SplineDisk", "QuarterSplineRing", "HalfSplineRing", "SplineRing", "MappedSketch", "Grid",
]


def _classes():
    from classy_blocks.construct.flat.sketches import annulus, disk, grid, mapped, spline_round

    out = {}
    for mod in (disk, spline_round, annulus, mapped, grid):
        for name in SKETCH_CLASSES + ["DiskBase"]:
            if name in vars(mod) and getattr(vars(mod)[name], "__module__", None) == mod.__name__:
                out[name] = vars(mod)[name]
    return out


def _safe(fn, default):
    """a class / function the translator cannot read degrades to `default`; the other entries are still emitted"""
    try:
        return fn()
    except Exception:
        return default


def _raw_tree(fn):
    import ast
    import inspect
    import textwrap

    fn = getattr(fn, "fget", fn)
    return ast.parse(textwrap.dedent(inspect.getsource(fn))).body[0]


def _fn_tree(fn):
    """the function with annotations dropped and every parameter (not self) / assigned / loop / comprehension name renamed
    v0, v1, … in order of first appearance"""
    import ast

    tree = _raw_tree(fn)
    names: List[str] = []

    def add(n: str) -> None:
        if n not in names and n not in ("self", "cls"):
            names.append(n)

    class Collect(ast.NodeVisitor):
        def visit_arguments(self, a):
            for x in a.posonlyargs + a.args + ([a.vararg] if a.vararg else []) + a.kwonlyargs + ([a.kwarg] if a.kwarg else []):
                add(x.arg)

        def visit_Name(self, node):
            if isinstance(node.ctx, ast.Store):
                add(node.id)

    Collect().visit(tree)
    new = {n: f"v{k}" for k, n in enumerate(names)}

    class Rename(ast.NodeTransformer):
        def visit_Name(self, n):
            return ast.copy_location(ast.Name(id=new.get(n.id, n.id), ctx=n.ctx), n)

        def visit_arg(self, n):
            n.arg = new.get(n.arg, n.arg)
            n.annotation = None
            return n

        def visit_AnnAssign(self, n):
            self.generic_visit(n)
            if n.value is None:
                return None
            return ast.copy_location(ast.Assign(targets=[n.target], value=n.value), n)

        def visit_FunctionDef(self, n):
            self.generic_visit(n)
            n.returns = None
            return n

    tree = ast.fix_missing_locations(Rename().visit(tree))
    return tree


def _stmts(body):
    """the statements that count: no docstrings / bare constants, no `print(...)`, no `pass`"""
    import ast

    out = []
    for n in body:
        if isinstance(n, ast.Expr) and isinstance(n.value, ast.Constant):
            continue
        if isinstance(n, ast.Expr) and isinstance(n.value, ast.Call) and ast.unparse(n.value.func) == "print":
            continue
        if isinstance(n, ast.Pass):
            continue
        out.append(n)
    return out


def _definer(cls, attr):
    """the class in the MRO whose body defines `attr`"""
    for k in cls.__mro__:
        if attr in vars(k):
            return k
    return None


def _row_spec(node):
    """one row of a `grid` list expression as (kind, a, b, c); kind 9 = a form the model does not know"""
    import ast

    def nat(n):
        return n.value if isinstance(n, ast.Constant) and isinstance(n.value, int) and not isinstance(n.value, bool) and n.value >= 0 else None

    def is_faces(n):
        return isinstance(n, ast.Attribute) and n.attr == "faces" and isinstance(n.value, ast.Name) and n.value.id == "self"

    # self.faces / self.shell
    if is_faces(node):
        return (3, 0, 0, 0)
    if isinstance(node, ast.Attribute) and node.attr == "shell" and isinstance(node.value, ast.Name) and node.value.id == "self":
        return (4, 0, 0, 0)
    # self.faces[a:b:c]   (None: start 0, stop 0 = "to the end" (otherwise stop + 1), step 1)
    if isinstance(node, ast.Subscript) and is_faces(node.value) and isinstance(node.slice, ast.Slice):
        sl = node.slice
        lo = 0 if sl.lower is None else nat(sl.lower)
        hi = 0 if sl.upper is None else (None if nat(sl.upper) is None else nat(sl.upper) + 1)
        st = 1 if sl.step is None else nat(sl.step)
        if None in (lo, hi, st) or st == 0:
            return (9, 0, 0, 0)
        return (0, lo, hi, st)
    # [self.faces[a]]
    if (isinstance(node, ast.List) and len(node.elts) == 1 and isinstance(node.elts[0], ast.Subscript)
            and is_faces(node.elts[0].value) and nat(node.elts[0].slice) is not None):
        return (1, nat(node.elts[0].slice), 0, 0)
    # [face for i, face in enumerate(self.faces) if not i % m == r]   (whatever the two variables are called)
    if isinstance(node, ast.ListComp) and len(node.generators) == 1:
        g = node.generators[0]
        try:
            ok = isinstance(g.target, ast.Tuple) and len(g.target.elts) == 2
            vi, vf = (e.id for e in g.target.elts)
            ok = ok and (
                isinstance(node.elt, ast.Name) and node.elt.id == vf
                and isinstance(g.iter, ast.Call) and g.iter.func.id == "enumerate" and is_faces(g.iter.args[0])
                and len(g.ifs) == 1 and isinstance(g.ifs[0], ast.UnaryOp) and isinstance(g.ifs[0].op, ast.Not)
            )
            cmp_ = g.ifs[0].operand
            ok = ok and isinstance(cmp_, ast.Compare) and isinstance(cmp_.ops[0], ast.Eq) and isinstance(cmp_.left, ast.BinOp)
            ok = ok and isinstance(cmp_.left.op, ast.Mod) and cmp_.left.left.id == vi
            m, r = nat(cmp_.left.right), nat(cmp_.comparators[0])
            if ok and m and r is not None:
                return (2, m, r, 0)
        except (AttributeError, ValueError, TypeError):
            pass
    return (9, 0, 0, 0)


def grid_spec(cls):
    """(defining class, guard, rows): `grid` returns the list `rows`; guard N > 0: only `if len(self.faces) > N`, else `super().grid`"""
    import ast

    k = _definer(cls, "grid")
    body = _stmts(_raw_tree(vars(k)["grid"]).body)
    bad = (k.__name__, 0, [(9, 0, 0, 0)])
    if len(body) != 1:
        return bad
    st = body[0]
    guard = 0
    if isinstance(st, ast.If):
        t = st.test
        then, orelse = _stmts(st.body), _stmts(st.orelse)
        if not (isinstance(t, ast.Compare) and isinstance(t.ops[0], ast.Gt) and ast.unparse(t.left) == "len(self.faces)"
                and isinstance(t.comparators[0], ast.Constant) and len(then) == 1 and len(orelse) == 1
                and isinstance(orelse[0], ast.Return) and ast.unparse(orelse[0].value) == "super().grid"):
            return bad
        guard = t.comparators[0].value
        st = then[0]
    if not (isinstance(st, ast.Return) and isinstance(st.value, ast.List)):
        if isinstance(st, ast.Return) and ast.unparse(st.value) == "self._grid":
            return (k.__name__, guard, [(5, 0, 0, 0)])  # Grid: the list its constructor filled
        return bad
    return (k.__name__, guard, [_row_spec(e) for e in st.value.elts])


def quad_map(cls):
    """the list-of-quads literal assigned to a local in the class's own `__init__` (None if there is none)"""
    import ast

    if "__init__" not in vars(cls):
        return None
    for n in ast.walk(_raw_tree(vars(cls)["__init__"])):
        if isinstance(n, ast.Assign) and len(n.targets) == 1 and isinstance(n.targets[0], ast.Name) and isinstance(n.value, ast.List):
            try:
                v = ast.literal_eval(n.value)
            except ValueError:
                continue
            if v and all(isinstance(q, list) and len(q) == 4 and all(isinstance(x, int) and x >= 0 for x in q) for q in v):
                return [list(q) for q in v]
    return None


def merge_spec(cls):
    """`self.merge(x)` in the class's own `__init__`: what x is — ("cls", Name) for `x = Name(…)`, ("self", "") for
    `x = self.copy()…`; None if `__init__` merges nothing"""
    import ast

    if "__init__" not in vars(cls):
        return None
    tree = _raw_tree(vars(cls)["__init__"])
    assigns = {n.targets[0].id: n.value for n in ast.walk(tree)
               if isinstance(n, ast.Assign) and len(n.targets) == 1 and isinstance(n.targets[0], ast.Name)}
    for n in ast.walk(tree):
        if isinstance(n, ast.Call) and ast.unparse(n.func) == "self.merge":
            if len(n.args) == 1 and isinstance(n.args[0], ast.Name):
                v = assigns.get(n.args[0].id)
                if isinstance(v, ast.Call) and isinstance(v.func, ast.Name):
                    return ("cls", v.func.id)
                if v is not None and ast.unparse(v).startswith("self.copy()"):
                    return ("self", "")
            return ("?", "")
    return None


def returns(cls, attr):
    """the unparsed expression of a method / property whose body is one `return` (names bound inside it renamed v0, …)"""
    import ast

    k = _definer(cls, attr)
    if k is None:
        return "<undefined>"
    body = _stmts(_fn_tree(vars(k)[attr]).body)
    if len(body) == 1 and isinstance(body[0], ast.Return):
        return ast.unparse(body[0].value) if body[0].value is not None else "None"
    return "<not a single return>"


def slice_spec():
    """the branches of `Stack.get_slice` after its guards: (axis tested — 99 for `else` —, [element expression with the
    comprehension variable written `loop`, iterated expression]); names as renamed by `_fn_tree` (v0 = axis, v1 = index, …)"""
    import ast

    from classy_blocks.construct.stack import Stack

    tree = _fn_tree(Stack.get_slice)
    out = []

    def axis_of(test):
        if isinstance(test, ast.Compare) and len(test.ops) == 1 and isinstance(test.ops[0], ast.Eq) and ast.unparse(test.left) == "v0" \
                and isinstance(test.comparators[0], ast.Constant) and isinstance(test.comparators[0].value, int):
            return test.comparators[0].value
        return None

    def comp(stmts):
        # for <shape> in self.shapes: <acc> += [<elt> for <v> in <iter>]   -> the shape variable is written `shape`
        stmts = _stmts(stmts)
        if len(stmts) == 1 and isinstance(stmts[0], ast.For) and ast.unparse(stmts[0].iter) == "self.shapes" \
                and isinstance(stmts[0].target, ast.Name) and len(_stmts(stmts[0].body)) == 1:
            a = _stmts(stmts[0].body)[0]
            if isinstance(a, ast.AugAssign) and isinstance(a.op, ast.Add) and isinstance(a.target, ast.Name) \
                    and isinstance(a.value, ast.ListComp) and len(a.value.generators) == 1 and not a.value.generators[0].ifs \
                    and isinstance(a.value.generators[0].target, ast.Name):
                g = a.value.generators[0]
                ren = {g.target.id: "loop", stmts[0].target.id: "shape"}

                class Ren(ast.NodeTransformer):
                    def visit_Name(self, n):
                        return ast.copy_location(ast.Name(id=ren.get(n.id, n.id), ctx=n.ctx), n)

                return [ast.unparse(Ren().visit(a.value.elt)), ast.unparse(Ren().visit(g.iter))]
        return ["?", "?"]

    for st in _stmts(tree.body):
        if isinstance(st, ast.If) and axis_of(st.test) is not None:
            body = _stmts(st.body)
            if len(body) == 1 and isinstance(body[0], ast.Return) and not st.orelse:
                out.append((axis_of(st.test), [ast.unparse(body[0].value)]))
            else:
                out.append((axis_of(st.test), comp(st.body)))
                out.append((99, comp(st.orelse)))
    return out


def stack_chop_spec():
    """`Stack.chop`: `for shape in self.shapes: shape.grid[a][b].chop(axis, **kwargs)` -> [a, b, axis] ([] if it reads otherwise)"""
    import ast

    from classy_blocks.construct.stack import Stack

    body = _stmts(_fn_tree(Stack.chop).body)
    try:
        loop = body[0]
        inner = _stmts(loop.body)
        call = inner[0].value
        sub = call.func.value  # <shape>.grid[a][b]
        if (len(body) == 1 and isinstance(loop, ast.For) and ast.unparse(loop.iter) == "self.shapes" and len(inner) == 1
                and call.func.attr == "chop" and ast.unparse(sub.value.value) == f"{loop.target.id}.grid"):
            vals = [sub.value.slice.value, sub.slice.value, call.args[0].value]
            if all(isinstance(v, int) and not isinstance(v, bool) and v >= 0 for v in vals):
                return vals
    except (AttributeError, IndexError):
        pass
    return []


def grid_init_spec():
    """`Grid.__init__` with names as renamed by `_fn_tree` (v0 v1 = the corner points, v2 v3 = the counts, then the locals in
    order of first assignment): the two loops (variable, count argument) outer first; the coordinates arrays (name, component
    of the corner points, count argument); the four points of a face ((x array, loop variable, offset), (y array, variable, offset))"""
    import ast

    from classy_blocks.construct.flat.sketches.grid import Grid

    tree = _fn_tree(Grid.__init__)
    coords = []
    for n in ast.walk(tree):
        if isinstance(n, ast.Assign) and isinstance(n.value, ast.Call) and ast.unparse(n.value.func) == "np.linspace":
            c = n.value
            num = [k.value for k in c.keywords if k.arg == "num"]
            ok = len(c.args) == 2 and all(isinstance(x, ast.Subscript) for x in c.args) and len(num) == 1 and len(c.keywords) == 1
            if ok:
                a, b = c.args
                ok = (isinstance(num[0], ast.BinOp) and isinstance(num[0].op, ast.Add) and ast.unparse(num[0].right) == "1"
                      and ast.unparse(a.value) == "v0" and ast.unparse(b.value) == "v1" and ast.unparse(a.slice) == ast.unparse(b.slice)
                      and ast.unparse(a.slice).isdigit())
            if ok:
                coords.append((n.targets[0].id, int(ast.unparse(a.slice)), ast.unparse(num[0].left)))
            else:
                coords.append((ast.unparse(n.targets[0]), 99, ast.unparse(n.value)))
    loops, points = [], []

    def idx(e):
        # coords[ix] / coords[ix + 1]
        s = e.slice
        if isinstance(s, ast.Name):
            return (ast.unparse(e.value), s.id, 0)
        if isinstance(s, ast.BinOp) and isinstance(s.op, ast.Add) and isinstance(s.left, ast.Name) and isinstance(s.right, ast.Constant) \
                and isinstance(s.right.value, int) and s.right.value >= 0:
            return (ast.unparse(e.value), s.left.id, s.right.value)
        return (ast.unparse(e), "?", 99)

    def walk_for(node):
        for st in _stmts(node.body):
            if isinstance(st, ast.For):
                arg = ast.unparse(st.iter.args[0]) if isinstance(st.iter, ast.Call) and ast.unparse(st.iter.func) == "range" and len(st.iter.args) == 1 else "?"
                loops.append((ast.unparse(st.target), arg))
                walk_for(st)
            elif isinstance(st, ast.Assign) and isinstance(st.value, ast.List) and st.value.elts and all(isinstance(p, ast.List) for p in st.value.elts):
                for p in st.value.elts:
                    if len(p.elts) == 3 and ast.unparse(p.elts[2]) == "0" \
                            and isinstance(p.elts[0], ast.Subscript) and isinstance(p.elts[1], ast.Subscript):
                        points.append((idx(p.elts[0]), idx(p.elts[1])))
                    else:
                        points.append((("?", "?", 99), ("?", "?", 99)))

    walk_for(tree)
    return loops, coords, points


# -------------------------------------------------------------------------------------------- emit groups (each on its own)
def _emit_probe_sketches(emit) -> None:
    sk_rows = [sketch_row(n, sk, seg) for n, sk, seg in sketch_probes()]
    emit(
        "c19Sketches",
        "List (String × List (List Nat) × List (List Nat) × List Nat × List Nat × List Nat)",
        sk_rows,
        "round sketches: (name, quads as point ids, sketch.grid as face indices, sketch.core, sketch.shell, rim point ids)",
    )


def _emit_probe_shapes(emit) -> None:
    sh_rows = [shape_row(n, sn, sh) for n, sn, sh in shape_probes()] + sphere_rows()
    emit(
        "c19Shapes",
        "List (String × String × List (List Nat) × List Nat × List Nat × List Nat × List Nat)",
        sh_rows,
        "round shapes: (name, sketch, operations as 8 point ids, sketch face of every operation, shape.core, shape.shell "
        "as operation indices, rim point ids)",
    )


def _names():
    cl = _safe(_classes, {})
    return cl, [n for n in SKETCH_CLASSES if n in cl]


def _emit_values(emit) -> None:
    cl, names = _names()
    emit("c19Parents", "List (String × String)", [(n, _safe(lambda n=n: cl[n].__mro__[1].__name__, "?")) for n in names], "direct base class")
    emit("c19Chops", "List (String × List (List Nat))",
         [(n, _safe(lambda n=n: [[int(i) for i in c] for c in cl[n].chops], [])) for n in names],
         "Sketch.chops of the class (indexes into shape.operations for axis 0 and axis 1)")


def _emit_quad_maps(emit) -> None:
    cl, names = _names()
    rows = []
    for n in names:
        q = _safe(lambda n=n: quad_map(cl[n]), None)
        if q is not None:
            rows.append((n, q))
    emit("c19QuadMaps", "List (String × List (List Nat))", rows, "the list-of-quads literal in the class's own __init__ (ast)")


def _emit_grid_specs(emit) -> None:
    cl, names = _names()
    emit("c19GridSpecs", "List (String × String × Nat × List (Nat × Nat × Nat × Nat))",
         [(n, *_safe(lambda n=n: grid_spec(cl[n]), ("?", 0, [(9, 0, 0, 0)]))) for n in names],
         "the `grid` property: (class, class that defines it, guard N of `if len(self.faces) > N … else super().grid` or 0, rows); "
         "row (0,a,b,c) = self.faces[a:b-1:c] (b = 0: to the end), (1,a,_,_) = [self.faces[a]], (2,m,r,_) = faces with index % m != r, "
         "(3,…) = self.faces, (4,…) = self.shell, (5,…) = self._grid, (9,…) = anything else")


def _emit_merges(emit) -> None:
    cl, names = _names()
    rows = []
    for n in names:
        m = _safe(lambda n=n: merge_spec(cl[n]), ("?", ""))
        if m is not None:
            rows.append((n, *m))
    emit("c19Merges", "List (String × String × String)", rows,
         "`self.merge(x)` in the class's own __init__ after `super().__init__`: x is an instance of (\"cls\", Name) or a copy of self")


def _emit_returns(emit) -> None:
    cl, names = _names()
    pins = []
    for n in names:
        for attr in ("core", "shell", "faces"):
            k = _safe(lambda n=n, attr=attr: _definer(cl[n], attr), None)
            if k is None:
                continue
            if isinstance(vars(k)[attr], property):
                pins.append((f"{n}.{attr}", k.__name__, _safe(lambda n=n, attr=attr: returns(cl[n], attr), "?")))
            else:
                pins.append((f"{n}.{attr}", k.__name__, "<attribute>"))

    def shape_pins():
        from classy_blocks.construct.shape import LoftedShape
        from classy_blocks.construct.shapes.round import RoundHollowShape, RoundSolidShape
        from classy_blocks.construct.stack import Stack

        return ((RoundSolidShape, "core"), (RoundSolidShape, "shell"), (RoundHollowShape, "shell"), (LoftedShape, "operations"),
                (LoftedShape, "grid"), (Stack, "grid"), (Stack, "operations"))

    for k, attr in _safe(shape_pins, ()):
        pins.append((f"{k.__name__}.{attr}", _safe(lambda k=k, attr=attr: _definer(k, attr).__name__, "?"),
                     _safe(lambda k=k, attr=attr: returns(k, attr), "?")))
    emit("c19Returns", "List (String × String × String)", pins,
         "(what, defining class, the expression its single `return` statement returns; names bound in it renamed v0, v1, …)")


def _emit_slice(emit) -> None:
    emit("c19SliceSpec", "List (Nat × List String)", _safe(slice_spec, []),
         "the branches of Stack.get_slice after the guards (v0 = axis, v1 = index, `shape` = the loop variable over self.shapes, "
         "`loop` = the comprehension variable)")


def _emit_stack_chop(emit) -> None:
    emit("c19StackChop", "List Nat", _safe(stack_chop_spec, []), "Stack.chop: shape.grid[a][b].chop(axis): [a, b, axis]")


def _emit_grid_init(emit) -> None:
    loops, coords, points = _safe(grid_init_spec, ([], [], []))
    emit("c19GridLoops", "List (String × String)", loops, "Grid.__init__: (loop variable, argument of range), outer loop first")
    emit("c19GridCoords", "List (String × Nat × String)", coords, "Grid.__init__: name = np.linspace(v0[c], v1[c], num=<count> + 1)")
    emit("c19GridPoints", "List ((String × String × Nat) × (String × String × Nat))", points,
         "Grid.__init__: the points of a face: ((x array, index variable, offset), (y array, index variable, offset)), z = 0")


def emit_all(emit) -> None:
    guard = getattr(emit, "guard", None) or (lambda fn, *a, **k: fn(*a, **k))
    # value tables read off instances / classes first (the Base model needs the two probe tables) …
    guard(_emit_probe_sketches, emit)
    guard(_emit_probe_shapes, emit)
    guard(_emit_values, emit)
    # … then every ast group on its own; each emits its table whatever the source looks like (unknown forms degrade per class)
    for group in (_emit_quad_maps, _emit_grid_specs, _emit_merges, _emit_returns, _emit_slice, _emit_stack_chop, _emit_grid_init):
        guard(group, emit)
