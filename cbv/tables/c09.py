"""Tables for C09: what the CURRENT source says about the entity tree (Python `ast` on the files, no logic of its own):

* `c09Parts`      – for every `ElementBase` subclass under `classy_blocks.base` / `classy_blocks.construct` that defines
                    `parts`: the attributes listed in the returned list, in order (`*name` = a whole list of parts);
* `c09PartsPre`   – the statements a `parts` property executes before it returns (side effects of looking at an entity);
* `c09Center`     – the expression `center` returns (names bound inside the expression renamed `v0, v1, …`, a property that only
                    forwards to another property of the same class is inlined, `warnings.warn` statements dropped);
* `c09MethodDefaults` / `c09ListDefaults` – the default origin of `ElementBase.rotate/scale/mirror` and of every
                    branch of `ElementBase.transform`, in branch order;
* `c09Recursion`  – the method each `ElementBase.<method>` calls on every part.

`Props/C09.lean` proves that the model's entity schema, centre rules and default origins are these tables.
"""

from __future__ import annotations

import ast
import importlib
import inspect
import pkgutil
from typing import Dict, List, Optional, Tuple


def _classes():
    import classy_blocks.base.element as el
    import classy_blocks.construct as construct

    out = {}
    mods = [el]
    # file walk (not pkgutil): some sub-packages have no __init__.py
    import pathlib

    root = pathlib.Path(construct.__path__[0])
    for f in sorted(root.rglob("*.py")):
        rel = f.relative_to(root).with_suffix("")
        if rel.name == "__init__":
            continue
        mods.append(importlib.import_module(construct.__name__ + "." + ".".join(rel.parts)))
    for m in mods:
        for _, c in inspect.getmembers(m, inspect.isclass):
            if c.__module__ == m.__name__ and issubclass(c, el.ElementBase):
                out[c.__name__] = c
    return out


def _class_ast(cls) -> ast.ClassDef:
    src = inspect.getsource(inspect.getmodule(cls))
    for node in ast.walk(ast.parse(src)):
        if isinstance(node, ast.ClassDef) and node.name == cls.__name__:
            return node
    raise ValueError(cls)


def _method(cdef: ast.ClassDef, name: str) -> Optional[ast.FunctionDef]:
    for m in cdef.body:
        if isinstance(m, ast.FunctionDef) and m.name == name:
            return m
    return None


def _body(fn: ast.FunctionDef) -> List[ast.stmt]:
    """statements without the docstring"""
    return [s for s in fn.body if not (isinstance(s, ast.Expr) and isinstance(s.value, ast.Constant) and isinstance(s.value.value, str))]


def _self_attr(e: ast.expr) -> Optional[str]:
    if isinstance(e, ast.Attribute) and isinstance(e.value, ast.Name) and e.value.id == "self":
        return e.attr
    return None


def _part_items(e: ast.expr) -> List[str]:
    """`[self.a, *self.b]` -> ["a", "*b"]; `self.xs` -> ["*xs"]; `self.xs + self.ys` -> ["*xs", "*ys"]; `[self]` -> ["self"]"""
    if isinstance(e, ast.List):
        out = []
        for el in e.elts:
            if isinstance(el, ast.Starred):
                a = _self_attr(el.value)
                out.append("*" + (a if a is not None else ast.unparse(el.value)))
            elif isinstance(el, ast.Name) and el.id == "self":
                out.append("self")
            else:
                a = _self_attr(el)
                out.append(a if a is not None else "?" + ast.unparse(el))
        return out
    if isinstance(e, ast.BinOp) and isinstance(e.op, ast.Add):
        return _part_items(e.left) + _part_items(e.right)
    a = _self_attr(e)
    if a is not None:
        return ["*" + a]
    return ["?" + ast.unparse(e)]


class _Rename(ast.NodeTransformer):
    def __init__(self, mapping):
        self.m = mapping

    def visit_Name(self, node):
        if node.id in self.m:
            return ast.copy_location(ast.Name(id=self.m[node.id], ctx=node.ctx), node)
        return node


def _bound_names(e: ast.AST) -> List[str]:
    """names bound inside an expression / statement list (comprehension variables, lambda parameters, assignment
    targets), in order of first appearance in the text"""
    order: List[str] = []

    def visit(n):
        if isinstance(n, ast.Name) and isinstance(n.ctx, ast.Store) and n.id not in order:
            order.append(n.id)
        if isinstance(n, ast.Lambda):
            for a in n.args.args:
                if a.arg not in order:
                    order.append(a.arg)
        for c in ast.iter_child_nodes(n):
            visit(c)

    visit(e)
    return order


def _normal_expr(e: ast.expr) -> str:
    """the expression with its own bound names renamed v0, v1, … (canonical literals via ast.unparse)"""
    import copy

    e = copy.deepcopy(e)
    names = _bound_names(e)
    return " ".join(ast.unparse(_Rename({n: f"v{i}" for i, n in enumerate(names)}).visit(e)).split())


def _is_none_test(test: ast.expr) -> Optional[str]:
    """`<name> is None` -> name"""
    if isinstance(test, ast.Compare) and isinstance(test.left, ast.Name) and len(test.ops) == 1 and isinstance(test.ops[0], ast.Is) \
            and isinstance(test.comparators[0], ast.Constant) and test.comparators[0].value is None:
        return test.left.id
    return None


def _default_when_none(node: ast.AST) -> Optional[ast.expr]:
    """the value given in `if <x> is None: <x> = <value>` (whatever <x> is called)"""
    for s in ast.walk(node):
        if isinstance(s, ast.If):
            x = _is_none_test(s.test)
            if x is not None:
                for b in s.body:
                    if isinstance(b, ast.Assign) and isinstance(b.targets[0], ast.Name) and b.targets[0].id == x:
                        return b.value
    return None


def _parts_tables(classes) -> Tuple[List[Tuple[str, List[str]]], List[Tuple[str, List[str]]]]:
    parts, pre = [], []
    for name in sorted(classes):
        fn = _method(_class_ast(classes[name]), "parts")
        if fn is None:
            continue
        body = _body(fn)
        if not body:
            parts.append((name, ["!abstract"]))
            continue
        last = body[-1]
        if isinstance(last, ast.Return) and last.value is not None:
            parts.append((name, _part_items(last.value)))
        elif isinstance(last, ast.Raise):
            parts.append((name, ["!raise"]))
        else:
            parts.append((name, ["?" + ast.unparse(last)]))
        before = [ast.unparse(s) for s in body[:-1]]
        if before:
            pre.append((name, before))
    return parts, pre


def _is_warn(s: ast.stmt) -> bool:
    return isinstance(s, ast.Expr) and isinstance(s.value, ast.Call) and ast.unparse(s.value.func) == "warnings.warn"


class _InlineProps(ast.NodeTransformer):
    """`self.center_1` -> what the property `center_1` of the same class returns (one level, single-return properties
    whose name starts with `center`)"""

    def __init__(self, cdef):
        self.cdef = cdef

    def visit_Attribute(self, node):
        a = _self_attr(node)
        if a is not None and a.startswith("center"):
            fwd = _method(self.cdef, a)
            if fwd is not None:
                fb = [s for s in _body(fwd) if not _is_warn(s)]
                if len(fb) == 1 and isinstance(fb[0], ast.Return) and fb[0].value is not None:
                    return fb[0].value
        return self.generic_visit(node)


def _inline_center_props(cdef, e):
    import copy

    return _InlineProps(cdef).visit(copy.deepcopy(e))


def _center_table(classes) -> List[Tuple[str, str]]:
    out = []
    for name in sorted(classes):
        cdef = _class_ast(classes[name])
        fn = _method(cdef, "center")
        if fn is None:
            continue
        body = [s for s in _body(fn) if not _is_warn(s)]
        if not body:
            out.append((name, "!abstract"))
            continue
        if len(body) != 1 or not isinstance(body[0], ast.Return) or body[0].value is None:
            out.append((name, "?" + "; ".join(ast.unparse(s) for s in body)))
            continue
        e = body[0].value
        a = _self_attr(e)
        if a is not None:
            fwd = _method(cdef, a)  # `return self.center_point`: a property of the same class
            if fwd is not None:
                fb = [s for s in _body(fwd) if not _is_warn(s)]
                if len(fb) == 1 and isinstance(fb[0], ast.Return) and fb[0].value is not None:
                    e = fb[0].value
        out.append((name, _normal_expr(_inline_center_props(cdef, e))))
    return out


def _calls_on(loop: ast.For) -> List[str]:
    """methods called on the loop variable inside a `for <x> in …` loop"""
    if not isinstance(loop.target, ast.Name):
        return []
    out = []
    for b in ast.walk(loop):
        if isinstance(b, ast.Call) and isinstance(b.func, ast.Attribute) and isinstance(b.func.value, ast.Name) \
                and b.func.value.id == loop.target.id and b.func.attr not in out:
            out.append(b.func.attr)
    return out


def _element_methods():
    import classy_blocks.base.element as el

    cdef = _class_ast(el.ElementBase)
    method_defaults, recursion = [], []
    for mname in ("translate", "rotate", "scale", "mirror"):
        fn = _method(cdef, mname)
        d = _default_when_none(fn)
        called = []
        for s in ast.walk(fn):
            if isinstance(s, ast.For) and ast.unparse(s.iter) == "self.parts":
                called += _calls_on(s)
        method_defaults.append((mname, "-" if d is None else _normal_expr(d)))
        recursion.append((mname, called))
    return method_defaults, recursion


class _NoAnnotations(ast.NodeTransformer):
    """`x: T = e` reads as `x = e`"""

    def visit_AnnAssign(self, node):
        if node.value is None:
            return None
        return ast.copy_location(ast.Assign(targets=[node.target], value=node.value), node)


def _element_transform():
    import classy_blocks.base.element as el

    fn = _NoAnnotations().visit(_method(_class_ast(el.ElementBase), "transform"))
    # locals assigned exactly once from an expression: a default origin that names one reads as that expression
    assigned = {}
    for s in ast.walk(fn):
        if isinstance(s, ast.Assign) and isinstance(s.targets[0], ast.Name):
            assigned.setdefault(s.targets[0].id, []).append(s.value)

    def resolve(e: ast.expr) -> str:
        if isinstance(e, ast.Name) and len(assigned.get(e.id, [])) == 1:
            return _normal_expr(assigned[e.id][0])
        return _normal_expr(e)

    outer = [s for s in ast.walk(fn) if isinstance(s, ast.For) and isinstance(s.iter, ast.Name)
             and s.iter.id in [a.arg for a in fn.args.args]]
    if not outer:
        raise ValueError("ElementBase.transform: no loop over the transformation list")
    loop = outer[0]
    body = [b for b in loop.body if not (isinstance(b, ast.Expr) and isinstance(b.value, ast.Constant))]
    first = body[0]
    first_text = _normal_expr(first.value) if isinstance(first, ast.Assign) else "?" + " ".join(ast.unparse(first).split())
    branches = []
    for s in ast.walk(loop):
        if isinstance(s, ast.For) and ast.unparse(s.iter) == "self.parts":
            for b in s.body:
                if isinstance(b, ast.If) and isinstance(b.test, ast.Call) and ast.unparse(b.test.func) == "isinstance":
                    cls = ast.unparse(b.test.args[1]).split(".")[-1]
                    d = _default_when_none(b)
                    called = [c for c in _calls_on(s) if any(
                        isinstance(x, ast.Call) and isinstance(x.func, ast.Attribute) and x.func.attr == c for x in ast.walk(b))]
                    branches.append((cls, "-" if d is None else resolve(d), called))
    return branches, first_text


def _cardinalities(classes) -> List[Tuple[str, str, int]]:
    """how many parts of a kind a constructor insists on, read off its guards and list literals (whatever the locals are
    called): `Face.__init__` compares the shape of the point array with `(n, 3)` and `len(<edges>)` with `n`;
    `Operation.__init__` creates `self.side_edges` as a list literal"""
    out = []
    init = _method(_class_ast(classes["Face"]), "__init__")
    shapes = [c.comparators[0].elts[0].value for c in ast.walk(init) if isinstance(c, ast.Compare) and isinstance(c.ops[0], ast.NotEq)
              and isinstance(c.comparators[0], ast.Tuple) and len(c.comparators[0].elts) == 2
              and all(isinstance(e, ast.Constant) and isinstance(e.value, int) for e in c.comparators[0].elts)]
    lens = [c.comparators[0].value for c in ast.walk(init) if isinstance(c, ast.Compare) and isinstance(c.ops[0], ast.NotEq)
            and isinstance(c.left, ast.Call) and ast.unparse(c.left.func) == "len"
            and isinstance(c.comparators[0], ast.Constant) and isinstance(c.comparators[0].value, int)]
    if len(shapes) != 1 or len(lens) != 1:
        raise ValueError(f"Face.__init__: expected one shape guard and one len() guard, found {shapes} / {lens}")
    out.append(("Face", "points", int(shapes[0])))
    out.append(("Face", "edges", int(lens[0])))
    init = _method(_class_ast(classes["Operation"]), "__init__")
    lits = [s.value for s in ast.walk(init) if isinstance(s, (ast.Assign, ast.AnnAssign)) and s.value is not None
            and ast.unparse(s.targets[0] if isinstance(s, ast.Assign) else s.target) == "self.side_edges" and isinstance(s.value, ast.List)]
    if len(lits) != 1:
        raise ValueError("Operation.__init__: self.side_edges is not created from one list literal")
    out.append(("Operation", "side_edges", len(lits[0].elts)))
    return out


def _array_min_rows(classes) -> int:
    """`Array.__init__`: `if len(<points>) <= k: raise` (or `< k`) -> the least number of rows an Array can have"""
    init = _method(_class_ast(classes["Array"]), "__init__")
    found = []
    for s in ast.walk(init):
        if isinstance(s, ast.If) and any(isinstance(b, ast.Raise) for b in s.body) and isinstance(s.test, ast.Compare) \
                and isinstance(s.test.left, ast.Call) and ast.unparse(s.test.left.func) == "len" and len(s.test.ops) == 1 \
                and isinstance(s.test.comparators[0], ast.Constant) and isinstance(s.test.comparators[0].value, int):
            k = s.test.comparators[0].value
            if isinstance(s.test.ops[0], ast.LtE):
                found.append(k + 1)
            elif isinstance(s.test.ops[0], ast.Lt):
                found.append(k)
    if len(found) != 1:
        raise ValueError(f"Array.__init__: expected one guard on the number of points, found {found}")
    return found[0]


def emit_all(emit):
    guard = getattr(emit, "guard", lambda fn, *a, **k: fn(*a, **k))
    classes = _classes()

    def g_parts():
        parts, pre = _parts_tables(classes)
        emit("c09Parts", "List (String × List String)", [(n, list(v)) for n, v in parts],
             "class -> entries of the list `parts` returns, in order (`*a` = the list self.a, `self` = the object itself)")
        emit("c09PartsPre", "List (String × List String)", [(n, list(v)) for n, v in pre],
             "class -> statements its `parts` property executes before returning")

    def g_center():
        emit("c09Center", "List (String × String)", _center_table(classes),
             "class -> the expression `center` returns (bound names renamed v0, v1, …; warn statements dropped)")

    def g_methods():
        md, rec = _element_methods()
        emit("c09MethodDefaults", "List (String × String)", md, "ElementBase.<method>: value given to the origin when it is None")
        emit("c09Recursion", "List (String × List String)", [(n, list(v)) for n, v in rec],
             "ElementBase.<method>: methods called on every part")

    def g_transform():
        branches, first = _element_transform()
        emit("c09ListDefaults", "List (String × String × List String)", [(c, d, list(m)) for c, d, m in branches],
             "ElementBase.transform: (transformation class, default origin with single-assignment locals resolved, "
             "methods called on every part), in branch order")
        emit("c09ListCenterFirst", "String", first,
             "what the first statement of the loop over the transformation list assigns (the centre is taken before any part moves)")

    def g_card():
        emit("c09Cardinality", "List (String × String × Nat)", _cardinalities(classes),
             "(class, attribute listed in `parts`, how many the constructor insists on): Face guards, Operation's list literal")

    def g_array():
        emit("c09ArrayMinRows", "Nat", _array_min_rows(classes), "the least number of rows `Array.__init__` accepts")

    # every group is an independent `ast` reading of the current source: one that fails leaves the others in place
    for g in (g_parts, g_center, g_methods, g_transform, g_card, g_array):
        guard(g)
