"""Tables for C09: what the CURRENT source says about the entity tree (Python `ast` on the files, no logic of its own):

* `c09Parts`      – for every `ElementBase` subclass under `classy_blocks.base` / `classy_blocks.construct` that defines
                    `parts`: the attributes listed in the returned list, in order (`*name` = a whole list of parts);
* `c09PartsPre`   – the statements a `parts` property executes before it returns (side effects of looking at an entity);
* `c09Center`     – the expression `center` returns (comprehension variables renamed to `x`, a property that only
                    forwards to another property of the same class is inlined, `warnings.warn` statements dropped);
* `c09MethodDefaults` / `c09ListDefaults` – the default origin of `ElementBase.rotate/scale/mirror` and of every
                    branch of `ElementBase.transform`, in branch order;
* `c09Recursion`  – the method each `ElementBase.<method>` calls on every part.

`Props/C09.lean` proves that the model's entity schema, centre rules and default origins are these tables.
"""

from __future__ import annotations

import ast
import importlib
import inspect
import pkgutil
from typing import Dict, List, Optional, Tuple


def _classes():
    import classy_blocks.base.element as el
    import classy_blocks.construct as construct

    out = {}
    mods = [el]
    # file walk (not pkgutil): some sub-packages have no __init__.py
    import pathlib

    root = pathlib.Path(construct.__path__[0])
    for f in sorted(root.rglob("*.py")):
        rel = f.relative_to(root).with_suffix("")
        if rel.name == "__init__":
            continue
        mods.append(importlib.import_module(construct.__name__ + "." + ".".join(rel.parts)))
    for m in mods:
        for _, c in inspect.getmembers(m, inspect.isclass):
            if c.__module__ == m.__name__ and issubclass(c, el.ElementBase):
                out[c.__name__] = c
    return out


def _class_ast(cls) -> ast.ClassDef:
    src = inspect.getsource(inspect.getmodule(cls))
    for node in ast.walk(ast.parse(src)):
        if isinstance(node, ast.ClassDef) and node.name == cls.__name__:
            return node
    raise ValueError(cls)


def _method(cdef: ast.ClassDef, name: str) -> Optional[ast.FunctionDef]:
    for m in cdef.body:
        if isinstance(m, ast.FunctionDef) and m.name == name:
            return m
    return None


def _body(fn: ast.FunctionDef) -> List[ast.stmt]:
    """statements without the docstring"""
    return [s for s in fn.body if not (isinstance(s, ast.Expr) and isinstance(s.value, ast.Constant) and isinstance(s.value.value, str))]


def _self_attr(e: ast.expr) -> Optional[str]:
    if isinstance(e, ast.Attribute) and isinstance(e.value, ast.Name) and e.value.id == "self":
        return e.attr
    return None


def _part_items(e: ast.expr) -> List[str]:
    """`[self.a, *self.b]` -> ["a", "*b"]; `self.xs` -> ["*xs"]; `self.xs + self.ys` -> ["*xs", "*ys"]; `[self]` -> ["self"]"""
    if isinstance(e, ast.List):
        out = []
        for el in e.elts:
            if isinstance(el, ast.Starred):
                a = _self_attr(el.value)
                out.append("*" + (a if a is not None else ast.unparse(el.value)))
            elif isinstance(el, ast.Name) and el.id == "self":
                out.append("self")
            else:
                a = _self_attr(el)
                out.append(a if a is not None else "?" + ast.unparse(el))
        return out
    if isinstance(e, ast.BinOp) and isinstance(e.op, ast.Add):
        return _part_items(e.left) + _part_items(e.right)
    a = _self_attr(e)
    if a is not None:
        return ["*" + a]
    return ["?" + ast.unparse(e)]


class _Rename(ast.NodeTransformer):
    def __init__(self, names):
        self.names = names

    def visit_Name(self, node):
        if node.id in self.names:
            return ast.copy_location(ast.Name(id="x", ctx=node.ctx), node)
        return node


def _normal_expr(e: ast.expr) -> str:
    names = set()
    for n in ast.walk(e):
        if isinstance(n, ast.comprehension) and isinstance(n.target, ast.Name):
            names.add(n.target.id)
    return ast.unparse(_Rename(names).visit(e))


def _parts_tables(classes) -> Tuple[List[Tuple[str, List[str]]], List[Tuple[str, List[str]]]]:
    parts, pre = [], []
    for name in sorted(classes):
        fn = _method(_class_ast(classes[name]), "parts")
        if fn is None:
            continue
        body = _body(fn)
        if not body:
            parts.append((name, ["!abstract"]))
            continue
        last = body[-1]
        if isinstance(last, ast.Return) and last.value is not None:
            parts.append((name, _part_items(last.value)))
        elif isinstance(last, ast.Raise):
            parts.append((name, ["!raise"]))
        else:
            parts.append((name, ["?" + ast.unparse(last)]))
        before = [ast.unparse(s) for s in body[:-1]]
        if before:
            pre.append((name, before))
    return parts, pre


def _is_warn(s: ast.stmt) -> bool:
    return isinstance(s, ast.Expr) and isinstance(s.value, ast.Call) and ast.unparse(s.value.func) == "warnings.warn"


def _center_table(classes) -> List[Tuple[str, str]]:
    out = []
    for name in sorted(classes):
        cdef = _class_ast(classes[name])
        fn = _method(cdef, "center")
        if fn is None:
            continue
        body = [s for s in _body(fn) if not _is_warn(s)]
        if not body:
            out.append((name, "!abstract"))
            continue
        if len(body) != 1 or not isinstance(body[0], ast.Return) or body[0].value is None:
            out.append((name, "?" + "; ".join(ast.unparse(s) for s in body)))
            continue
        e = body[0].value
        a = _self_attr(e)
        if a is not None:
            fwd = _method(cdef, a)  # `return self.center_point`: a property of the same class
            if fwd is not None:
                fb = [s for s in _body(fwd) if not _is_warn(s)]
                if len(fb) == 1 and isinstance(fb[0], ast.Return) and fb[0].value is not None:
                    e = fb[0].value
        out.append((name, _normal_expr(e)))
    return out


def _element_tables():
    import classy_blocks.base.element as el

    cdef = _class_ast(el.ElementBase)
    method_defaults, recursion = [], []
    for mname in ("translate", "rotate", "scale", "mirror"):
        fn = _method(cdef, mname)
        dflt = "-"
        called = []
        for s in ast.walk(fn):
            if isinstance(s, ast.If) and ast.unparse(s.test) == "origin is None":
                for b in s.body:
                    if isinstance(b, ast.Assign) and ast.unparse(b.targets[0]) == "origin":
                        dflt = ast.unparse(b.value)
            if isinstance(s, ast.For) and ast.unparse(s.iter) == "self.parts":
                for b in ast.walk(s):
                    if isinstance(b, ast.Call) and isinstance(b.func, ast.Attribute) and isinstance(b.func.value, ast.Name) \
                            and b.func.value.id == s.target.id:
                        called.append(b.func.attr)
        method_defaults.append((mname, dflt))
        recursion.append((mname, called))

    fn = _method(cdef, "transform")
    branches = []
    for s in ast.walk(fn):
        if isinstance(s, ast.For) and ast.unparse(s.iter) == "self.parts":
            for b in s.body:
                if isinstance(b, ast.If) and isinstance(b.test, ast.Call) and ast.unparse(b.test.func) == "isinstance":
                    cls = ast.unparse(b.test.args[1]).split(".")[-1]
                    dflt = "-"
                    called = []
                    for c in ast.walk(b):
                        if isinstance(c, ast.If) and ast.unparse(c.test) == "origin is None":
                            for a in c.body:
                                if isinstance(a, ast.Assign):
                                    dflt = ast.unparse(a.value)
                        if isinstance(c, ast.Call) and isinstance(c.func, ast.Attribute) and isinstance(c.func.value, ast.Name) \
                                and c.func.value.id == s.target.id:
                            called.append(c.func.attr)
                    branches.append((cls, dflt, called))
    # where `center` of the transformation list comes from: the statement `center = self.center` is the first of the loop body
    first = ""
    for s in ast.walk(fn):
        if isinstance(s, ast.For) and ast.unparse(s.iter) == "transforms":
            first = ast.unparse(_body(s)[0]) if isinstance(s, ast.For) else ""
            first = ast.unparse([b for b in s.body if not (isinstance(b, ast.Expr) and isinstance(b.value, ast.Constant))][0])
    return method_defaults, recursion, branches, first


def emit_all(emit):
    classes = _classes()
    parts, pre = _parts_tables(classes)
    emit("c09Parts", "List (String × List String)", [(n, list(v)) for n, v in parts],
         "class -> entries of the list `parts` returns, in order (`*a` = the list self.a, `self` = the object itself)")
    emit("c09PartsPre", "List (String × List String)", [(n, list(v)) for n, v in pre],
         "class -> statements its `parts` property executes before returning")
    emit("c09Center", "List (String × String)", _center_table(classes),
         "class -> the expression `center` returns (comprehension variable renamed to x)")
    md, rec, branches, first = _element_tables()
    emit("c09MethodDefaults", "List (String × String)", md, "ElementBase.<method>: value given to `origin` when it is None")
    emit("c09Recursion", "List (String × List String)", [(n, list(v)) for n, v in rec],
         "ElementBase.<method>: methods called on every part")
    emit("c09ListDefaults", "List (String × String × List String)", [(c, d, list(m)) for c, d, m in branches],
         "ElementBase.transform: (transformation class, default origin, methods called on every part), in branch order")
    emit("c09ListCenterFirst", "String", first, "first statement of the loop over the transformation list")
