"""Tables for C14: which corner pairs `CellBase.get_edge_lengths` measures (read off a probe cell whose
28 / 6 pairwise distances are all different; no logic beyond matching the returned lengths)."""

from __future__ import annotations


def _probe(cls, n):
    import numpy as np

    pts = np.array([[(7 * i * i + 3 * i) % 11 + 0.5 * i, (5 * i * i * i + i) % 13 + 0.25 * i, (3 * i * i + 2 * i) % 17 + 0.125 * i]
                    for i in range(n)], dtype=float)
    dist = {(a, b): float(np.linalg.norm(pts[b] - pts[a])) for a in range(n) for b in range(a + 1, n)}
    vals = sorted(dist.values())
    assert all(y - x > 1e-6 for x, y in zip(vals, vals[1:])), "probe distances must be distinct"
    cell = cls(pts, list(range(n)))
    pairs = []
    for length in cell.get_edge_lengths():
        hit = [p for p, d in dist.items() if abs(d - float(length)) < 1e-9]
        if len(hit) != 1:
            raise ValueError(f"get_edge_lengths returned {length!r}, which is not the distance of one corner pair")
        pairs.append(hit[0])
    return pairs


def _qscale_constants(CellBase):
    import ast
    import inspect
    import textwrap
    from fractions import Fraction

    out = []
    try:
        tree = ast.parse(textwrap.dedent(inspect.getsource(CellBase.quality.fget)))
        calls = [n for n in ast.walk(tree) if isinstance(n, ast.Call) and isinstance(n.func, ast.Name) and n.func.id == "q_scale"]
        calls.sort(key=lambda n: (n.lineno, n.col_offset))
        for c in calls:
            triple = []
            for a in c.args[:3]:
                q = Fraction(float(ast.literal_eval(a)))
                triple.append((q.numerator, q.denominator))
            out.append(triple)
    except Exception:
        pass
    return out


def _mask_qscale(lines):
    """the constants of the q_scale calls are tied by value (`c14QScale`), not by text"""
    import re

    num = r"-?\d+(?:\.\d*)?(?:e-?\d+)?"
    return [re.sub(rf"q_scale\({num}, {num}, {num}, ", "q_scale(#, #, #, ", x) for x in lines]


def emit_all(emit):
    from classy_blocks.optimize.cell import CellBase, HexCell, QuadCell
    from classy_blocks.optimize.grid import GridBase
    from classy_blocks.optimize.junction import Junction
    from classy_blocks.util import constants

    emit("hexAspectPairs", "List (Nat × Nat)", _probe(HexCell, 8),
         "corner pairs (a<b) measured by HexCell.get_edge_lengths, in the order returned (probe)")
    emit("quadAspectPairs", "List (Nat × Nat)", _probe(QuadCell, 4),
         "corner pairs (a<b) measured by QuadCell.get_edge_lengths, in the order returned (probe)")
    emit("vsmallIs1em6", "Bool", bool(constants.VSMALL == 1e-6), "constants.VSMALL == 1e-6")
    from fractions import Fraction

    v = Fraction(float(constants.VSMALL))
    emit("c14Vsmall", "Int × Nat", (v.numerator, v.denominator), "constants.VSMALL, exact value of the float (the model's guard)")
    # the constant triples (base, exponent, factor) of the three `q_scale(...)` calls of CellBase.quality, in source order,
    # exact values of the floats; the model computes with them.  Never fails: what cannot be read gives a shorter list,
    # which the model refuses to compute with (`bad-op`, reported by the correspondence).
    emit("c14QScale", "List (List (Int × Nat))", _qscale_constants(CellBase),
         "q_scale(base, exponent, factor, ·) constants of non-orthogonality, inner angle and aspect term (ast on the source)")

    # the statement skeletons of the methods on the execution path of `CellBase.quality`, read off the current source
    # text with `ast` (see cbv/tables/c15.py: one string per statement, `depth:text`, locals renamed a0, a1, …); named by
    # Props/C14.lean only; every method in its own group
    from .c15 import skeleton

    guard = getattr(emit, "guard", lambda fn, *a, **k: fn(*a, **k))
    S = "List String"
    for name, get, doc in [
        ("c14SrcQuality", lambda: CellBase.quality, "CellBase.quality (order of the terms, q_scale constants, guards)"),
        ("c14SrcEdgeLengths", lambda: CellBase.get_edge_lengths, "CellBase.get_edge_lengths"),
        ("c14SrcPoints", lambda: CellBase.points, "CellBase.points"),
        ("c14SrcCenter", lambda: CellBase.center, "CellBase.center"),
        ("c14SrcSidePoints", lambda: CellBase.get_side_points, "CellBase.get_side_points"),
        ("c14SrcSideCenter", lambda: CellBase.get_side_center, "CellBase.get_side_center"),
        ("c14SrcQuadNormal", lambda: QuadCell.normal, "QuadCell.normal (corners 0, 1, 3)"),
        ("c14SrcQuadSideNormals", lambda: QuadCell.get_side_normals, "QuadCell.get_side_normals"),
        ("c14SrcQuadInnerAngles", lambda: QuadCell.get_inner_angles, "QuadCell.get_inner_angles"),
        ("c14SrcHexSideNormals", lambda: HexCell.get_side_normals, "HexCell.get_side_normals"),
        ("c14SrcHexInnerAngles", lambda: HexCell.get_inner_angles, "HexCell.get_inner_angles"),
        ("c14SrcGridQuality", lambda: GridBase.quality, "GridBase.quality"),
        ("c14SrcJunctionQuality", lambda: Junction.quality, "Junction.quality"),
        ("c14SrcGridUpdate", lambda: GridBase.update, "GridBase.update"),
    ]:
        guard(lambda name=name, get=get, doc=doc: emit(name, S, _mask_qscale(skeleton(get())), doc))
