"""C20 tables: constants.TOL and the outcome (accepted / exception class) of the real constructors and
mutators on a fixed probe set on both sides of every documented boundary.  Values only: each probe is
executed against the imported package and its outcome is printed; nothing is decided here."""

from fractions import Fraction


def emit_all(emit):
    from classy_blocks.util import constants

    from ..props import c20

    tol = Fraction(float(constants.TOL))
    emit("c20Tol", "Int × Nat", (tol.numerator, tol.denominator), "constants.TOL, exact value of the float")

    rows = []
    for case in c20.probe_cases():
        rats = [Fraction(x) for x in case["r"]]
        outcome = c20.impl_call(case["name"], rats, case["s"], light=True)
        rows.append((case["name"], [(q.numerator, q.denominator) for q in rats], list(case["s"]), outcome))
    # emitted in a fixed number of chunks: one long literal with 2^52 denominators is slow to elaborate
    n_chunks = 10
    size = -(-len(rows) // n_chunks)
    for k in range(n_chunks):
        emit(
            f"c20Probes{k}",
            "List (String × List (Int × Nat) × List String × String)",
            rows[k * size : (k + 1) * size],
            "(call, rational arguments, string arguments, outcome of the real implementation: accepted or exception "
            f"class), part {k} of {n_chunks}",
        )

    # round 6: the guards of every covered entry point, read from the current source with `ast`.
    # round 6b: one `emit.guard` per entry point — an entry point the translator cannot read (GuardSyntaxError) gets the
    # marker row `untranslatable` and is reported as a translator failure; the guards of the others are emitted as
    # usual, so only the obligations about that one entry point break and the model (which names the table) still builds.
    from ..props import c20_guards

    rows = []
    for entry in c20_guards.ENTRIES:

        def one(entry=entry):
            rows.append((entry, c20_guards.flatten(c20_guards.guards(entry))))

        before = len(rows)
        guard = getattr(emit, "guard", None)
        if guard is not None:
            guard(one)
        else:
            one()
        if len(rows) == before:
            rows.append((entry, [("untranslatable", 0, "")]))
    emit(
        "c20Guards",
        "List (String × List (String × Int × String))",
        rows,
        "guards (`if cond: raise Cls`, early returns, mutations before a guard) of the covered entry points as the "
        "translator cbv/props/c20_guards.py reads them from the source, flattened in prefix notation: rows (tag, int, str); "
        "an entry point that could not be translated holds the single row (untranslatable, 0, \"\"); "
        "syntax and semantics in CBV/Model/C20Syntax.lean",
    )
