"""C18 — tables of the current source used by the finder / re-orienter model.

Values are read from the imported package (probe instances of the sketches, the merge
tolerance, the key order of `ViewpointReorienter._get_normals`); nothing is decided here.
"""

from __future__ import annotations

from fractions import Fraction


def sketch_points(sketch):
    """Numbers the points of a sketch by first appearance over `sketch.faces` (coincident positions share
    a number).  Returns (positions, quads)."""
    import numpy as np

    positions = []
    quads = []
    for face in sketch.faces:
        quad = []
        for point in face.points:
            for i, pos in enumerate(positions):
                if float(np.linalg.norm(pos - point.position)) < 1e-7:
                    quad.append(i)
                    break
            else:
                positions.append(np.array(point.position, dtype=float))
                quad.append(len(positions) - 1)
        quads.append(quad)
    return positions, quads


def _sketch_table(name, sketch):
    """(name, quads, core face indices, shell face indices, r2) of a probe sketch;
    r2[i] = squared distance of point i from `sketch.center`, in units of 1e-6 (rounded)."""
    import numpy as np

    positions, quads = sketch_points(sketch)
    faces = list(sketch.faces)

    def index(face):
        return [i for i, f in enumerate(faces) if f is face][0]

    core = [index(f) for f in sketch.core]
    shell = [index(f) for f in sketch.shell]
    center = np.asarray(sketch.center, dtype=float)
    r2 = [int(round(float(np.dot(p - center, p - center)) * 1e6)) for p in positions]
    return (name, quads, core, shell, r2)


def emit_all(emit) -> None:
    import numpy as np

    from classy_blocks.construct.flat.sketches import disk
    from classy_blocks.construct.flat.sketches.annulus import Annulus
    from classy_blocks.modify.reorient.viewpoint import ViewpointReorienter
    from classy_blocks.util import constants

    num, den = Fraction(float(constants.TOL)).as_integer_ratio()
    emit("c18Tol", "Nat × Nat", (num, den), "constants.TOL as the exact rational image of the float")

    o, r, n = [0.0, 0.0, 0.0], [1.0, 0.0, 0.0], [0.0, 0.0, 1.0]
    probes = [
        ("OneCoreDisk", disk.OneCoreDisk(o, r, n)),
        ("QuarterDisk", disk.QuarterDisk(o, r, n)),
        ("HalfDisk", disk.HalfDisk(o, r, n)),
        ("FourCoreDisk", disk.FourCoreDisk(o, r, n)),
        ("WrappedDisk", disk.WrappedDisk(o, [2.0, 2.0, 0.0], 1.0, n)),
        ("Annulus8", Annulus(o, r, n, 0.5, 8)),
        ("Annulus5", Annulus(o, r, n, 0.5, 5)),
    ]
    emit(
        "c18Sketches",
        "List (String × List (List Nat) × List Nat × List Nat × List Nat)",
        [_sketch_table(name, sk) for name, sk in probes],
        "round sketches (probe instances): name, quads (point numbers by first appearance), indices of the faces in "
        "`.core` and in `.shell`, squared distance of every point from `.center` in 1e-6 units",
    )

    guard = getattr(emit, "guard", lambda fn, *a, **k: fn(*a, **k))

    def view_order():
        normals = ViewpointReorienter([0.0, -10.0, 0.0], [0.0, 0.0, 10.0])._get_normals(np.zeros(3))
        emit(
            "c18ViewOrder",
            "List (String × List Int)",
            [(k, [int(round(float(x))) for x in v]) for k, v in normals.items()],
            "ViewpointReorienter._get_normals for observer (0,-10,0), ceiling (0,0,10), centre 0: keys in dict order with "
            "the (unit) direction of each",
        )

    guard(view_order)  # only Props/C18 names it
    _emit_source_tie(emit, guard)


# ---------------------------------------------------------------------------------------------------------------
# round 6: what the source states literally (guards, constants, index recipes), read with `ast` from the current files


def _functions(module):
    """qualified name -> ast.FunctionDef of every function / method of a module's current source"""
    import ast
    import inspect

    tree = ast.parse(inspect.getsource(module))
    out = {}
    for node in tree.body:
        if isinstance(node, ast.FunctionDef):
            out[node.name] = node
        elif isinstance(node, ast.ClassDef):
            for sub in node.body:
                if isinstance(sub, ast.FunctionDef):
                    out[f"{node.name}.{sub.name}"] = sub
    return out


def _normalised(fn):
    """a copy of a FunctionDef with docstrings and annotations dropped and every parameter / local (not `self`, `cls`)
    renamed v0, v1, … in order of first appearance, so that only statement-level edits change the pinned text"""
    import ast
    import copy

    fn = copy.deepcopy(fn)
    names = []

    def add(n):
        if n not in names and n not in ("self", "cls"):
            names.append(n)

    found = []  # ast.walk is breadth first: order by position instead
    for node in ast.walk(fn):
        if isinstance(node, ast.arg):
            found.append((node.lineno, node.col_offset, node.arg))
        elif isinstance(node, ast.Name) and isinstance(node.ctx, ast.Store):
            found.append((node.lineno, node.col_offset, node.id))
        elif isinstance(node, ast.ExceptHandler) and node.name:
            found.append((node.lineno, node.col_offset, node.name))
    for _, _, n in sorted(found):
        add(n)
    new = {n: f"v{k}" for k, n in enumerate(names)}

    class Rename(ast.NodeTransformer):
        def visit_Name(self, n):
            n.id = new.get(n.id, n.id)
            return n

        def visit_arg(self, n):
            n.arg = new.get(n.arg, n.arg)
            n.annotation = None
            return n

        def visit_FunctionDef(self, n):
            n.returns = None
            self.generic_visit(n)
            if n.body and isinstance(n.body[0], ast.Expr) and isinstance(getattr(n.body[0], "value", None), ast.Constant) \
                    and isinstance(n.body[0].value.value, str):
                n.body = n.body[1:] or [ast.Pass()]
            return n

        def visit_AnnAssign(self, n):
            self.generic_visit(n)
            if n.value is None:
                return None
            return ast.copy_location(ast.Assign(targets=[n.target], value=n.value), n)

    fn = Rename().visit(fn)
    ast.fix_missing_locations(fn)
    return fn


def _slices(node):
    import ast

    return [s for s in ast.walk(node) if isinstance(s, ast.Subscript) and isinstance(s.slice, ast.Slice)]


def _emit_source_tie(emit, guard) -> None:
    """every group is independent and runs under `emit.guard`: a group that cannot read the source any more loses its own
    tables only (none of them is named by a Model file)"""
    import ast

    from classy_blocks.modify.find import finder, geometric, shape
    from classy_blocks.modify.reorient import viewpoint
    from classy_blocks.util import functions

    def sources():
        vp = _functions(viewpoint)
        srcs = [("viewpoint", vp), ("finder", _functions(finder)), ("geometric", _functions(geometric)),
                ("shape", _functions(shape))]
        fn = _functions(functions)
        srcs.append(("functions", {k: fn[k] for k in ("is_point_on_plane", "point_to_plane_distance") if k in fn}))
        return srcs

    def pos(n):
        return (n.lineno, n.col_offset)

    def text_pins():
        # every comparison and every slice of the anchored functions as normalised text (locals v0, v1, …; annotations,
        # docstrings, comments, blank lines do not matter), sorted by function and position
        compares, slices = [], []
        for mod, funcs in sources():
            for name, node in funcs.items():
                node = ast.parse(ast.unparse(_normalised(node))).body[0]  # positions of the normalised text
                for sub in ast.walk(node):
                    if isinstance(sub, ast.Compare):
                        compares.append((f"{mod}.{name}", pos(sub), ast.unparse(sub)))
                for sub in _slices(node):
                    slices.append((f"{mod}.{name}", pos(sub), ast.unparse(sub)))
        emit("c18Compares", "List (String × String)", [(c[0], c[2]) for c in sorted(compares)],
             "every comparison (ast.Compare) of viewpoint.py, finder.py, geometric.py, shape.py and functions.is_point_on_plane / "
             "point_to_plane_distance: (function, normalised source text: parameters and locals renamed v0, v1, …)")
        emit("c18Slices", "List (String × String)", [(c[0], c[2]) for c in sorted(slices)],
             "every slice of the same functions: (function, normalised source text)")

    vp = _functions(viewpoint)

    def recipe():
        # the list display of eight `X[a].get_common_point(X[b], X[c])` calls, whatever the names
        for sub in ast.walk(vp["ViewpointReorienter.reorient"]):
            if isinstance(sub, ast.List) and len(sub.elts) == 8 and all(
                isinstance(c, ast.Call) and isinstance(c.func, ast.Attribute) and c.func.attr == "get_common_point"
                for c in sub.elts
            ):
                rec = [(c.func.value.slice.value, c.args[0].slice.value, c.args[1].slice.value) for c in sub.elts]
                emit("c18CornerRecipe", "List (String × String × String)", rec,
                     "reorient: sorted_points[k] = quads[a].get_common_point(quads[b], quads[c]), in list order")
                return
        raise LookupError("corner recipe")

    def swap():
        # `[X[i] for i in (…eight constants…)]`
        for sub in ast.walk(vp["ViewpointReorienter.reorient"]):
            if isinstance(sub, ast.ListComp) and isinstance(sub.generators[0].iter, (ast.Tuple, ast.List)):
                elts = sub.generators[0].iter.elts
                if len(elts) == 8 and all(isinstance(e, ast.Constant) for e in elts):
                    emit("c18SwapIdx", "List Nat", [e.value for e in elts], "reorient: the index tuple of the handedness swap")
                    return
        raise LookupError("swap tuple")

    def hand():
        # the assignments `name = X[a] - X[b]` with constant a, b, in source order (side_x, side_y, side_z)
        out = []
        for sub in sorted((n for n in ast.walk(vp["ViewpointReorienter.reorient"]) if isinstance(n, ast.Assign)), key=pos):
            v = sub.value
            if isinstance(v, ast.BinOp) and isinstance(v.op, ast.Sub) and all(
                isinstance(x, ast.Subscript) and isinstance(x.slice, ast.Constant) for x in (v.left, v.right)
            ):
                out.append((v.left.slice.value, v.right.slice.value))
        emit("c18HandSides", "List (Nat × Nat)", out, "reorient: side_x/y/z = sorted_points[a] - sorted_points[b], in source order")

    def const_of(func, pred):
        for sub in sorted((n for n in ast.walk(func) if isinstance(n, ast.Compare)), key=pos):
            if pred(sub):
                return type(sub.ops[0]).__name__, sub.comparators[0].value
        raise LookupError(func.name)

    def is_len_of_attr(node, attr):
        return (isinstance(node, ast.Call) and ast.unparse(node.func) == "len" and isinstance(node.args[0], ast.Attribute)
                and node.args[0].attr == attr)

    def hull_count():
        op, n = const_of(vp["ViewpointReorienter._make_triangles"], lambda c: is_len_of_attr(c.left, "simplices"))
        emit("c18HullCount", "String × Nat", (op, n), "_make_triangles: `len(hull.simplices) <op> <n>` raises 'not convex'")

    def steep():
        op, lim = const_of(
            vp["Quadrangle.__init__"],
            lambda c: isinstance(c.left, ast.Call) and ast.unparse(c.left.func).endswith("dot")
            and isinstance(c.comparators[0], ast.Constant),
        )
        num, den = Fraction(float(lim)).as_integer_ratio()
        emit("c18SteepLimit", "String × Nat × Nat", (op, num, den),
             "Quadrangle.__init__: `np.dot(n0, n1) <op> num/den` raises (the 60 degree limit)")

    def common_point_guard():
        op, n = const_of(vp["Quadrangle.get_common_point"], lambda c: ast.unparse(c.left).startswith("len("))
        emit("c18CommonPointGuard", "String × Nat", (op, n),
             "Quadrangle.get_common_point: `len(common_2) <op> <n>` raises DegenerateGeometryError")

    def aligned():
        node = _normalised(vp["ViewpointReorienter._get_aligned"])
        sl = _slices(node)[0].slice
        emit("c18AlignedSlice", "Int × Bool", (ast.literal_eval(ast.unparse(sl.lower)), sl.upper is None),
             "_get_aligned: sorted(...)[lower:] (upper bound absent)")
        key = [s for s in ast.walk(node) if isinstance(s, ast.Lambda)][0]
        emit("c18AlignedKey", "String", ast.unparse(key.body), "_get_aligned: the sort key (normalised names)")

    def shell_slice():
        sl = _slices(_functions(shape)["RoundSolidFinder.find_shell"])[0].slice
        emit("c18ShellSlice", "Nat × Nat", (sl.lower.value, sl.upper.value), "find_shell: face.points[lower:upper]")

    def default_radius():
        fb = _functions(finder)["FinderBase._find_by_position"]
        default = [
            ast.unparse(s.body[0].value)
            for s in ast.walk(fb)
            if isinstance(s, ast.If) and isinstance(s.test, ast.Compare) and isinstance(s.test.ops[0], ast.Is)
            and ast.unparse(s.test.comparators[0]) == "None"
        ]
        emit("c18DefaultRadius", "List String", default, "_find_by_position: what `radius` becomes when it is None")

    def normals_dict():
        node = _normalised(vp["ViewpointReorienter._get_normals"])
        ret = [s for s in ast.walk(node) if isinstance(s, ast.Return) and isinstance(s.value, ast.Dict)][0].value
        emit("c18NormalsDict", "List (String × String)",
             [(k.value, ast.unparse(v)) for k, v in zip(ret.keys, ret.values)],
             "_get_normals: the returned dict literal, key -> expression (normalised names), in source order")

    for group in (text_pins, recipe, swap, hand, hull_count, steep, common_point_guard, aligned, shell_slice,
                  default_radius, normals_dict):
        guard(group)
