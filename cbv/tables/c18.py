"""C18 — tables of the current source used by the finder / re-orienter model.

Values are read from the imported package (probe instances of the sketches, the merge
tolerance, the key order of `ViewpointReorienter._get_normals`); nothing is decided here.
"""

from __future__ import annotations

from fractions import Fraction


def sketch_points(sketch):
    """Numbers the points of a sketch by first appearance over `sketch.faces` (coincident positions share
    a number).  Returns (positions, quads)."""
    import numpy as np

    positions = []
    quads = []
    for face in sketch.faces:
        quad = []
        for point in face.points:
            for i, pos in enumerate(positions):
                if float(np.linalg.norm(pos - point.position)) < 1e-7:
                    quad.append(i)
                    break
            else:
                positions.append(np.array(point.position, dtype=float))
                quad.append(len(positions) - 1)
        quads.append(quad)
    return positions, quads


def _sketch_table(name, sketch):
    """(name, quads, core face indices, shell face indices, r2) of a probe sketch;
    r2[i] = squared distance of point i from `sketch.center`, in units of 1e-6 (rounded)."""
    import numpy as np

    positions, quads = sketch_points(sketch)
    faces = list(sketch.faces)

    def index(face):
        return [i for i, f in enumerate(faces) if f is face][0]

    core = [index(f) for f in sketch.core]
    shell = [index(f) for f in sketch.shell]
    center = np.asarray(sketch.center, dtype=float)
    r2 = [int(round(float(np.dot(p - center, p - center)) * 1e6)) for p in positions]
    return (name, quads, core, shell, r2)


def emit_all(emit) -> None:
    import numpy as np

    from classy_blocks.construct.flat.sketches import disk
    from classy_blocks.construct.flat.sketches.annulus import Annulus
    from classy_blocks.modify.reorient.viewpoint import ViewpointReorienter
    from classy_blocks.util import constants

    num, den = Fraction(float(constants.TOL)).as_integer_ratio()
    emit("c18Tol", "Nat × Nat", (num, den), "constants.TOL as the exact rational image of the float")

    o, r, n = [0.0, 0.0, 0.0], [1.0, 0.0, 0.0], [0.0, 0.0, 1.0]
    probes = [
        ("OneCoreDisk", disk.OneCoreDisk(o, r, n)),
        ("QuarterDisk", disk.QuarterDisk(o, r, n)),
        ("HalfDisk", disk.HalfDisk(o, r, n)),
        ("FourCoreDisk", disk.FourCoreDisk(o, r, n)),
        ("WrappedDisk", disk.WrappedDisk(o, [2.0, 2.0, 0.0], 1.0, n)),
        ("Annulus8", Annulus(o, r, n, 0.5, 8)),
        ("Annulus5", Annulus(o, r, n, 0.5, 5)),
    ]
    emit(
        "c18Sketches",
        "List (String × List (List Nat) × List Nat × List Nat × List Nat)",
        [_sketch_table(name, sk) for name, sk in probes],
        "round sketches (probe instances): name, quads (point numbers by first appearance), indices of the faces in "
        "`.core` and in `.shell`, squared distance of every point from `.center` in 1e-6 units",
    )

    normals = ViewpointReorienter([0.0, -10.0, 0.0], [0.0, 0.0, 10.0])._get_normals(np.zeros(3))
    emit(
        "c18ViewOrder",
        "List (String × List Int)",
        [(k, [int(round(float(x))) for x in v]) for k, v in normals.items()],
        "ViewpointReorienter._get_normals for observer (0,-10,0), ceiling (0,0,10), centre 0: keys in dict order with "
        "the (unit) direction of each",
    )
