"""C18 — tables of the current source used by the finder / re-orienter model.

Values are read from the imported package (probe instances of the sketches, the merge
tolerance, the key order of `ViewpointReorienter._get_normals`); nothing is decided here.
"""

from __future__ import annotations

from fractions import Fraction


def sketch_points(sketch):
    """Numbers the points of a sketch by first appearance over `sketch.faces` (coincident positions share
    a number).  Returns (positions, quads)."""
    import numpy as np

    positions = []
    quads = []
    for face in sketch.faces:
        quad = []
        for point in face.points:
            for i, pos in enumerate(positions):
                if float(np.linalg.norm(pos - point.position)) < 1e-7:
                    quad.append(i)
                    break
            else:
                positions.append(np.array(point.position, dtype=float))
                quad.append(len(positions) - 1)
        quads.append(quad)
    return positions, quads


def _sketch_table(name, sketch):
    """(name, quads, core face indices, shell face indices, r2) of a probe sketch;
    r2[i] = squared distance of point i from `sketch.center`, in units of 1e-6 (rounded)."""
    import numpy as np

    positions, quads = sketch_points(sketch)
    faces = list(sketch.faces)

    def index(face):
        return [i for i, f in enumerate(faces) if f is face][0]

    core = [index(f) for f in sketch.core]
    shell = [index(f) for f in sketch.shell]
    center = np.asarray(sketch.center, dtype=float)
    r2 = [int(round(float(np.dot(p - center, p - center)) * 1e6)) for p in positions]
    return (name, quads, core, shell, r2)


def emit_all(emit) -> None:
    import numpy as np

    from classy_blocks.construct.flat.sketches import disk
    from classy_blocks.construct.flat.sketches.annulus import Annulus
    from classy_blocks.modify.reorient.viewpoint import ViewpointReorienter
    from classy_blocks.util import constants

    num, den = Fraction(float(constants.TOL)).as_integer_ratio()
    emit("c18Tol", "Nat × Nat", (num, den), "constants.TOL as the exact rational image of the float")

    o, r, n = [0.0, 0.0, 0.0], [1.0, 0.0, 0.0], [0.0, 0.0, 1.0]
    probes = [
        ("OneCoreDisk", disk.OneCoreDisk(o, r, n)),
        ("QuarterDisk", disk.QuarterDisk(o, r, n)),
        ("HalfDisk", disk.HalfDisk(o, r, n)),
        ("FourCoreDisk", disk.FourCoreDisk(o, r, n)),
        ("WrappedDisk", disk.WrappedDisk(o, [2.0, 2.0, 0.0], 1.0, n)),
        ("Annulus8", Annulus(o, r, n, 0.5, 8)),
        ("Annulus5", Annulus(o, r, n, 0.5, 5)),
    ]
    emit(
        "c18Sketches",
        "List (String × List (List Nat) × List Nat × List Nat × List Nat)",
        [_sketch_table(name, sk) for name, sk in probes],
        "round sketches (probe instances): name, quads (point numbers by first appearance), indices of the faces in "
        "`.core` and in `.shell`, squared distance of every point from `.center` in 1e-6 units",
    )

    normals = ViewpointReorienter([0.0, -10.0, 0.0], [0.0, 0.0, 10.0])._get_normals(np.zeros(3))
    emit(
        "c18ViewOrder",
        "List (String × List Int)",
        [(k, [int(round(float(x))) for x in v]) for k, v in normals.items()],
        "ViewpointReorienter._get_normals for observer (0,-10,0), ceiling (0,0,10), centre 0: keys in dict order with "
        "the (unit) direction of each",
    )

    _emit_source_tie(emit)


# ---------------------------------------------------------------------------------------------------------------
# round 6: what the source states literally (guards, constants, index recipes), read with `ast` from the current files


def _functions(module):
    """qualified name -> ast.FunctionDef of every function / method of a module's current source"""
    import ast
    import inspect

    tree = ast.parse(inspect.getsource(module))
    out = {}
    for node in tree.body:
        if isinstance(node, ast.FunctionDef):
            out[node.name] = node
        elif isinstance(node, ast.ClassDef):
            for sub in node.body:
                if isinstance(sub, ast.FunctionDef):
                    out[f"{node.name}.{sub.name}"] = sub
    return out


def _emit_source_tie(emit) -> None:
    import ast

    from classy_blocks.modify.find import finder, geometric, shape
    from classy_blocks.modify.reorient import viewpoint
    from classy_blocks.util import functions

    vp = _functions(viewpoint)
    srcs = [("viewpoint", vp), ("finder", _functions(finder)), ("geometric", _functions(geometric)), ("shape", _functions(shape))]
    fn = _functions(functions)
    srcs.append(("functions", {k: fn[k] for k in ("is_point_on_plane", "point_to_plane_distance") if k in fn}))

    # every comparison and every slice of the anchored functions, as source text, in source order
    compares, slices = [], []
    for mod, funcs in srcs:
        for name, node in funcs.items():
            for sub in ast.walk(node):
                if isinstance(sub, ast.Compare):
                    compares.append((f"{mod}.{name}", sub.lineno, sub.col_offset, ast.unparse(sub)))
                elif isinstance(sub, ast.Subscript) and isinstance(sub.slice, ast.Slice):
                    slices.append((f"{mod}.{name}", sub.lineno, sub.col_offset, ast.unparse(sub)))
    compares.sort(key=lambda c: (c[0].split(".")[0] != "viewpoint", c[1], c[2]))
    emit(
        "c18Compares",
        "List (String × String)",
        [(c[0], c[3]) for c in sorted(compares, key=lambda c: (c[0], c[1], c[2]))],
        "every comparison (ast.Compare) of viewpoint.py, finder.py, geometric.py, shape.py and functions.is_point_on_plane / "
        "point_to_plane_distance: (function, source text), sorted by function and position",
    )
    emit(
        "c18Slices",
        "List (String × String)",
        [(c[0], c[3]) for c in sorted(slices, key=lambda c: (c[0], c[1], c[2]))],
        "every slice of the same functions: (function, source text)",
    )

    # ViewpointReorienter.reorient: the eight triple intersections, the handedness test and the swap
    reorient = vp["ViewpointReorienter.reorient"]
    recipe, swap, hand = [], [], []
    for sub in ast.walk(reorient):
        if isinstance(sub, ast.Assign) and len(sub.targets) == 1 and ast.unparse(sub.targets[0]) == "sorted_points":
            if isinstance(sub.value, ast.List):  # quads[a].get_common_point(quads[b], quads[c])
                for call in sub.value.elts:
                    recipe.append(
                        (call.func.value.slice.value, call.args[0].slice.value, call.args[1].slice.value)
                    )
            elif isinstance(sub.value, ast.ListComp):  # [sorted_points[i] for i in (...)]
                swap = [e.value for e in sub.value.generators[0].iter.elts]
        if isinstance(sub, ast.Assign) and ast.unparse(sub.targets[0]) in ("side_x", "side_y", "side_z"):
            v = sub.value  # sorted_points[a] - sorted_points[b]
            hand.append((ast.unparse(sub.targets[0]), v.left.slice.value, v.right.slice.value))
    emit("c18CornerRecipe", "List (String × String × String)", recipe,
         "reorient: sorted_points[k] = quads[a].get_common_point(quads[b], quads[c]), in list order")
    emit("c18SwapIdx", "List Nat", swap, "reorient: the index tuple of the handedness swap")
    emit("c18HandSides", "List (String × Nat × Nat)", hand, "reorient: side_x/y/z = sorted_points[a] - sorted_points[b]")

    # numeric constants of the guards
    def const_of(func, pred):
        for sub in ast.walk(func):
            if isinstance(sub, ast.Compare) and pred(ast.unparse(sub)):
                c = sub.comparators[0]
                return type(sub.ops[0]).__name__, c.value
        raise LookupError(func.name)

    op, n = const_of(vp["ViewpointReorienter._make_triangles"], lambda s: "hull.simplices" in s)
    emit("c18HullCount", "String × Nat", (op, n), "_make_triangles: `len(hull.simplices) <op> <n>` raises 'not convex'")
    op, lim = const_of(vp["Quadrangle.__init__"], lambda s: "np.dot" in s)
    num, den = Fraction(float(lim)).as_integer_ratio()
    emit("c18SteepLimit", "String × Nat × Nat", (op, num, den),
         "Quadrangle.__init__: `np.dot(n0, n1) <op> num/den` raises (the 60 degree limit)")
    aligned = vp["ViewpointReorienter._get_aligned"]
    sl = [s for s in ast.walk(aligned) if isinstance(s, ast.Subscript) and isinstance(s.slice, ast.Slice)][0].slice
    emit("c18AlignedSlice", "Int × Bool", (ast.literal_eval(ast.unparse(sl.lower)), sl.upper is None),
         "_get_aligned: sorted(...)[lower:] (upper bound absent)")
    key = [s for s in ast.walk(aligned) if isinstance(s, ast.Lambda)][0]
    emit("c18AlignedKey", "String", ast.unparse(key.body), "_get_aligned: the sort key")
    shell = _functions(shape)["RoundSolidFinder.find_shell"]
    sl = [s for s in ast.walk(shell) if isinstance(s, ast.Subscript) and isinstance(s.slice, ast.Slice)][0].slice
    emit("c18ShellSlice", "Nat × Nat", (sl.lower.value, sl.upper.value), "find_shell: face.points[lower:upper]")
    fb = _functions(finder)["FinderBase._find_by_position"]
    default = [ast.unparse(s.body[0].value) for s in ast.walk(fb) if isinstance(s, ast.If) and "radius is None" in ast.unparse(s.test)]
    emit("c18DefaultRadius", "List String", default, "_find_by_position: what `radius` becomes when it is None")
    order = [ast.unparse(k) for s in ast.walk(vp["ViewpointReorienter._get_normals"]) if isinstance(s, ast.Return)
             for k in s.value.keys]
    vals = [ast.unparse(v) for s in ast.walk(vp["ViewpointReorienter._get_normals"]) if isinstance(s, ast.Return)
            for v in s.value.values]
    emit("c18NormalsDict", "List (String × String)", list(zip([o.strip("'\"") for o in order], vals)),
         "_get_normals: the returned dict literal, key -> expression, in source order")
