"""Tables of the current source for C05: the plain value (`constants.TOL`, named by the model) first, then the probe of
`get_patches_at_corner` in its own `emit.guard` group (named only by the tie theorem `T_C05_corner_table`)."""


def _corner_sides(emit):
    # probe: an operation with a different patch name on every side; what get_patches_at_corner says
    from classy_blocks.construct.flat.face import Face
    from classy_blocks.construct.operations.loft import Loft
    from classy_blocks.util import constants

    bottom = Face([[0, 0, 0], [1, 0, 0], [1, 1, 0], [0, 1, 0]])
    top = Face([[0, 0, 1], [1, 0, 1], [1, 1, 1], [0, 1, 1]])
    probe = Loft(bottom, top)
    for side in constants.FACE_MAP:
        probe.set_patch(side, side)
    emit(
        "c05CornerSides",
        "List (List String)",
        [sorted(probe.get_patches_at_corner(c)) for c in range(8)],
        "Operation.get_patches_at_corner(c), c = 0..7, on a probe whose patches are named after their sides (sorted)",
    )


def emit_all(emit):
    from classy_blocks.util import constants

    num, den = float(constants.TOL).as_integer_ratio()
    emit("c05TolNum", "Nat", num, "constants.TOL as an exact fraction of the float64 value: numerator")
    emit("c05TolDen", "Nat", den, "constants.TOL: denominator")
    emit.guard(_corner_sides, emit)
